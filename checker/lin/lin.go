// Package lin: linear expressions over integer atoms with int64 coefficients and a
// Fourier–Motzkin infeasibility test with integer tightening. The test is sound for the
// integers (a reported infeasibility is real); incompleteness and arithmetic overflow only ever
// yield "undecided".
package lin

import (
	"fmt"
	"math/bits"
	"sort"
	"strings"
)

// Lin is Σ cs[i]·vs[i] + c with vs strictly increasing.
type Lin struct {
	vs  []int
	cs  []int64
	c   int64
	bad bool // an overflow happened while building it: carries no information
}

func New() *Lin            { return &Lin{} }
func Const(n int64) *Lin   { return &Lin{c: n} }
func Var(v int) *Lin       { return &Lin{vs: []int{v}, cs: []int64{1}} }
func (l *Lin) Clone() *Lin { return l } // immutable

func mulOK(a, b int64) (int64, bool) {
	if a == 0 || b == 0 {
		return 0, true
	}
	neg := (a < 0) != (b < 0)
	ua, ub := uint64(a), uint64(b)
	if a < 0 {
		ua = uint64(-a)
	}
	if b < 0 {
		ub = uint64(-b)
	}
	hi, lo := bits.Mul64(ua, ub)
	if hi != 0 || lo > 1<<62 {
		return 0, false
	}
	if neg {
		return -int64(lo), true
	}
	return int64(lo), true
}

func addOK(a, b int64) (int64, bool) {
	s := a + b
	if (a > 0 && b > 0 && s < 0) || (a < 0 && b < 0 && s >= 0) {
		return 0, false
	}
	if s > 1<<62 || s < -(1<<62) {
		return 0, false
	}
	return s, true
}

// comb returns ka*a + kb*b.
func comb(a *Lin, ka int64, b *Lin, kb int64) *Lin {
	r := &Lin{bad: a.bad || b.bad}
	if r.bad {
		return r
	}
	r.vs = make([]int, 0, len(a.vs)+len(b.vs))
	r.cs = make([]int64, 0, len(a.vs)+len(b.vs))
	i, j := 0, 0
	push := func(v int, c int64) {
		if c != 0 {
			r.vs = append(r.vs, v)
			r.cs = append(r.cs, c)
		}
	}
	for i < len(a.vs) || j < len(b.vs) {
		switch {
		case j >= len(b.vs) || (i < len(a.vs) && a.vs[i] < b.vs[j]):
			p, ok := mulOK(a.cs[i], ka)
			if !ok {
				return &Lin{bad: true}
			}
			push(a.vs[i], p)
			i++
		case i >= len(a.vs) || b.vs[j] < a.vs[i]:
			p, ok := mulOK(b.cs[j], kb)
			if !ok {
				return &Lin{bad: true}
			}
			push(b.vs[j], p)
			j++
		default:
			p, ok1 := mulOK(a.cs[i], ka)
			q, ok2 := mulOK(b.cs[j], kb)
			s, ok3 := addOK(p, q)
			if !ok1 || !ok2 || !ok3 {
				return &Lin{bad: true}
			}
			push(a.vs[i], s)
			i++
			j++
		}
	}
	p, ok1 := mulOK(a.c, ka)
	q, ok2 := mulOK(b.c, kb)
	s, ok3 := addOK(p, q)
	if !ok1 || !ok2 || !ok3 {
		return &Lin{bad: true}
	}
	r.c = s
	return r
}

func (l *Lin) Add(o *Lin) *Lin       { return comb(l, 1, o, 1) }
func (l *Lin) Sub(o *Lin) *Lin       { return comb(l, 1, o, -1) }
func (l *Lin) Scale(k int64) *Lin    { return comb(l, k, &Lin{}, 0) }
func (l *Lin) AddConst(k int64) *Lin { return comb(l, 1, &Lin{c: k}, 1) }
// DivExact returns l/k when every coefficient and the constant are multiples of k.
func (l *Lin) DivExact(k int64) (*Lin, bool) {
	if l.bad || k == 0 || l.c%k != 0 {
		return nil, false
	}
	r := &Lin{c: l.c / k, vs: append([]int(nil), l.vs...), cs: make([]int64, len(l.cs))}
	for i, c := range l.cs {
		if c%k != 0 {
			return nil, false
		}
		r.cs[i] = c / k
	}
	return r, true
}

// ConstTerm returns the constant term of l.
func (l *Lin) ConstTerm() int64 { return l.c }

func (l *Lin) IsConst() bool         { return !l.bad && len(l.vs) == 0 }
func (l *Lin) Bad() bool             { return l.bad }

func (l *Lin) ConstVal() (int64, bool) {
	if l.bad || len(l.vs) != 0 {
		return 0, false
	}
	return l.c, true
}

func (l *Lin) SingleVar() (int, bool) {
	if l.bad || len(l.vs) != 1 || l.c != 0 || l.cs[0] != 1 {
		return 0, false
	}
	return l.vs[0], true
}

// VarPlusConst decomposes l = v + c (coefficient 1).
func (l *Lin) VarPlusConst() (v int, c int64, ok bool) {
	if l.bad || len(l.vs) != 1 || l.cs[0] != 1 {
		return 0, 0, false
	}
	return l.vs[0], l.c, true
}

func (l *Lin) Vars() []int { return l.vs }

func (l *Lin) coef(v int) int64 {
	i := sort.SearchInts(l.vs, v)
	if i < len(l.vs) && l.vs[i] == v {
		return l.cs[i]
	}
	return 0
}

func (l *Lin) Has(v int) bool { return l.coef(v) != 0 }

// Coef returns the coefficient of v.
func (l *Lin) Coef(v int) int64 { return l.coef(v) }

// Subst replaces variable v by expression e.
func (l *Lin) Subst(v int, e *Lin) *Lin {
	c := l.coef(v)
	if c == 0 {
		return l
	}
	without := comb(l, 1, Var(v), -c)
	return comb(without, 1, e, c)
}

func (l *Lin) Equal(o *Lin) bool {
	if l.bad || o.bad || len(l.vs) != len(o.vs) || l.c != o.c {
		return false
	}
	for i := range l.vs {
		if l.vs[i] != o.vs[i] || l.cs[i] != o.cs[i] {
			return false
		}
	}
	return true
}

func (l *Lin) String(name func(int) string) string {
	if l.bad {
		return "<overflow>"
	}
	var parts []string
	for i, v := range l.vs {
		c := l.cs[i]
		n := fmt.Sprintf("v%d", v)
		if name != nil {
			n = name(v)
		}
		switch {
		case c == 1:
			parts = append(parts, "+"+n)
		case c == -1:
			parts = append(parts, "-"+n)
		case c > 0:
			parts = append(parts, fmt.Sprintf("+%d*%s", c, n))
		default:
			parts = append(parts, fmt.Sprintf("%d*%s", c, n))
		}
	}
	if l.c != 0 || len(parts) == 0 {
		if l.c >= 0 {
			parts = append(parts, fmt.Sprintf("+%d", l.c))
		} else {
			parts = append(parts, fmt.Sprintf("%d", l.c))
		}
	}
	return strings.TrimPrefix(strings.Join(parts, " "), "+")
}

// Key is a compact canonical encoding.
func (l *Lin) Key() string {
	if l.bad {
		return "!"
	}
	b := make([]byte, 0, 10*len(l.vs)+10)
	put := func(x int64) {
		u := uint64(x<<1) ^ uint64(x>>63)
		for u >= 0x80 {
			b = append(b, byte(u)|0x80)
			u >>= 7
		}
		b = append(b, byte(u))
	}
	for i, v := range l.vs {
		put(int64(v))
		put(l.cs[i])
	}
	b = append(b, 0xFF)
	put(l.c)
	return string(b)
}

// Ineq is L <= 0.
type Ineq struct{ L *Lin }

func LE(a, b *Lin) Ineq   { return Ineq{a.Sub(b)} }
func LT(a, b *Lin) Ineq   { return Ineq{a.Sub(b).AddConst(1)} }
func GE(a, b *Lin) Ineq   { return LE(b, a) }
func GT(a, b *Lin) Ineq   { return LT(b, a) }
func EQ(a, b *Lin) []Ineq { return []Ineq{LE(a, b), LE(b, a)} }

// Neg is the integer negation: ¬(L <= 0) = -L + 1 <= 0.
func (q Ineq) Neg() Ineq { return Ineq{q.L.Scale(-1).AddConst(1)} }

func (q Ineq) String(name func(int) string) string { return q.L.String(name) + " <= 0" }
func (q Ineq) Key() string                         { return q.L.Key() }
func (q Ineq) Subst(v int, e *Lin) Ineq            { return Ineq{q.L.Subst(v, e)} }

// Trivial reports whether the inequality has no variables; holds tells whether it is true.
// An overflowed inequality is treated as trivially true (it carries no information).
func (q Ineq) Trivial() (trivial, holds bool) {
	if q.L.bad {
		return true, true
	}
	if len(q.L.vs) != 0 {
		return false, false
	}
	return true, q.L.c <= 0
}

func gcd(a, b int64) int64 {
	if a < 0 {
		a = -a
	}
	if b < 0 {
		b = -b
	}
	for b != 0 {
		a, b = b, a%b
	}
	return a
}

// tighten divides by the gcd of the coefficients, rounding the constant up (integer variables).
func tighten(l *Lin) *Lin {
	if l.bad || len(l.vs) == 0 {
		return l
	}
	g := int64(0)
	for _, c := range l.cs {
		g = gcd(g, c)
	}
	if g <= 1 {
		return l
	}
	r := &Lin{vs: l.vs, cs: make([]int64, len(l.cs))}
	for i, c := range l.cs {
		r.cs[i] = c / g
	}
	// ceil(c/g)
	q := l.c / g
	if l.c%g != 0 && l.c > 0 {
		q++
	}
	r.c = q
	return r
}

// SliceHops keeps the inequalities reachable from the seed variables through at most `hops`
// rounds of variable sharing. complete reports whether the result is closed.
func SliceHops(facts []Ineq, seed []int, hops int) (out []Ineq, complete bool) {
	want := map[int]bool{}
	for _, v := range seed {
		want[v] = true
	}
	used := make([]bool, len(facts))
	for h := 0; ; h++ {
		var add []int
		grew := false
		for i, f := range facts {
			if used[i] || f.L.bad {
				continue
			}
			hit := len(f.L.vs) == 0
			if !hit {
				for _, v := range f.L.vs {
					if want[v] {
						hit = true
						break
					}
				}
			}
			if hit {
				if h >= hops {
					return out, false
				}
				used[i] = true
				out = append(out, f)
				grew = true
				for _, v := range f.L.vs {
					if !want[v] {
						add = append(add, v)
					}
				}
			}
		}
		for _, v := range add {
			want[v] = true
		}
		if !grew {
			return out, true
		}
	}
}

// Slice keeps everything transitively connected to the seed.
func Slice(facts []Ineq, seed []int) []Ineq {
	out, _ := SliceHops(facts, seed, 1<<30)
	return out
}

// VarsOf collects the variables of a set of inequalities.
func VarsOf(qs []Ineq) []int {
	seen := map[int]bool{}
	var out []int
	for _, q := range qs {
		for _, v := range q.L.vs {
			if !seen[v] {
				seen[v] = true
				out = append(out, v)
			}
		}
	}
	sort.Ints(out)
	return out
}

// Infeasible reports whether the conjunction has no integer solution (sufficient test).
// budget bounds the size of the intermediate systems.
func Infeasible(ineqs []Ineq, budget int) bool {
	cur := make([]*Lin, 0, len(ineqs))
	seen := map[string]bool{}
	for _, q := range ineqs {
		if q.L.bad {
			continue
		}
		l := tighten(q.L)
		k := l.Key()
		if !seen[k] {
			seen[k] = true
			cur = append(cur, l)
		}
	}
	type pn struct{ p, n int }
	for {
		vars := map[int]pn{}
		next := cur[:0:0]
		for _, l := range cur {
			if len(l.vs) == 0 {
				if l.c > 0 {
					return true
				}
				continue
			}
			next = append(next, l)
			for i, v := range l.vs {
				x := vars[v]
				if l.cs[i] > 0 {
					x.p++
				} else {
					x.n++
				}
				vars[v] = x
			}
		}
		cur = next
		if len(cur) == 0 {
			return false
		}
		// variables occurring with one sign only: drop their inequalities
		oneSided := map[int]bool{}
		for v, x := range vars {
			if x.p == 0 || x.n == 0 {
				oneSided[v] = true
			}
		}
		if len(oneSided) > 0 {
			keep := cur[:0:0]
			for _, l := range cur {
				drop := false
				for _, v := range l.vs {
					if oneSided[v] {
						drop = true
						break
					}
				}
				if !drop {
					keep = append(keep, l)
				}
			}
			cur = keep
			continue
		}
		best, bestCost := -1, 1<<60
		for v, x := range vars {
			cost := x.p*x.n - x.p - x.n
			if cost < bestCost || (cost == bestCost && v < best) {
				best, bestCost = v, cost
			}
		}
		var pos, neg, rest []*Lin
		for _, l := range cur {
			c := l.coef(best)
			switch {
			case c > 0:
				pos = append(pos, l)
			case c < 0:
				neg = append(neg, l)
			default:
				rest = append(rest, l)
			}
		}
		if len(pos)*len(neg)+len(rest) > budget {
			return false
		}
		dedup := make(map[string]bool, len(rest)+len(pos)*len(neg))
		for _, r := range rest {
			dedup[r.Key()] = true
		}
		for _, p := range pos {
			a := p.coef(best)
			for _, n := range neg {
				b := -n.coef(best)
				g := gcd(a, b)
				r := comb(p, b/g, n, a/g)
				if r.bad {
					continue
				}
				r = tighten(r)
				if len(r.vs) == 0 {
					if r.c > 0 {
						return true
					}
					continue
				}
				k := r.Key()
				if dedup[k] {
					continue
				}
				dedup[k] = true
				rest = append(rest, r)
			}
		}
		cur = rest
	}
}

// Entails: facts ⊨ goal over the integers (sufficient test).
func Entails(facts []Ineq, goal Ineq) bool {
	if t, h := goal.Trivial(); t {
		if h {
			return !goal.L.bad
		}
		return Infeasible(facts, 6000)
	}
	neg := goal.Neg()
	sl := Slice(facts, neg.L.Vars())
	all := append(append(make([]Ineq, 0, len(sl)+1), sl...), neg)
	return Infeasible(all, 6000)
}

// UpperBound computes an upper bound of l from per-variable ranges (interval arithmetic).
// rng returns (lo, hi, hasLo, hasHi) for a variable. ok=false if unbounded or on overflow.
func (l *Lin) UpperBound(rng func(v int) (int64, int64, bool, bool)) (int64, bool) {
	if l.bad {
		return 0, false
	}
	ub := l.c
	for i, v := range l.vs {
		lo, hi, hasLo, hasHi := rng(v)
		c := l.cs[i]
		var t int64
		var ok bool
		if c > 0 {
			if !hasHi {
				return 0, false
			}
			t, ok = mulOK(c, hi)
		} else {
			if !hasLo {
				return 0, false
			}
			t, ok = mulOK(c, lo)
		}
		if !ok {
			return 0, false
		}
		ub, ok = addOK(ub, t)
		if !ok {
			return 0, false
		}
	}
	return ub, true
}
