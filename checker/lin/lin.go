// Package lin: linear expressions over integer atoms and a Fourier–Motzkin infeasibility test
// over the rationals (sound for the integers: rational infeasibility implies integer
// infeasibility; incompleteness only ever yields "undecided").
package lin

import (
	"fmt"
	"math/big"
	"sort"
	"strings"
)

// Lin is Σ co[v]·v + c with rational coefficients.
type Lin struct {
	co map[int]*big.Rat
	c  *big.Rat
}

func New() *Lin { return &Lin{co: map[int]*big.Rat{}, c: new(big.Rat)} }

func Const(n int64) *Lin {
	l := New()
	l.c.SetInt64(n)
	return l
}

func Var(v int) *Lin {
	l := New()
	l.co[v] = big.NewRat(1, 1)
	return l
}

func (l *Lin) Clone() *Lin {
	r := &Lin{co: make(map[int]*big.Rat, len(l.co)), c: new(big.Rat).Set(l.c)}
	for k, v := range l.co {
		r.co[k] = new(big.Rat).Set(v)
	}
	return r
}

func (l *Lin) AddScaled(o *Lin, k *big.Rat) *Lin {
	r := l.Clone()
	for v, c := range o.co {
		t := new(big.Rat).Mul(c, k)
		if e, ok := r.co[v]; ok {
			e.Add(e, t)
			if e.Sign() == 0 {
				delete(r.co, v)
			}
		} else if t.Sign() != 0 {
			r.co[v] = t
		}
	}
	r.c.Add(r.c, new(big.Rat).Mul(o.c, k))
	return r
}

var one = big.NewRat(1, 1)
var minusOne = big.NewRat(-1, 1)

func (l *Lin) Add(o *Lin) *Lin      { return l.AddScaled(o, one) }
func (l *Lin) Sub(o *Lin) *Lin      { return l.AddScaled(o, minusOne) }
func (l *Lin) Scale(k int64) *Lin   { return New().AddScaled(l, big.NewRat(k, 1)) }
func (l *Lin) AddConst(k int64) *Lin { return l.Add(Const(k)) }
func (l *Lin) IsConst() bool        { return len(l.co) == 0 }

// ConstVal returns the constant if the expression is an integer constant.
func (l *Lin) ConstVal() (int64, bool) {
	if len(l.co) != 0 || !l.c.IsInt() {
		return 0, false
	}
	return l.c.Num().Int64(), l.c.Num().IsInt64()
}

// SingleVar reports whether l is exactly 1·v (+0).
func (l *Lin) SingleVar() (int, bool) {
	if len(l.co) != 1 || l.c.Sign() != 0 {
		return 0, false
	}
	for v, c := range l.co {
		if c.Cmp(one) == 0 {
			return v, true
		}
	}
	return 0, false
}

func (l *Lin) Vars() []int {
	vs := make([]int, 0, len(l.co))
	for v := range l.co {
		vs = append(vs, v)
	}
	sort.Ints(vs)
	return vs
}

func (l *Lin) Has(v int) bool { _, ok := l.co[v]; return ok }

// Subst replaces variable v by expression e.
func (l *Lin) Subst(v int, e *Lin) *Lin {
	c, ok := l.co[v]
	if !ok {
		return l
	}
	r := l.Clone()
	delete(r.co, v)
	return r.AddScaled(e, c)
}

func (l *Lin) Equal(o *Lin) bool {
	if len(l.co) != len(o.co) || l.c.Cmp(o.c) != 0 {
		return false
	}
	for v, c := range l.co {
		d, ok := o.co[v]
		if !ok || c.Cmp(d) != 0 {
			return false
		}
	}
	return true
}

// String renders with a naming function.
func (l *Lin) String(name func(int) string) string {
	var parts []string
	for _, v := range l.Vars() {
		c := l.co[v]
		n := fmt.Sprintf("v%d", v)
		if name != nil {
			n = name(v)
		}
		switch {
		case c.Cmp(one) == 0:
			parts = append(parts, "+"+n)
		case c.Cmp(minusOne) == 0:
			parts = append(parts, "-"+n)
		case c.Sign() > 0:
			parts = append(parts, "+"+c.RatString()+"*"+n)
		default:
			parts = append(parts, c.RatString()+"*"+n)
		}
	}
	if l.c.Sign() != 0 || len(parts) == 0 {
		if l.c.Sign() >= 0 {
			parts = append(parts, "+"+l.c.RatString())
		} else {
			parts = append(parts, l.c.RatString())
		}
	}
	return strings.TrimPrefix(strings.Join(parts, " "), "+")
}

func (l *Lin) Key() string { return l.String(nil) }

// Ineq is L <= 0.
type Ineq struct{ L *Lin }

// LE builds a <= b.
func LE(a, b *Lin) Ineq { return Ineq{a.Sub(b)} }

// LT builds a < b over the integers (a - b + 1 <= 0).
func LT(a, b *Lin) Ineq { return Ineq{a.Sub(b).Add(Const(1))} }

func GE(a, b *Lin) Ineq { return LE(b, a) }
func GT(a, b *Lin) Ineq { return LT(b, a) }

// EQ returns the two inequalities of a == b.
func EQ(a, b *Lin) []Ineq { return []Ineq{LE(a, b), LE(b, a)} }

// Neg is the integer negation of q: ¬(L <= 0) = L >= 1 = -L + 1 <= 0.
func (q Ineq) Neg() Ineq { return Ineq{q.L.Scale(-1).Add(Const(1))} }

func (q Ineq) String(name func(int) string) string { return q.L.String(name) + " <= 0" }

func (q Ineq) Key() string { return q.L.Key() }

// Subst substitutes in an inequality.
func (q Ineq) Subst(v int, e *Lin) Ineq { return Ineq{q.L.Subst(v, e)} }

// Trivial reports whether the inequality has no variables; ok tells whether it holds.
func (q Ineq) Trivial() (trivial, holds bool) {
	if !q.L.IsConst() {
		return false, false
	}
	return true, q.L.c.Sign() <= 0
}

// Slice keeps only the inequalities transitively sharing variables with the seed variables.
func Slice(facts []Ineq, seed []int) []Ineq {
	want := map[int]bool{}
	for _, v := range seed {
		want[v] = true
	}
	used := make([]bool, len(facts))
	var out []Ineq
	for changed := true; changed; {
		changed = false
		for i, f := range facts {
			if used[i] {
				continue
			}
			hit := false
			for v := range f.L.co {
				if want[v] {
					hit = true
					break
				}
			}
			if f.L.IsConst() {
				hit = true
			}
			if hit {
				used[i] = true
				out = append(out, f)
				for v := range f.L.co {
					if !want[v] {
						want[v] = true
						changed = true
					}
				}
			}
		}
	}
	return out
}

// Infeasible reports whether the conjunction is infeasible over the rationals.
// budget bounds the number of derived inequalities per elimination step; exceeding it gives
// false (undecided).
func Infeasible(ineqs []Ineq, budget int) bool {
	cur := make([]*Lin, 0, len(ineqs))
	seen := map[string]bool{}
	for _, q := range ineqs {
		k := q.L.Key()
		if !seen[k] {
			seen[k] = true
			cur = append(cur, q.L)
		}
	}
	for {
		vars := map[int][2]int{}
		next := cur[:0:0]
		for _, l := range cur {
			if l.IsConst() {
				if l.c.Sign() > 0 {
					return true
				}
				continue
			}
			next = append(next, l)
			for v, c := range l.co {
				pn := vars[v]
				if c.Sign() > 0 {
					pn[0]++
				} else {
					pn[1]++
				}
				vars[v] = pn
			}
		}
		cur = next
		if len(cur) == 0 {
			return false
		}
		// drop variables that occur with one sign only (their constraints are always satisfiable)
		dropped := false
		for v, pn := range vars {
			if pn[0] == 0 || pn[1] == 0 {
				keep := cur[:0:0]
				for _, l := range cur {
					if _, ok := l.co[v]; !ok {
						keep = append(keep, l)
					}
				}
				cur = keep
				dropped = true
				break
			}
		}
		if dropped {
			continue
		}
		best, bestCost := -1, 1<<60
		keys := make([]int, 0, len(vars))
		for v := range vars {
			keys = append(keys, v)
		}
		sort.Ints(keys)
		for _, v := range keys {
			pn := vars[v]
			cost := pn[0]*pn[1] - pn[0] - pn[1]
			if cost < bestCost {
				best, bestCost = v, cost
			}
		}
		var pos, neg, rest []*Lin
		for _, l := range cur {
			if c, ok := l.co[best]; ok {
				if c.Sign() > 0 {
					pos = append(pos, l)
				} else {
					neg = append(neg, l)
				}
			} else {
				rest = append(rest, l)
			}
		}
		if len(pos)*len(neg)+len(rest) > budget {
			return false
		}
		dedup := map[string]bool{}
		for _, r := range rest {
			dedup[r.Key()] = true
		}
		for _, p := range pos {
			for _, n := range neg {
				a := p.co[best]
				b := new(big.Rat).Neg(n.co[best])
				r := New().AddScaled(p, b).AddScaled(n, a)
				delete(r.co, best)
				r.normalize()
				k := r.Key()
				if dedup[k] {
					continue
				}
				dedup[k] = true
				rest = append(rest, r)
			}
		}
		cur = rest
	}
}

// normalize divides by the smallest absolute coefficient so that syntactically equal
// consequences are recognised as duplicates.
func (l *Lin) normalize() {
	var m *big.Rat
	for _, c := range l.co {
		a := new(big.Rat).Abs(c)
		if m == nil || a.Cmp(m) < 0 {
			m = a
		}
	}
	if m == nil || m.Cmp(one) == 0 || m.Sign() == 0 {
		return
	}
	inv := new(big.Rat).Inv(m)
	for v, c := range l.co {
		l.co[v] = new(big.Rat).Mul(c, inv)
	}
	l.c.Mul(l.c, inv)
}

// Entails: facts ⊨ goal over the integers (sufficient test).
func Entails(facts []Ineq, goal Ineq) bool {
	if t, h := goal.Trivial(); t {
		if h {
			return true
		}
		// a false constant goal is entailed only by infeasible facts
		return Infeasible(facts, 6000)
	}
	neg := goal.Neg()
	sl := Slice(facts, neg.L.Vars())
	all := append(append(make([]Ineq, 0, len(sl)+1), sl...), neg)
	return Infeasible(all, 6000)
}

// SliceHops keeps the inequalities reachable from the seed variables through at most `hops`
// rounds of variable sharing. complete reports whether the result is closed (no further
// inequality shares a variable with it).
func SliceHops(facts []Ineq, seed []int, hops int) (out []Ineq, complete bool) {
	want := map[int]bool{}
	for _, v := range seed {
		want[v] = true
	}
	used := make([]bool, len(facts))
	for h := 0; ; h++ {
		var add []int
		grew := false
		for i, f := range facts {
			if used[i] {
				continue
			}
			hit := f.L.IsConst()
			if !hit {
				for v := range f.L.co {
					if want[v] {
						hit = true
						break
					}
				}
			}
			if hit {
				if h >= hops {
					return out, false
				}
				used[i] = true
				out = append(out, f)
				grew = true
				for v := range f.L.co {
					if !want[v] {
						add = append(add, v)
					}
				}
			}
		}
		for _, v := range add {
			want[v] = true
		}
		if !grew {
			return out, true
		}
	}
}

// VarsOf collects the variables of a set of inequalities.
func VarsOf(qs []Ineq) []int {
	seen := map[int]bool{}
	var out []int
	for _, q := range qs {
		for v := range q.L.co {
			if !seen[v] {
				seen[v] = true
				out = append(out, v)
			}
		}
	}
	sort.Ints(out)
	return out
}
