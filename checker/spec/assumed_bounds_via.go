package spec

// superseded by assumed_bounds_parts.go (tools/regen_assumed.sh); kept empty so that the history of the table stays readable in git
var assumedBoundsVia = map[string]string{}
