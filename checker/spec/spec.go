// Package spec holds the oracles: the assumed-obligation table, the trusted base, layout tables.
package spec

// TrustedBase is repeated in every evidence file.
var TrustedBase = []string{
	"go/types + go/ssa (golang.org/x/tools v0.29.0) faithfully represent the program",
	"the stdlib model in checker/bounds/stdlib.go (panic preconditions, result facts, aliasing) for the ~25 external functions in scope",
	"sync.Mutex provides mutual exclusion and happens-before (Go memory model)",
	"the layout/range tables in checker/spec were transcribed correctly from RFC 3550/8285/6184/7741/7798, the VP9 and AV1 RTP payload specs and the WebRTC header-extension documents",
}

// CommonAssumptions are the soundness assumptions shared by all engines.
var CommonAssumptions = []string{
	"no unsafe, reflection or cgo in scope (checked at load: none imported by the module's non-test code)",
	"method receivers are non-nil",
	"a store through a pointer of type *T cannot change a value of a different type (type-based alias filter)",
	"64-bit int (GOARCH=amd64); len(x) <= 2^40 so that sums of a handful of lengths and 32-bit parsed quantities do not overflow int",
	"goroutine interleaving is irrelevant outside C07: the module has no shared mutable package-level state except the random generators",
}

// Assumed maps an obligation key (rule|func|construct) to the reason it is accepted without a
// mechanical proof. Each entry was confirmed by reading the code; it matches exactly one
// construct in one function, and a new undecided obligation anywhere fails the check.
var Assumed = map[string]string{}
