// Code generated from the triaged list of undischarged obligations; edit reasons by hand.
package spec

func init() {
	for k, v := range assumedBounds {
		Assumed[k] = v
	}
}

var assumedBounds = map[string]string{
	"BOUNDS.CTR|rtp.(*Header).Unmarshal|success (legacy arm): 0 <= n <= len(buf): return n, nil":                                    `the legacy arm advances n by len(h.Extensions[0].payload), which is the slice buf[n:extensionEnd] appended two statements earlier (extensionEnd <= len(buf) is checked): the reload of an element just appended to a slice is not tracked`,
	"BOUNDS.CTR|rtp.(*Header).Unmarshal|ext-exact (legacy arm): header length = end of the extension block: return n, nil":          `same as above: n + len(buf[n:extensionEnd]) = extensionEnd; the appended element is not tracked through the slice`,
	"BOUNDS.PRE|rtp.(VLA).Marshal|binary.bigEndian).PutUint16: binary.BigEndian.PutUint16(payload[offset+0:], uint16(sl.Width-1))":  `payload has length ctx.requiredLen, which analyzeVLAForMarshaling computes as the sum of exactly the byte counts written here (1 or 3, one #tl byte per 4 layers, the LEB128 sizes, 5 per layer): a sum invariant between two traversals of the same structure, outside the linear domain; protected by rule SIBLING.vla`,
	"BOUNDS.PRE|rtp.(VLA).Marshal|binary.bigEndian).PutUint16: binary.BigEndian.PutUint16(payload[offset+2:], uint16(sl.Height-1))": `payload has length ctx.requiredLen, which analyzeVLAForMarshaling computes as the sum of exactly the byte counts written here (1 or 3, one #tl byte per 4 layers, the LEB128 sizes, 5 per layer): a sum invariant between two traversals of the same structure, outside the linear domain; protected by rule SIBLING.vla`,
}
