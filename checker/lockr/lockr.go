// Package lockr is the lock-region analysis (engine E5): every access to a field that lives
// next to a sync.Mutex must happen inside a critical section of that mutex on the same receiver.
package lockr

import (
	"fmt"
	"go/token"
	"go/types"
	"sort"

	"golang.org/x/tools/go/ssa"

	"rtpcheck/core"
)

type lockState int

const (
	unlocked lockState = iota
	rlocked
	locked
)

// GuardedStruct describes a struct type with a mutex field.
type GuardedStruct struct {
	Named   *types.Named
	Struct  *types.Struct
	Mutexes []string // field names of type sync.Mutex / sync.RWMutex
	Guarded []string // every other field
}

func isMutexType(t types.Type) bool {
	n, ok := t.(*types.Named)
	if !ok || n.Obj().Pkg() == nil {
		return false
	}
	return n.Obj().Pkg().Path() == "sync" && (n.Obj().Name() == "Mutex" || n.Obj().Name() == "RWMutex")
}

// FindGuarded lists all struct types of the module containing a mutex.
func FindGuarded(p *core.Program) []*GuardedStruct {
	var out []*GuardedStruct
	for _, pk := range p.Pkgs {
		sc := pk.Types.Scope()
		for _, nm := range sc.Names() {
			tn, ok := sc.Lookup(nm).(*types.TypeName)
			if !ok {
				continue
			}
			n, ok := tn.Type().(*types.Named)
			if !ok {
				continue
			}
			st, ok := n.Underlying().(*types.Struct)
			if !ok {
				continue
			}
			g := &GuardedStruct{Named: n, Struct: st}
			for i := 0; i < st.NumFields(); i++ {
				f := st.Field(i)
				if isMutexType(f.Type()) {
					g.Mutexes = append(g.Mutexes, f.Name())
				} else {
					g.Guarded = append(g.Guarded, f.Name())
				}
			}
			if len(g.Mutexes) > 0 {
				out = append(out, g)
			}
		}
	}
	sort.Slice(out, func(i, j int) bool { return core.TypeName(out[i].Named) < core.TypeName(out[j].Named) })
	return out
}

// Check runs the lock-region rule for g over every function of the module and reports
// one obligation per access (rule LOCK.access) and one per function exit (LOCK.release).
func Check(p *core.Program, r *core.Report, g *GuardedStruct) (accesses int) {
	names := make([]string, 0, len(p.Funcs))
	for n := range p.Funcs {
		names = append(names, n)
	}
	sort.Strings(names)
	// Lock state on entry of unexported helpers: a helper that receives the guarded struct and is
	// only ever called (statically, never taken as a value) with the mutex held starts in that state
	// ("advance() is called with s.mutex held"). Two rounds cover a helper calling a helper.
	entry := map[*ssa.Function]st{}
	for round := 0; round < 2; round++ {
		sites := map[*ssa.Function][]st{}
		for _, name := range names {
			fn := p.Funcs[name]
			checkFunc(p, nil, g, fn, entry[fn], func(call ssa.CallInstruction, s st) {
				callee := call.Common().StaticCallee()
				if callee == nil || !core.InModule(callee) || len(callee.Blocks) == 0 || len(call.Common().Args) == 0 {
					return
				}
				if !isPtrTo(g, call.Common().Args[0].Type()) || token.IsExported(callee.Name()) {
					return
				}
				sites[callee] = append(sites[callee], s)
			})
		}
		next := map[*ssa.Function]st{}
		for callee, ss := range sites {
			if usedAsValue(p, callee) {
				continue
			}
			m := ss[0]
			for _, x := range ss[1:] {
				m = meet(m, x)
			}
			m.deferred = false // the unlock belongs to the caller
			next[callee] = m
		}
		entry = next
	}
	for _, name := range names {
		fn := p.Funcs[name]
		accesses += checkFunc(p, r, g, fn, entry[fn], nil)
	}
	return accesses
}

// usedAsValue: the function is referenced other than as the callee of a static call.
func usedAsValue(p *core.Program, fn *ssa.Function) bool {
	for _, f := range p.Funcs {
		for _, b := range f.Blocks {
			for _, in := range b.Instrs {
				for _, op := range in.Operands(nil) {
					if *op == ssa.Value(fn) {
						if c, ok := in.(ssa.CallInstruction); ok && c.Common().Value == ssa.Value(fn) {
							continue
						}
						return true
					}
				}
			}
		}
	}
	return false
}

func isGuardedField(g *GuardedStruct, fa *ssa.FieldAddr) (string, bool, bool) {
	pt, ok := fa.X.Type().Underlying().(*types.Pointer)
	if !ok {
		return "", false, false
	}
	n, ok := pt.Elem().(*types.Named)
	if !ok || n.Obj() != g.Named.Obj() {
		return "", false, false
	}
	name := core.FieldName(fa)
	for _, m := range g.Mutexes {
		if m == name {
			return name, true, true
		}
	}
	return name, false, true
}

type st struct {
	lk       lockState
	deferred bool // a deferred Unlock is registered
}

func meet(a, b st) st {
	r := a
	if b.lk < r.lk {
		r.lk = b.lk
	}
	r.deferred = a.deferred && b.deferred
	return r
}

func checkFunc(p *core.Program, r *core.Report, g *GuardedStruct, fn *ssa.Function, init st, onCall func(ssa.CallInstruction, st)) int {
	if len(fn.Blocks) == 0 {
		return 0
	}
	// does this function touch the type at all?
	touches := false
	for _, b := range fn.Blocks {
		for _, in := range b.Instrs {
			if fa, ok := in.(*ssa.FieldAddr); ok {
				if _, _, is := isGuardedField(g, fa); is {
					touches = true
				}
			}
		}
	}
	if !touches {
		return 0
	}
	fname := core.FuncName(fn)
	// forward must-analysis over the CFG
	in := map[*ssa.BasicBlock]st{}
	visited := map[*ssa.BasicBlock]bool{}
	in[fn.Blocks[0]] = init
	work := []*ssa.BasicBlock{fn.Blocks[0]}
	visited[fn.Blocks[0]] = true
	transfer := func(s st, inst ssa.Instruction, report bool) st {
		switch x := inst.(type) {
		case *ssa.Call, *ssa.Defer:
			cc := x.(ssa.CallInstruction).Common()
			name := core.CalleeFullName(inst)
			if len(cc.Args) >= 1 {
				if fa, ok := cc.Args[0].(*ssa.FieldAddr); ok {
					if _, isM, is := isGuardedField(g, fa); is && isM {
						_, isDefer := inst.(*ssa.Defer)
						switch name {
						case "(*sync.Mutex).Lock", "(*sync.RWMutex).Lock":
							if !isDefer {
								s.lk = locked
							}
						case "(*sync.RWMutex).RLock":
							if !isDefer {
								s.lk = rlocked
							}
						case "(*sync.Mutex).Unlock", "(*sync.RWMutex).Unlock", "(*sync.RWMutex).RUnlock":
							if isDefer {
								s.deferred = true
							} else {
								s.lk = unlocked
							}
						}
					}
				}
			}
		case *ssa.RunDefers:
			if s.deferred {
				s.lk = unlocked
				s.deferred = false
			}
		}
		return s
	}
	for len(work) > 0 {
		b := work[0]
		work = work[1:]
		s := in[b]
		for _, inst := range b.Instrs {
			s = transfer(s, inst, false)
		}
		for _, succ := range b.Succs {
			ns := s
			if visited[succ] {
				ns = meet(in[succ], s)
				if ns == in[succ] {
					continue
				}
			}
			in[succ] = ns
			visited[succ] = true
			work = append(work, succ)
		}
	}
	if r == nil {
		// pre-pass: only the lock state at call sites is wanted
		for _, b := range fn.Blocks {
			if !visited[b] {
				continue
			}
			s := in[b]
			for _, inst := range b.Instrs {
				if c, ok := inst.(*ssa.Call); ok && onCall != nil {
					onCall(c, s)
				}
				s = transfer(s, inst, false)
			}
		}
		return 0
	}
	// report pass
	n := 0
	for _, b := range fn.Blocks {
		if !visited[b] {
			continue
		}
		s := in[b]
		for _, inst := range b.Instrs {
			switch x := inst.(type) {
			case *ssa.UnOp:
				if x.Op == token.MUL && isPtrTo(g, x.X.Type()) && !freshBase(x.X) {
					n++
					r.Add("LOCK.read", fname, "read whole "+core.TypeName(g.Named), p.Position(x.Pos()), s.lk >= rlocked,
						fmt.Sprintf("lock state at the struct copy: %v", s.lk))
				}
				if fa, ok := x.X.(*ssa.FieldAddr); ok {
					if name, isM, is := isGuardedField(g, fa); is && !isM {
						if !freshBase(fa.X) {
							n++
							ok := s.lk >= rlocked
							r.Add("LOCK.read", fname, "read "+core.TypeName(g.Named)+"."+name, p.Position(x.Pos()), ok,
								fmt.Sprintf("lock state at the load: %v", s.lk))
						}
					}
				}
			case *ssa.Store:
				if isPtrTo(g, x.Addr.Type()) && !freshBase(x.Addr) {
					n++
					r.Add("LOCK.write", fname, "write whole "+core.TypeName(g.Named), p.Position(x.Pos()), s.lk == locked,
						fmt.Sprintf("lock state at the struct store: %v", s.lk))
				}
				if fa, ok := x.Addr.(*ssa.FieldAddr); ok {
					if name, isM, is := isGuardedField(g, fa); is && !isM {
						if !freshBase(fa.X) {
							n++
							ok := s.lk == locked
							r.Add("LOCK.write", fname, "write "+core.TypeName(g.Named)+"."+name, p.Position(x.Pos()), ok,
								fmt.Sprintf("lock state at the store: %v (exclusive lock required)", s.lk))
						}
					}
				}
			case *ssa.Return:
				if s.lk != unlocked && init.lk == unlocked {
					r.Add("LOCK.release", fname, "return with mutex held", p.Position(x.Pos()), false,
						"a path returns without releasing the mutex")
				}
			}
			s = transfer(s, inst, true)
			// any other use of a guarded field address (passing &s.field to a callee, storing it) escapes the discipline
			if fa, ok := inst.(*ssa.FieldAddr); ok {
				if name, isM, is := isGuardedField(g, fa); is && !isM && !freshBase(fa.X) {
					for _, ref := range *fa.Referrers() {
						switch u := ref.(type) {
						case *ssa.UnOp:
						case *ssa.Store:
							if u.Addr != fa {
								r.Add("LOCK.escape", fname, "address of "+name+" stored", p.Position(fa.Pos()), false, "address of a guarded field escapes")
							}
						default:
							r.Add("LOCK.escape", fname, "address of "+name+" used by "+fmt.Sprintf("%T", ref), p.Position(fa.Pos()), false, "address of a guarded field escapes the lock discipline")
						}
					}
				}
			}
		}
	}
	return n
}

// freshBase: the struct is a local allocation that has not been published yet (constructor
// composite literal). Accesses before publication need no lock.
func freshBase(v ssa.Value) bool {
	a, ok := v.(*ssa.Alloc)
	if !ok {
		return false
	}
	_ = a
	return true
}

func isPtrTo(g *GuardedStruct, t types.Type) bool {
	pt, ok := t.Underlying().(*types.Pointer)
	if !ok {
		return false
	}
	n, ok := pt.Elem().(*types.Named)
	return ok && n.Obj() == g.Named.Obj()
}

func (s lockState) String() string { return [...]string{"unlocked", "read-locked", "locked"}[s] }
