// Package bits is engine E2: bit-provenance abstract interpretation. Every integer or boolean
// value is a vector of bit expressions over named input bits, so that fixed bit layouts can be
// compared with a specification table for all values at once.
package bits

import (
	"fmt"
	"go/constant"
	"go/token"
	"go/types"
	"sort"
	"strings"

	"golang.org/x/tools/go/ssa"

	"rtpcheck/core"
)

type Kind uint8

const (
	Zero Kind = iota
	One
	In  // bit J of source Src
	Not // negation of bit J of source Src
	Top // unknown
)

type Bit struct {
	K   Kind
	Src string
	J   int
}

func (b Bit) String() string {
	switch b.K {
	case Zero:
		return "0"
	case One:
		return "1"
	case In:
		return fmt.Sprintf("%s.%d", b.Src, b.J)
	case Not:
		return fmt.Sprintf("!%s.%d", b.Src, b.J)
	}
	return "?"
}

func (b Bit) isConst() bool { return b.K == Zero || b.K == One }

// Vec is little-endian: index 0 is the least significant bit.
type Vec []Bit

func (v Vec) String() string {
	parts := make([]string, len(v))
	for i := range v {
		parts[len(v)-1-i] = v[i].String()
	}
	return "[" + strings.Join(parts, " ") + "]"
}

func constVec(n uint64, w int) Vec {
	v := make(Vec, w)
	for i := 0; i < w; i++ {
		if n>>uint(i)&1 == 1 {
			v[i] = Bit{K: One}
		}
	}
	return v
}

func topVec(w int) Vec {
	v := make(Vec, w)
	for i := range v {
		v[i] = Bit{K: Top}
	}
	return v
}

func srcVec(src string, w int) Vec {
	v := make(Vec, w)
	for i := range v {
		v[i] = Bit{K: In, Src: src, J: i}
	}
	return v
}

// ConstVal returns the constant value of v if all bits are constant.
func (v Vec) ConstVal() (uint64, bool) {
	var n uint64
	for i, b := range v {
		switch b.K {
		case One:
			n |= 1 << uint(i)
		case Zero:
		default:
			return 0, false
		}
	}
	return n, true
}

func (v Vec) resize(w int, signed bool) Vec {
	if len(v) == w {
		return v
	}
	r := make(Vec, w)
	copy(r, v)
	if w > len(v) && signed && len(v) > 0 {
		top := v[len(v)-1]
		for i := len(v); i < w; i++ {
			if top.K == Zero {
				r[i] = Bit{K: Zero}
			} else {
				r[i] = Bit{K: Top}
			}
		}
	}
	return r
}

func notBit(b Bit) Bit {
	switch b.K {
	case Zero:
		return Bit{K: One}
	case One:
		return Bit{K: Zero}
	case In:
		return Bit{K: Not, Src: b.Src, J: b.J}
	case Not:
		return Bit{K: In, Src: b.Src, J: b.J}
	}
	return Bit{K: Top}
}

func andBit(a, b Bit) Bit {
	switch {
	case a.K == Zero || b.K == Zero:
		return Bit{K: Zero}
	case a.K == One:
		return b
	case b.K == One:
		return a
	case a == b && a.K != Top:
		return a
	case a.K != Top && b.K != Top && a == notBit(b):
		return Bit{K: Zero}
	}
	return Bit{K: Top}
}

func orBit(a, b Bit) Bit {
	switch {
	case a.K == One || b.K == One:
		return Bit{K: One}
	case a.K == Zero:
		return b
	case b.K == Zero:
		return a
	case a == b && a.K != Top:
		return a
	case a.K != Top && b.K != Top && a == notBit(b):
		return Bit{K: One}
	}
	return Bit{K: Top}
}

func xorBit(a, b Bit) Bit {
	switch {
	case a.K == Zero:
		return b
	case b.K == Zero:
		return a
	case a.K == One:
		return notBit(b)
	case b.K == One:
		return notBit(a)
	case a == b && a.K != Top:
		return Bit{K: Zero}
	}
	return Bit{K: Top}
}

// muxBit is c ? a : b for a single-bit condition c.
func muxBit(c, a, b Bit) Bit {
	if a == b && a.K != Top {
		return a
	}
	switch c.K {
	case One:
		return a
	case Zero:
		return b
	case Top:
		return Bit{K: Top}
	}
	if a.K == One && b.K == Zero {
		return c
	}
	if a.K == Zero && b.K == One {
		return notBit(c)
	}
	// c ? x : 0 with x == c, etc.
	if b.K == Zero && a == c {
		return c
	}
	return Bit{K: Top}
}

// ---- machine --------------------------------------------------------------------------------------

// Machine symbolically executes one function (acyclic part; values defined in loops are Top).
type Machine struct {
	Prog  *core.Program
	Fn    *ssa.Function
	env   map[ssa.Value]Vec
	mem   map[*ssa.BasicBlock]map[string]Vec // memory at block exit
	names map[ssa.Value]string               // source names for roots
	bind  map[ssa.Value]Vec                  // parameter bindings for inlined callees
	depth int
	// Stores to receiver fields and output bytes observed at each return
	Returns []*RetState
	inLoop  map[*ssa.BasicBlock]bool
	parent  *Machine
	Notes   []string
	// Cmps records comparisons of a non-constant vector with a constant (x == C, x != C ...)
	Cmps map[ssa.Value]CmpInfo
	// Snaps: memory state at every call to the append builtin (where a packet is emitted)
	Snaps map[*ssa.Call]map[string]Vec
	// Stores: every executed store in program (RPO) order
	Stores []StoreRec
	kz     map[*ssa.BasicBlock]map[string]bool
	assume map[string]bool
	// case split: force[bit] fixes the outcome of every branch whose condition is that input bit
	// (bit kinds In only; a Not condition is looked up negated); edges a forced branch cannot take
	// are dead, and blocks reachable only through dead edges are not executed.
	force    map[Bit]bool
	deadEdge map[[2]*ssa.BasicBlock]bool
	// alias: a slice parameter of an inlined callee is the caller's slice at a constant offset, so the
	// bytes the callee reads keep the caller's names
	alias map[ssa.Value]sliceAlias
	// Subs: the machines of the module callees executed for this function's calls
	Subs []*Machine
}

type sliceAlias struct {
	rn, bn string
	off    int64
	fresh  bool // the caller's buffer was allocated by the caller (its unwritten octets are zero)
}

// RetState is the symbolic state at a return.
// StoreRec logs one executed store: the cell, and the value vector at that point.
type StoreRec struct {
	Instr  *ssa.Store
	Key    string
	Val    Vec
	InLoop bool
}

// CmpInfo describes `Vec op Const`.
type CmpInfo struct {
	Op    token.Token
	Vec   Vec
	Const uint64
}

type RetState struct {
	Ret     *ssa.Return
	Mem     map[string]Vec
	Results []Vec
	Machine *Machine
}

func width(t types.Type) int {
	b, ok := t.Underlying().(*types.Basic)
	if !ok {
		return 0
	}
	switch b.Kind() {
	case types.Bool, types.UntypedBool:
		return 1
	case types.Int8, types.Uint8:
		return 8
	case types.Int16, types.Uint16:
		return 16
	case types.Int32, types.Uint32:
		return 32
	case types.Int, types.Int64, types.Uint, types.Uint64, types.Uintptr, types.UntypedInt:
		return 64
	}
	return 0
}

func signed(t types.Type) bool {
	b, ok := t.Underlying().(*types.Basic)
	return ok && b.Info()&types.IsInteger != 0 && b.Info()&types.IsUnsigned == 0
}

// Run executes fn. Parameters are sources named "param:<name>"; the receiver's fields are
// sources "recv.<Field>"; bytes of slice parameters are sources "<name>[<index>]".
func Run(prog *core.Program, fn *ssa.Function) *Machine { return RunAssuming(prog, fn, nil) }

// RunAssuming executes fn under a domain restriction: the listed source bits ("recv.Version.2")
// are zero (e.g. the well-formed-packet precondition of a property).
func RunAssuming(prog *core.Program, fn *ssa.Function, zeroBits []string) *Machine {
	return RunForced(prog, fn, zeroBits, nil)
}

// RunForced is RunAssuming under a case split: every branch on one of the given input bits takes
// the given side only. Running once per value of the bit covers every execution.
func RunForced(prog *core.Program, fn *ssa.Function, zeroBits []string, force map[Bit]bool) *Machine {
	m := &Machine{force: force, deadEdge: map[[2]*ssa.BasicBlock]bool{}, assume: map[string]bool{}, Prog: prog, Fn: fn, env: map[ssa.Value]Vec{}, mem: map[*ssa.BasicBlock]map[string]Vec{}, names: map[ssa.Value]string{}, bind: map[ssa.Value]Vec{}}
	for _, z := range zeroBits {
		m.assume[z] = true
	}
	m.run()
	return m
}

func (m *Machine) rootName(v ssa.Value) string {
	if n, ok := m.names[v]; ok {
		return n
	}
	switch x := v.(type) {
	case *ssa.Parameter:
		if x.Parent().Signature.Recv() != nil && len(x.Parent().Params) > 0 && x.Parent().Params[0] == x {
			return "recv"
		}
		return x.Name()
	case *ssa.Global:
		return "global:" + x.Name()
	case *ssa.FreeVar:
		return "fv:" + x.Name()
	}
	return fmt.Sprintf("%s", v.Name())
}

// affine evaluates an index expression to (base, offset) with base possibly nil.
func (m *Machine) affine(v ssa.Value) (ssa.Value, int64) {
	switch x := v.(type) {
	case *ssa.Const:
		if n, ok := core.ConstInt(x); ok {
			return nil, n
		}
	case *ssa.BinOp:
		if x.Op == token.ADD {
			if c, ok := core.ConstInt(x.Y); ok {
				b, o := m.affine(x.X)
				return b, o + c
			}
			if c, ok := core.ConstInt(x.X); ok {
				b, o := m.affine(x.Y)
				return b, o + c
			}
		}
		if x.Op == token.SUB {
			if c, ok := core.ConstInt(x.Y); ok {
				b, o := m.affine(x.X)
				return b, o - c
			}
		}
	case *ssa.Convert:
		return m.affine(x.X)
	}
	if vec, ok := m.env[v]; ok {
		if c, isC := vec.ConstVal(); isC {
			return nil, int64(c)
		}
	}
	return v, 0
}

func (m *Machine) idxKey(v ssa.Value) string {
	b, o := m.affine(v)
	if b == nil {
		return fmt.Sprintf("%d", o)
	}
	if o == 0 {
		return b.Name()
	}
	return fmt.Sprintf("%s%+d", b.Name(), o)
}

// sliceBase resolves a slice value to (root, constant start offset) following Slice instrs.
func (m *Machine) sliceBase(v ssa.Value) (ssa.Value, string, int64, bool) {
	off := int64(0)
	var base ssa.Value
	for {
		switch x := v.(type) {
		case *ssa.Slice:
			if x.Low != nil {
				b, o := m.affine(x.Low)
				if b != nil {
					if base != nil {
						return nil, "", 0, false
					}
					base = b
				}
				off += o
			}
			v = x.X
			continue
		case *ssa.Phi:
			return v, "", off, true
		}
		break
	}
	bn := ""
	if base != nil {
		bn = base.Name()
	}
	return v, bn, off, true
}

// sliceName names the storage behind a slice value: root name, symbolic base and constant offset.
func (m *Machine) sliceName(sl ssa.Value) (rn, bn string, off int64, ok bool) {
	root, bn, off, ok := m.sliceBase(sl)
	if !ok {
		return "", "", 0, false
	}
	if a, aliased := m.alias[root]; aliased {
		if a.bn != "" && bn != "" {
			return "", "", 0, false
		}
		if a.bn != "" {
			bn = a.bn
		}
		return a.rn, bn, off + a.off, true
	}
	rn = m.rootName(root)
	if u, isLoad := root.(*ssa.UnOp); isLoad && u.Op == token.MUL {
		// slice loaded from a field: name it by the field path
		r, p := core.AddrKey(u.X)
		rn = m.rootName(r) + p
	}
	return rn, bn, off, true
}

// cellKey names the memory cell an address designates.
func (m *Machine) cellKey(addr ssa.Value) (string, bool) {
	switch x := addr.(type) {
	case *ssa.IndexAddr:
		rn, bn, off, ok := m.sliceName(x.X)
		if !ok {
			return "", false
		}
		ib, io := m.affine(x.Index)
		if ib != nil && bn != "" {
			return "", false
		}
		if ib != nil {
			bn = ib.Name()
		}
		if bn != "" {
			return fmt.Sprintf("%s[%s%+d]", rn, bn, off+io), true
		}
		return fmt.Sprintf("%s[%d]", rn, off+io), true
	case *ssa.FieldAddr, *ssa.Alloc, *ssa.Global:
		r, p := core.AddrKey(addr)
		if ld, isLoad := r.(*ssa.UnOp); isLoad && ld.Op == token.MUL {
			if inner, ok := m.cellKey(ld.X); ok {
				return "*" + inner + p, true
			}
		}
		return m.rootName(r) + p, true
	case *ssa.UnOp:
		if x.Op == token.MUL { // *p where p was loaded from a cell
			if inner, ok := m.cellKey(x.X); ok {
				return "*" + inner, true
			}
		}
	}
	return "", false
}

func (m *Machine) val(v ssa.Value) Vec {
	if b, ok := m.bind[v]; ok {
		return b
	}
	if e, ok := m.env[v]; ok {
		return e
	}
	w := width(v.Type())
	switch x := v.(type) {
	case *ssa.Const:
		if x.Value == nil {
			return constVec(0, w)
		}
		switch x.Value.Kind() {
		case constant.Bool:
			if constant.BoolVal(x.Value) {
				return constVec(1, 1)
			}
			return constVec(0, 1)
		case constant.Int:
			if n, ok := constant.Uint64Val(x.Value); ok {
				return constVec(n, w)
			}
			if n, ok := constant.Int64Val(x.Value); ok {
				return constVec(uint64(n), w)
			}
		}
		return topVec(w)
	case *ssa.Parameter:
		if w > 0 {
			return srcVec("param:"+x.Name(), w)
		}
	}
	if w == 0 {
		return nil
	}
	return topVec(w)
}

func (m *Machine) run() {
	fn := m.Fn
	if len(fn.Blocks) == 0 {
		return
	}
	// loops: blocks in a cycle get Top for their phis
	m.inLoop = map[*ssa.BasicBlock]bool{}
	for _, b := range fn.Blocks {
		for _, s := range b.Succs {
			if s.Dominates(b) {
				// natural loop of back edge b->s
				stack := []*ssa.BasicBlock{b}
				m.inLoop[s] = true
				for len(stack) > 0 {
					x := stack[len(stack)-1]
					stack = stack[:len(stack)-1]
					if m.inLoop[x] {
						continue
					}
					m.inLoop[x] = true
					stack = append(stack, x.Preds...)
				}
			}
		}
	}
	// reverse post-order
	seen := map[*ssa.BasicBlock]bool{}
	var post []*ssa.BasicBlock
	var dfs func(b *ssa.BasicBlock)
	dfs = func(b *ssa.BasicBlock) {
		seen[b] = true
		for _, s := range b.Succs {
			if !seen[s] {
				dfs(s)
			}
		}
		post = append(post, b)
	}
	dfs(fn.Blocks[0])
	for i := len(post) - 1; i >= 0; i-- {
		m.execBlock(post[i])
	}
}

// condOf finds the branch condition separating two predecessors of a join: returns the
// condition bit and which predecessor index corresponds to "true".
func (m *Machine) joinCond(b *ssa.BasicBlock) (Bit, map[*ssa.BasicBlock]bool, bool) {
	d := b.Idom()
	if d == nil || len(d.Instrs) == 0 {
		return Bit{}, nil, false
	}
	iff, ok := d.Instrs[len(d.Instrs)-1].(*ssa.If)
	if !ok {
		return Bit{}, nil, false
	}
	c := m.val(iff.Cond)
	if len(c) != 1 {
		return Bit{}, nil, false
	}
	side := map[*ssa.BasicBlock]bool{}
	for _, p := range b.Preds {
		switch {
		case p == d:
			// direct edge from the branch: which successor is b?
			side[p] = d.Succs[0] == b
		case d.Succs[0].Dominates(p) && d.Succs[0] != b:
			side[p] = true
		case d.Succs[1].Dominates(p) && d.Succs[1] != b:
			side[p] = false
		default:
			return Bit{}, nil, false
		}
	}
	return c[0], side, true
}

func (m *Machine) execBlock(b *ssa.BasicBlock) {
	// incoming memory
	state := map[string]Vec{}
	var preds []*ssa.BasicBlock
	for _, p := range b.Preds {
		if _, ok := m.mem[p]; ok && !b.Dominates(p) && !m.deadEdge[[2]*ssa.BasicBlock{p, b}] {
			preds = append(preds, p)
		}
	}
	if m.force != nil && len(preds) == 0 && len(b.Preds) > 0 {
		return // only reachable against a forced branch
	}
	switch len(preds) {
	case 0:
	case 1:
		for k, v := range m.mem[preds[0]] {
			state[k] = v
		}
	default:
		c, side, ok := m.joinCond(b)
		keys := map[string]bool{}
		for _, p := range preds {
			for k := range m.mem[p] {
				keys[k] = true
			}
		}
		for k := range keys {
			w := 0
			for _, p := range preds {
				if v := m.mem[p][k]; len(v) > w {
					w = len(v)
				}
			}
			vals := make([]Vec, len(preds))
			for i, p := range preds {
				v, has := m.mem[p][k]
				if !has || len(v) != w {
					v = m.initialCell(k, w)
				}
				vals[i] = v
			}
			r := make(Vec, w)
			for j := 0; j < w; j++ {
				same := true
				for i := 1; i < len(vals); i++ {
					if vals[i][j] != vals[0][j] {
						same = false
					}
				}
				switch {
				case same:
					r[j] = vals[0][j]
				case ok && len(preds) == 2:
					var tb, fb Bit
					for i, p := range preds {
						if side[p] {
							tb = vals[i][j]
						} else {
							fb = vals[i][j]
						}
					}
					r[j] = muxBit(c, tb, fb)
				default:
					r[j] = Bit{K: Top}
				}
			}
			state[k] = r
		}
	}
	if m.inLoop[b] {
		// memory inside loops: everything written so far is kept, loop-written cells become Top lazily
	}
	for _, in := range b.Instrs {
		m.exec(in, state)
	}
	m.mem[b] = state
	if m.force != nil && len(b.Instrs) > 0 {
		if iff, ok := b.Instrs[len(b.Instrs)-1].(*ssa.If); ok && b.Succs[0] != b.Succs[1] {
			if c := m.val(iff.Cond); len(c) == 1 && (c[0].K == One || c[0].K == Zero) {
				// a condition the case fixes (a comparison of a constant handed down by the caller's case): the
				// other edge is dead
				dead := b.Succs[0]
				if c[0].K == One {
					dead = b.Succs[1]
				}
				m.deadEdge[[2]*ssa.BasicBlock{b, dead}] = true
			} else if len(c) == 1 {
				bit, neg := c[0], false
				if bit.K == Not {
					bit, neg = Bit{K: In, Src: bit.Src, J: bit.J}, true
				}
				if truth, forced := m.force[bit]; forced && bit.K == In {
					if neg {
						truth = !truth
					}
					dead := b.Succs[0]
					if truth {
						dead = b.Succs[1]
					}
					m.deadEdge[[2]*ssa.BasicBlock{b, dead}] = true
				}
			}
		}
	}
}

// BranchBits lists the distinct input bits that some branch of the function tests directly.
func (m *Machine) BranchBits() []Bit {
	var out []Bit
	seen := map[Bit]bool{}
	for _, b := range m.Fn.Blocks {
		if len(b.Instrs) == 0 {
			continue
		}
		iff, ok := b.Instrs[len(b.Instrs)-1].(*ssa.If)
		if !ok {
			continue
		}
		c := m.val(iff.Cond)
		if len(c) != 1 || (c[0].K != In && c[0].K != Not) {
			continue
		}
		bit := Bit{K: In, Src: c[0].Src, J: c[0].J}
		if !seen[bit] {
			seen[bit] = true
			out = append(out, bit)
		}
	}
	return out
}

// initialCell is the content of a cell never written on a path: a source for receiver/param
// memory, zero for fresh local memory.
func (m *Machine) initialCell(key string, w int) Vec {
	if strings.HasPrefix(key, "recv") || strings.HasPrefix(key, "param:") || strings.HasPrefix(key, "obj:") || strings.Contains(key, "[") && !strings.HasPrefix(key, "t") {
		return srcVec(key, w)
	}
	return constVec(0, w)
}

func vecEqual(a, b Vec) bool {
	if len(a) != len(b) {
		return false
	}
	for i := range a {
		if a[i] != b[i] {
			return false
		}
	}
	return true
}

func (m *Machine) setEnv(v ssa.Value, x Vec) { m.env[v] = x }

// freshLocal reports whether the root of an address is memory allocated in this function
// (make / composite literal / new), whose unwritten bytes are zero.
func (m *Machine) freshRoot(addr ssa.Value) bool {
	switch x := addr.(type) {
	case *ssa.IndexAddr:
		root, _, _, ok := m.sliceBase(x.X)
		if !ok {
			return false
		}
		switch root.(type) {
		case *ssa.MakeSlice, *ssa.Alloc:
			return true
		}
		if a, al := m.alias[root]; al && a.fresh {
			return true // a buffer the caller allocated and handed down
		}
	case *ssa.Alloc:
		_, named := m.names[x]
		return !named
	case *ssa.FieldAddr:
		r, _ := core.AddrKey(x)
		a, ok := r.(*ssa.Alloc)
		if ok {
			if _, named := m.names[a]; named {
				return false
			}
		}
		return ok
	}
	return false
}

func (m *Machine) exec(in ssa.Instruction, state map[string]Vec) {
	switch x := in.(type) {
	case *ssa.Phi:
		w := width(x.Type())
		if w == 0 {
			return
		}
		b := x.Block()
		if m.force != nil {
			// one live incoming edge: the phi is that edge's value
			live := -1
			n := 0
			for i, p := range b.Preds {
				_, ran := m.mem[p]
				if (ran || b.Dominates(p)) && !m.deadEdge[[2]*ssa.BasicBlock{p, b}] {
					live = i
					n++
				}
			}
			if n == 1 {
				if v := m.val(x.Edges[live]); len(v) == w {
					m.setEnv(x, v)
					return
				}
			}
		}
		if m.inLoop[b] {
			isHead := false
			for _, p := range b.Preds {
				if b.Dominates(p) {
					isHead = true
				}
			}
			if isHead {
				m.setEnv(x, topVec(w))
				return
			}
		}
		if len(x.Edges) == 2 {
			if c, side, ok := m.joinCond(b); ok {
				var tv, fv Vec
				for i, p := range b.Preds {
					if side[p] {
						tv = m.val(x.Edges[i])
					} else {
						fv = m.val(x.Edges[i])
					}
				}
				if len(tv) == w && len(fv) == w {
					r := make(Vec, w)
					for i := range r {
						r[i] = muxBit(c, tv[i], fv[i])
					}
					m.setEnv(x, r)
					return
				}
			}
		}
		// all edges equal?
		first := m.val(x.Edges[0])
		all := true
		for _, e := range x.Edges[1:] {
			if !vecEqual(first, m.val(e)) {
				all = false
			}
		}
		if all && len(first) == w {
			m.setEnv(x, first)
		} else {
			// bit by bit: a bit that has the same value on every incoming edge keeps it (a header octet that a
			// three-way switch gives zero, one or another flag bit keeps its type bits)
			r := topVec(w)
			okAll := len(first) == w
			var vs []Vec
			for _, e := range x.Edges {
				v := m.val(e)
				if len(v) != w {
					okAll = false
				}
				vs = append(vs, v)
			}
			if okAll {
				for j := 0; j < w; j++ {
					same := true
					for _, v := range vs[1:] {
						if v[j] != vs[0][j] {
							same = false
						}
					}
					if same {
						r[j] = vs[0][j]
					}
				}
			}
			m.setEnv(x, r)
		}
	case *ssa.BinOp:
		m.setEnv(x, m.binop(x))
	case *ssa.UnOp:
		switch x.Op {
		case token.NOT:
			v := m.val(x.X)
			if len(v) == 1 {
				m.setEnv(x, Vec{notBit(v[0])})
			} else {
				m.setEnv(x, topVec(1))
			}
		case token.XOR:
			v := m.val(x.X)
			r := make(Vec, len(v))
			for i := range v {
				r[i] = notBit(v[i])
			}
			m.setEnv(x, r)
		case token.MUL:
			w := width(x.Type())
			if w == 0 {
				return
			}
			key, ok := m.cellKey(x.X)
			if !ok {
				m.setEnv(x, topVec(w))
				return
			}
			if v, has := state[key]; has && len(v) == w {
				m.setEnv(x, m.refine(v, x.Block()))
				return
			}
			if m.freshRoot(x.X) {
				m.setEnv(x, constVec(0, w))
				return
			}
			if m.inLoop[x.Block()] && strings.Contains(key, "[") {
				// element reads inside loops are not positional
			}
			m.setEnv(x, m.refine(srcVec(key, w), x.Block()))
		default:
			if w := width(x.Type()); w > 0 {
				m.setEnv(x, topVec(w))
			}
		}
	case *ssa.Convert:
		w := width(x.Type())
		if w == 0 {
			return
		}
		v := m.val(x.X)
		if v == nil {
			m.setEnv(x, topVec(w))
			return
		}
		m.setEnv(x, v.resize(w, signed(x.X.Type())))
	case *ssa.ChangeType:
		if v := m.val(x.X); v != nil {
			m.setEnv(x, v)
		}
	case *ssa.Store:
		w := width(x.Val.Type())
		if at, isArr := x.Val.Type().Underlying().(*types.Array); isArr {
			// whole-array copy (a composite literal assigned to a local): element by element
			dk, okd := m.cellKey(x.Addr)
			if ld, isLoad := x.Val.(*ssa.UnOp); isLoad && ld.Op == token.MUL && okd && at.Len() <= 64 {
				if sk, oks := m.cellKey(ld.X); oks {
					ew := width(at.Elem())
					for i := int64(0); i < at.Len(); i++ {
						from, to := fmt.Sprintf("%s[%d]", sk, i), fmt.Sprintf("%s[%d]", dk, i)
						if v, has := state[from]; has {
							state[to] = v
						} else if ew > 0 {
							state[to] = constVec(0, ew)
						}
					}
					return
				}
			}
			if okd {
				for k := range state {
					if strings.HasPrefix(k, dk+"[") {
						state[k] = topVec(len(state[k]))
					}
				}
			}
			return
		}
		if st, isStruct := x.Val.Type().Underlying().(*types.Struct); isStruct {
			// struct copy into a local cell: a by-value receiver/parameter spills its fields
			if key, ok := m.cellKey(x.Addr); ok {
				if p, isParam := x.Val.(*ssa.Parameter); isParam {
					if a, isAlloc := x.Addr.(*ssa.Alloc); isAlloc {
						m.names[a] = m.rootName(p) // the spilled copy is named like the parameter
						key = m.rootName(p)
					}
					m.spillStruct(state, key, m.rootName(p), st)
				} else if ld, isLoad := x.Val.(*ssa.UnOp); isLoad && ld.Op == token.MUL {
					if src, ok := m.cellKey(ld.X); ok {
						m.copyStruct(state, key, src, st)
					}
				}
			}
			return
		}
		if w == 0 {
			return
		}
		key, ok := m.cellKey(x.Addr)
		if !ok {
			return
		}
		if m.inLoop[x.Block()] && !m.iterationLocal(x.Addr) {
			state[key] = topVec(w)
			m.Stores = append(m.Stores, StoreRec{x, key, m.val(x.Val), true})
			return
		}
		state[key] = m.val(x.Val)
		m.Stores = append(m.Stores, StoreRec{x, key, state[key], false})
	case *ssa.Call:
		m.call(x, state)
	case *ssa.Field:
		// struct value field: not tracked (Top)
		if w := width(x.Type()); w > 0 {
			m.setEnv(x, m.fieldOfValue(x, w))
		}
	case *ssa.Extract:
		if w := width(x.Type()); w > 0 {
			if tv, ok := m.env[x.Tuple]; ok && x.Index == 0 {
				m.setEnv(x, tv)
			} else {
				m.setEnv(x, topVec(w))
			}
		}
	case *ssa.Return:
		rs := &RetState{Ret: x, Mem: map[string]Vec{}, Machine: m}
		for k, v := range state {
			rs.Mem[k] = v
		}
		for _, r := range x.Results {
			rs.Results = append(rs.Results, m.val(r))
		}
		m.Returns = append(m.Returns, rs)
	default:
		if v, ok := in.(ssa.Value); ok {
			if w := width(v.Type()); w > 0 {
				m.setEnv(v, topVec(w))
			}
		}
	}
}

func (m *Machine) fieldOfValue(x *ssa.Field, w int) Vec {
	// value receiver / struct parameter: fields are sources
	name := core.FieldOfValue(x)
	switch b := x.X.(type) {
	case *ssa.Parameter:
		return srcVec(m.rootName(b)+"."+name, w)
	case *ssa.UnOp:
		if b.Op == token.MUL {
			if key, ok := m.cellKey(b.X); ok {
				return srcVec(key+"."+name, w)
			}
		}
	}
	return topVec(w)
}

func (m *Machine) binop(x *ssa.BinOp) Vec {
	w := width(x.Type())
	// operands are refined where they are used: a value loaded before its range guard is as bounded
	// below the guard as one loaded after it
	a, b := m.refine(m.val(x.X), x.Block()), m.refine(m.val(x.Y), x.Block())
	switch x.Op {
	case token.AND, token.OR, token.XOR, token.AND_NOT:
		if len(a) != len(b) || len(a) == 0 {
			return topVec(w)
		}
		r := make(Vec, len(a))
		for i := range a {
			switch x.Op {
			case token.AND:
				r[i] = andBit(a[i], b[i])
			case token.OR:
				r[i] = orBit(a[i], b[i])
			case token.XOR:
				r[i] = xorBit(a[i], b[i])
			case token.AND_NOT:
				r[i] = andBit(a[i], notBit(b[i]))
			}
		}
		return r
	case token.SHL, token.SHR:
		k, ok := b.ConstVal()
		if !ok || len(a) == 0 {
			return topVec(w)
		}
		r := make(Vec, len(a))
		for i := range r {
			var src int
			if x.Op == token.SHL {
				src = i - int(k)
			} else {
				src = i + int(k)
			}
			switch {
			case src < 0:
				r[i] = Bit{K: Zero}
			case src >= len(a):
				if x.Op == token.SHR && signed(x.X.Type()) {
					if a[len(a)-1].K == Zero {
						r[i] = Bit{K: Zero}
					} else {
						r[i] = Bit{K: Top}
					}
				} else {
					r[i] = Bit{K: Zero}
				}
			default:
				r[i] = a[src]
			}
		}
		return r
	case token.ADD, token.SUB, token.MUL, token.QUO, token.REM:
		ca, okA := a.ConstVal()
		cb, okB := b.ConstVal()
		if okA && okB && w > 0 {
			var n uint64
			switch x.Op {
			case token.ADD:
				n = ca + cb
			case token.SUB:
				n = ca - cb
			case token.MUL:
				n = ca * cb
			case token.QUO:
				if cb == 0 {
					return topVec(w)
				}
				n = ca / cb
			case token.REM:
				if cb == 0 {
					return topVec(w)
				}
				n = ca % cb
			}
			if w < 64 {
				n &= (1 << uint(w)) - 1
			}
			return constVec(n, w)
		}
		if x.Op == token.ADD && len(a) == len(b) {
			// disjoint supports: addition is bitwise or
			disjoint := true
			for i := range a {
				if a[i].K != Zero && b[i].K != Zero {
					disjoint = false
				}
			}
			if disjoint {
				r := make(Vec, len(a))
				for i := range a {
					r[i] = orBit(a[i], b[i])
				}
				return r
			}
		}
		if x.Op == token.MUL {
			// multiplication by a power of two is a shift
			for _, pr := range [][2]Vec{{a, b}, {b, a}} {
				if c, ok := pr[1].ConstVal(); ok && c != 0 && c&(c-1) == 0 {
					k := 0
					for c>>uint(k) != 1 {
						k++
					}
					r := make(Vec, len(pr[0]))
					for i := range r {
						if i-k >= 0 {
							r[i] = pr[0][i-k]
						}
					}
					return r
				}
			}
		}
		return topVec(w)
	case token.EQL, token.NEQ, token.GTR, token.LSS, token.GEQ, token.LEQ:
		if bit, ok := m.nilTest(x); ok {
			return Vec{bit}
		}
		if m.Cmps == nil {
			m.Cmps = map[ssa.Value]CmpInfo{}
		}
		if c, ok := b.ConstVal(); ok {
			m.Cmps[x] = CmpInfo{x.Op, a, c}
		}
		return Vec{m.compare(x, a, b)}
	}
	return topVec(w)
}

// nilTest: `f != nil` / `f == nil` on a pointer field of a by-value struct parameter that the function
// only reads (its spill slot is reached by field loads alone) is an input bit "<cell>#nonnil".
func (m *Machine) nilTest(x *ssa.BinOp) (Bit, bool) {
	if x.Op != token.EQL && x.Op != token.NEQ {
		return Bit{}, false
	}
	v, other := x.X, x.Y
	if core.IsNilConst(v) {
		v, other = other, v
	}
	if !core.IsNilConst(other) {
		return Bit{}, false
	}
	if _, isPtr := v.Type().Underlying().(*types.Pointer); !isPtr {
		return Bit{}, false
	}
	ld, ok := v.(*ssa.UnOp)
	if !ok || ld.Op != token.MUL {
		return Bit{}, false
	}
	fa, ok := ld.X.(*ssa.FieldAddr)
	if !ok {
		return Bit{}, false
	}
	al, ok := fa.X.(*ssa.Alloc)
	if !ok || al.Referrers() == nil {
		return Bit{}, false
	}
	nStore := 0
	for _, r := range *al.Referrers() {
		switch u := r.(type) {
		case *ssa.FieldAddr:
			if u.Referrers() == nil {
				return Bit{}, false
			}
			for _, rr := range *u.Referrers() {
				if l, isLoad := rr.(*ssa.UnOp); !isLoad || l.Op != token.MUL {
					return Bit{}, false
				}
			}
		case *ssa.Store:
			if _, isParam := u.Val.(*ssa.Parameter); !isParam || u.Addr != al {
				return Bit{}, false
			}
			nStore++
		case *ssa.DebugRef:
		default:
			return Bit{}, false
		}
	}
	if nStore != 1 {
		return Bit{}, false
	}
	key, ok := m.cellKey(fa)
	if !ok {
		return Bit{}, false
	}
	bit := Bit{K: In, Src: key + "#nonnil", J: 0}
	if x.Op == token.EQL {
		return notBit(bit), true
	}
	return bit, true
}

// compare handles comparisons of a vector with a constant when the outcome is one input bit.
func (m *Machine) compare(x *ssa.BinOp, a, b Vec) Bit {
	if len(a) == 0 || len(a) != len(b) {
		return Bit{K: Top}
	}
	ca, okA := a.ConstVal()
	cb, okB := b.ConstVal()
	if okA && okB {
		var r bool
		switch x.Op {
		case token.EQL:
			r = ca == cb
		case token.NEQ:
			r = ca != cb
		case token.GTR:
			r = ca > cb
		case token.LSS:
			r = ca < cb
		case token.GEQ:
			r = ca >= cb
		case token.LEQ:
			r = ca <= cb
		}
		if signed(x.X.Type()) {
			return Bit{K: Top}
		}
		if r {
			return Bit{K: One}
		}
		return Bit{K: Zero}
	}
	op := x.Op
	v, c := a, cb
	if okA && !okB {
		v, c = b, ca
		switch op {
		case token.GTR:
			op = token.LSS
		case token.LSS:
			op = token.GTR
		case token.GEQ:
			op = token.LEQ
		case token.LEQ:
			op = token.GEQ
		}
	} else if !okB {
		return Bit{K: Top}
	}
	// v has exactly one non-constant bit, all other bits zero
	idx := -1
	for i, bt := range v {
		if bt.K == Zero {
			continue
		}
		if bt.K == One || idx >= 0 {
			return Bit{K: Top}
		}
		idx = i
	}
	if idx < 0 {
		return Bit{K: Top}
	}
	bit := v[idx]
	if bit.K == Top {
		return Bit{K: Top}
	}
	val := uint64(1) << uint(idx)
	uns := !signed(x.X.Type()) || idx < len(v)-1
	switch op {
	case token.NEQ:
		if c == 0 {
			return bit
		}
		if c == val {
			return notBit(bit)
		}
	case token.EQL:
		if c == 0 {
			return notBit(bit)
		}
		if c == val {
			return bit
		}
	case token.GTR:
		if c == 0 && uns {
			return bit
		}
	case token.GEQ:
		if (c == 1 || c == val) && uns {
			return bit
		}
	case token.LSS:
		if (c == 1 || c == val) && uns {
			return notBit(bit)
		}
	case token.LEQ:
		if c == 0 && uns {
			return notBit(bit)
		}
	}
	return Bit{K: Top}
}

// call models BigEndian reads/writes and inlines small pure module callees.
func (m *Machine) call(x *ssa.Call, state map[string]Vec) {
	name := core.CalleeFullName(x)
	w := width(x.Type())
	switch name {
	case "(encoding/binary.bigEndian).Uint16", "(encoding/binary.bigEndian).Uint32", "(encoding/binary.bigEndian).Uint64":
		n := w / 8
		r := make(Vec, 0, w)
		ok := true
		for i := n - 1; i >= 0; i-- { // least significant byte is the last one
			bv, has := m.byteOf(x.Call.Args[1], int64(i), state)
			if !has {
				ok = false
				break
			}
			r = append(r, bv...)
		}
		if ok {
			m.setEnv(x, r)
		} else {
			m.setEnv(x, topVec(w))
		}
		return
	case "(encoding/binary.bigEndian).PutUint16", "(encoding/binary.bigEndian).PutUint32", "(encoding/binary.bigEndian).PutUint64":
		v := m.val(x.Call.Args[2])
		n := len(v) / 8
		for i := 0; i < n; i++ {
			key, ok := m.byteKey(x.Call.Args[1], int64(i))
			if !ok {
				continue
			}
			if m.inLoop[x.Block()] && !m.iterationLocalSlice(x.Call.Args[1]) {
				state[key] = topVec(8)
				continue
			}
			state[key] = v[8*(n-1-i) : 8*(n-i)]
		}
		return
	}
	if b := core.BuiltinName(x); b == "append" {
		if m.Snaps == nil {
			m.Snaps = map[*ssa.Call]map[string]Vec{}
		}
		snap := make(map[string]Vec, len(state))
		for k, v := range state {
			snap[k] = v
		}
		m.Snaps[x] = snap
	}
	if b := core.BuiltinName(x); b == "copy" && len(x.Call.Args) == 2 {
		// copy(dst, src) with a length the slices fix (a header template copied into the fragment): byte by byte;
		// with an unknown length every tracked byte of the destination from its start on becomes unknown
		dst, src := x.Call.Args[0], x.Call.Args[1]
		nd, okd := m.constLen(dst)
		ns, oks := m.constLen(src)
		n := int64(-1)
		switch {
		case okd && oks:
			n = nd
			if ns < n {
				n = ns
			}
		case okd && !oks, !okd && oks:
			// the shorter operand decides; only an upper bound is known
		}
		loopy := m.inLoop[x.Block()] && !m.iterationLocalSlice(dst)
		if n >= 0 && n <= 64 {
			vals := make([]Vec, n)
			for i := int64(0); i < n; i++ {
				if v, has := m.byteOf(src, i, state); has && !loopy {
					vals[i] = v
				} else {
					vals[i] = topVec(8)
				}
			}
			for i := int64(0); i < n; i++ {
				if key, ok := m.byteKey(dst, i); ok {
					state[key] = vals[i]
				}
			}
		} else if rn, bn, off, ok := m.sliceName(dst); ok && bn == "" {
			prefix := rn + "["
			for k := range state {
				if !strings.HasPrefix(k, prefix) || !strings.HasSuffix(k, "]") {
					continue
				}
				var idx int64
				if _, err := fmt.Sscanf(k[len(prefix):len(k)-1], "%d", &idx); err == nil && fmt.Sprintf("%s[%d]", rn, idx) == k && idx >= off {
					if okd && idx >= off+nd {
						continue
					}
					state[k] = topVec(8)
				}
			}
		}
		m.setEnv(x, topVec(64))
		return
	}
	if b := core.BuiltinName(x); b == "len" || b == "cap" {
		m.setEnv(x, m.refine(srcVec(b+"("+m.lenName(x.Call.Args[0])+")", 64), x.Block()))
		return
	}
	// local objects whose address is handed to a callee may be written by it: from here on their
	// cells are unknown inputs, not zeroes
	for _, a := range x.Call.Args {
		if _, isPtr := a.Type().Underlying().(*types.Pointer); !isPtr {
			continue
		}
		root, _ := core.AddrKey(a)
		if al, ok := root.(*ssa.Alloc); ok {
			if _, named := m.names[al]; !named {
				m.names[al] = "obj:" + al.Comment
			}
			prefix := m.rootName(al)
			for k := range state {
				if strings.HasPrefix(k, prefix+".") || k == prefix {
					delete(state, k)
				}
			}
		}
	}
	callee := x.Call.StaticCallee()
	if callee != nil && !x.Call.IsInvoke() && core.InModule(callee) && len(callee.Blocks) > 0 && m.depth < 4 {
		sub := &Machine{Prog: m.Prog, Fn: callee, env: map[ssa.Value]Vec{}, mem: map[*ssa.BasicBlock]map[string]Vec{}, names: map[ssa.Value]string{}, bind: map[ssa.Value]Vec{}, depth: m.depth + 1, parent: m,
			alias: map[ssa.Value]sliceAlias{}, assume: m.assume}
		if m.force != nil {
			// the case split of the caller is the callee's too (a branch on the same input bit moved into a helper)
			sub.force, sub.deadEdge = m.force, map[[2]*ssa.BasicBlock]bool{}
		}
		m.Subs = append(m.Subs, sub)
		for i, p := range callee.Params {
			if i < len(x.Call.Args) {
				if v := m.val(x.Call.Args[i]); v != nil {
					sub.bind[p] = v
				} else if _, isSlice := p.Type().Underlying().(*types.Slice); isSlice {
					if rn, bn, off, ok := m.sliceName(x.Call.Args[i]); ok {
						fresh := false
						if root, _, _, okb := m.sliceBase(x.Call.Args[i]); okb {
							switch root.(type) {
							case *ssa.MakeSlice, *ssa.Alloc:
								fresh = true
							}
							if a, al := m.alias[root]; al && a.fresh {
								fresh = true
							}
						}
						sub.alias[p] = sliceAlias{rn, bn, off, fresh}
					}
				} else if _, isPtr := p.Type().Underlying().(*types.Pointer); isPtr {
					// pointer receiver: name its fields after the caller's view of the object
					if key, ok := m.cellKey(x.Call.Args[i]); ok {
						sub.names[p] = key
					} else {
						sub.names[p] = m.rootName(x.Call.Args[i])
					}
				}
			}
		}
		// callee sees the caller's memory for cells with the same names
		sub.mem[nil] = state
		sub.runWithState(state)
		// writes of the callee into a slice of the caller (a header field written by a small helper that
		// is handed buf[i:]) are the caller's writes: the bytes of every aliased buffer are taken from the
		// callee's return states (equal on all returns, unknown otherwise)
		for prm, al := range sub.alias {
			var arg ssa.Value
			for i, q := range callee.Params {
				if q == prm && i < len(x.Call.Args) {
					arg = x.Call.Args[i]
				}
			}
			if arg == nil {
				continue
			}
			prefix := al.rn + "["
			var rets []map[string]Vec
			var retBlocks []*ssa.BasicBlock
			for _, b := range callee.Blocks {
				if len(b.Instrs) == 0 {
					continue
				}
				if _, isRet := b.Instrs[len(b.Instrs)-1].(*ssa.Return); !isRet {
					continue
				}
				if rs, ok := sub.mem[b]; ok {
					rets = append(rets, rs)
					retBlocks = append(retBlocks, b)
				}
			}
			// two returns on the two sides of one test (an early `if !enabled { return }`): the memory after the call is
			// the mux of the two return states over that test's condition, like the join of an if/else
			if len(rets) == 2 {
				d := retBlocks[0].Idom()
				for d != nil && !d.Dominates(retBlocks[1]) {
					d = d.Idom()
				}
				if d != nil && len(d.Instrs) > 0 {
					if iff, ok := d.Instrs[len(d.Instrs)-1].(*ssa.If); ok {
						side := func(r *ssa.BasicBlock) int {
							for i, sc := range d.Succs {
								if sc == r || (len(sc.Preds) == 1 && sc.Dominates(r)) {
									return i
								}
							}
							return -1
						}
						s0, s1 := side(retBlocks[0]), side(retBlocks[1])
						if c := sub.val(iff.Cond); len(c) == 1 && s0 >= 0 && s1 >= 0 && s0 != s1 {
							tState, fState := rets[0], rets[1]
							if s0 == 1 {
								tState, fState = rets[1], rets[0]
							}
							merged := map[string]Vec{}
							keys := map[string]int{}
							for k, v := range tState {
								if strings.HasPrefix(k, prefix) {
									keys[k] = len(v)
								}
							}
							for k, v := range fState {
								if strings.HasPrefix(k, prefix) {
									keys[k] = len(v)
								}
							}
							// a byte one side never wrote holds what it held before the call
							before := func(k string, w int) Vec {
								if old, had := state[k]; had && len(old) == w {
									return old
								}
								if al.fresh {
									return constVec(0, w)
								}
								return topVec(w)
							}
							for k, w := range keys {
								tv, hasT := tState[k]
								fv, hasF := fState[k]
								if !hasT || len(tv) != w {
									tv = before(k, w)
								}
								if !hasF || len(fv) != w {
									fv = before(k, w)
								}
								r := make(Vec, w)
								for j := 0; j < w; j++ {
									r[j] = muxBit(c[0], tv[j], fv[j])
								}
								merged[k] = r
							}
							rets = []map[string]Vec{merged}
						}
					}
				}
			}
			changed := map[string]Vec{}
			for _, rs := range rets {
				for k, v := range rs {
					if !strings.HasPrefix(k, prefix) {
						continue
					}
					if old, had := state[k]; had && vecEqual(old, v) {
						continue
					}
					changed[k] = v
				}
			}
			for k, v := range changed {
				for _, rs := range rets {
					if o, ok := rs[k]; !ok || !vecEqual(o, v) {
						changed[k] = topVec(len(v))
					}
				}
			}
			for k, v := range changed {
				if m.inLoop[x.Block()] && !m.iterationLocalSlice(arg) {
					v = topVec(len(v))
				}
				state[k] = v
			}
		}
		// comparisons made by the callee on the caller's bits are the caller's comparisons too
		// (a test moved into a predicate method such as IsFragmentationUnit)
		if len(sub.Cmps) > 0 {
			if m.Cmps == nil {
				m.Cmps = map[ssa.Value]CmpInfo{}
			}
			for k, ci := range sub.Cmps {
				if _, dup := m.Cmps[k]; !dup {
					m.Cmps[k] = ci
				}
			}
		}
		if w == 0 {
			// no scalar result to bind: the callee was executed for the values it computes (EachValue)
			return
		}
		// single-valued result: mux over returns is not attempted; require all returns equal
		var res Vec
		okRes := true
		for _, rs := range sub.Returns {
			if len(rs.Results) == 0 {
				okRes = false
				break
			}
			if res == nil {
				res = rs.Results[0]
			} else if !vecEqual(res, rs.Results[0]) {
				okRes = false
			}
		}
		muxed := false
		// two returns on the two sides of one test (`if b { return 1 << k }; return 0`): the result is the mux of
		// the two values over the test's condition
		if !okRes && len(sub.Returns) == 2 && len(sub.Returns[0].Results) > 0 && len(sub.Returns[1].Results) > 0 {
			r0, r1 := sub.Returns[0], sub.Returns[1]
			b0, b1 := r0.Ret.Block(), r1.Ret.Block()
			d := b0.Idom()
			for d != nil && !d.Dominates(b1) {
				d = d.Idom()
			}
			if d != nil && len(d.Instrs) > 0 {
				if iff, ok := d.Instrs[len(d.Instrs)-1].(*ssa.If); ok {
					side := func(r *ssa.BasicBlock) int {
						for i, sc := range d.Succs {
							if sc == r || (len(sc.Preds) == 1 && sc.Dominates(r)) {
								return i
							}
						}
						return -1
					}
					s0, s1 := side(b0), side(b1)
					tv, fv := r0.Results[0], r1.Results[0]
					if s0 == 1 {
						tv, fv = fv, tv
					}
					if c := sub.val(iff.Cond); len(c) == 1 && s0 >= 0 && s1 >= 0 && s0 != s1 && len(tv) == w && len(fv) == w {
						mx := make(Vec, w)
						for j := 0; j < w; j++ {
							mx[j] = muxBit(c[0], tv[j], fv[j])
						}
						res, okRes = mx, true
						muxed = true
					}
				}
			}
		}
		if okRes && len(res) == w {
			hasTop, allTop := false, true
			for _, b := range res {
				if b.K == Top {
					hasTop = true
				} else {
					allTop = false
				}
			}
			// a muxed result keeps the bits it knows (`bitIf(p != nil, 0x04)`: bit 2 unknown, the others zero)
			if !hasTop || (muxed && !allTop) {
				m.setEnv(x, res)
				return
			}
		}
	}
	if w > 0 {
		// an opaque integer result is a named input: later bit selections of it stay visible
		if callee != nil {
			m.setEnv(x, srcVec("call:"+callee.Name(), w))
		} else {
			m.setEnv(x, topVec(w))
		}
	}
}

func (m *Machine) runWithState(st map[string]Vec) {
	fn := m.Fn
	m.inLoop = map[*ssa.BasicBlock]bool{}
	for _, b := range fn.Blocks {
		for _, s := range b.Succs {
			if s.Dominates(b) {
				m.inLoop[s] = true
				m.inLoop[b] = true
			}
		}
	}
	seen := map[*ssa.BasicBlock]bool{}
	var post []*ssa.BasicBlock
	var dfs func(b *ssa.BasicBlock)
	dfs = func(b *ssa.BasicBlock) {
		seen[b] = true
		for _, s := range b.Succs {
			if !seen[s] {
				dfs(s)
			}
		}
		post = append(post, b)
	}
	dfs(fn.Blocks[0])
	first := true
	for i := len(post) - 1; i >= 0; i-- {
		if first {
			// seed the entry block with the caller's memory
			first = false
			b := post[i]
			state := map[string]Vec{}
			for k, v := range st {
				state[k] = v
			}
			for _, in := range b.Instrs {
				m.exec(in, state)
			}
			m.mem[b] = state
			continue
		}
		m.execBlock(post[i])
	}
}

func (m *Machine) lenName(v ssa.Value) string {
	if u, ok := v.(*ssa.UnOp); ok && u.Op == token.MUL {
		if key, ok := m.cellKey(u.X); ok {
			return key
		}
	}
	return m.rootName(v)
}

// byteKey names byte i of a slice value.
func (m *Machine) byteKey(sl ssa.Value, i int64) (string, bool) {
	rn, bn, off, ok := m.sliceName(sl)
	if !ok {
		return "", false
	}
	if bn != "" {
		return fmt.Sprintf("%s[%s%+d]", rn, bn, off+i), true
	}
	return fmt.Sprintf("%s[%d]", rn, off+i), true
}

func (m *Machine) byteOf(sl ssa.Value, i int64, state map[string]Vec) (Vec, bool) {
	key, ok := m.byteKey(sl, i)
	if !ok {
		return nil, false
	}
	if v, has := state[key]; has && len(v) == 8 {
		return v, true
	}
	root, _, _, _ := m.sliceBase(sl)
	switch root.(type) {
	case *ssa.MakeSlice, *ssa.Alloc:
		return constVec(0, 8), true
	}
	return srcVec(key, 8), true
}

// ValueOf exposes the vector computed for an SSA value.
func (m *Machine) ValueOf(v ssa.Value) Vec { return m.val(v) }

// SortedKeys lists memory cell names at a return, sorted.
func (r *RetState) SortedKeys() []string {
	var ks []string
	for k := range r.Mem {
		ks = append(ks, k)
	}
	sort.Strings(ks)
	return ks
}

// spillStruct initialises the integer fields of a local cell from a by-value struct parameter.
func (m *Machine) spillStruct(state map[string]Vec, key, src string, st *types.Struct) {
	for i := 0; i < st.NumFields(); i++ {
		f := st.Field(i)
		if inner, ok := f.Type().Underlying().(*types.Struct); ok {
			m.spillStruct(state, key+"."+f.Name(), src+"."+f.Name(), inner)
			continue
		}
		if w := width(f.Type()); w > 0 {
			if b, ok := m.bind[nil]; ok {
				_ = b
			}
			state[key+"."+f.Name()] = srcVec(src+"."+f.Name(), w)
		}
	}
}

func (m *Machine) copyStruct(state map[string]Vec, key, src string, st *types.Struct) {
	for i := 0; i < st.NumFields(); i++ {
		f := st.Field(i)
		if inner, ok := f.Type().Underlying().(*types.Struct); ok {
			m.copyStruct(state, key+"."+f.Name(), src+"."+f.Name(), inner)
			continue
		}
		if w := width(f.Type()); w > 0 {
			if v, has := state[src+"."+f.Name()]; has {
				state[key+"."+f.Name()] = v
			} else {
				state[key+"."+f.Name()] = m.initialCell(src+"."+f.Name(), w)
			}
		}
	}
}

// refine zeroes the source bits that dominating range guards prove to be zero in block b
// (x > 2^k-1 -> return leaves bits >= k of x zero on the fall-through).
func (m *Machine) refine(v Vec, b *ssa.BasicBlock) Vec {
	kz := m.knownZero(b)
	if len(m.assume) > 0 {
		merged := map[string]bool{}
		for k := range kz {
			merged[k] = true
		}
		for k := range m.assume {
			merged[k] = true
		}
		kz = merged
	}
	if len(kz) == 0 {
		return v
	}
	r := make(Vec, len(v))
	copy(r, v)
	for i, bt := range r {
		if (bt.K == In || bt.K == Not) && kz[fmt.Sprintf("%s.%d", bt.Src, bt.J)] {
			if bt.K == In {
				r[i] = Bit{K: Zero}
			} else {
				r[i] = Bit{K: One}
			}
		}
	}
	return r
}

func (m *Machine) knownZero(b *ssa.BasicBlock) map[string]bool {
	if m.kz == nil {
		m.kz = map[*ssa.BasicBlock]map[string]bool{}
	}
	if r, ok := m.kz[b]; ok {
		return r
	}
	out := map[string]bool{}
	m.kz[b] = out // guards against re-entrance
	for _, g := range core.DominatingGuards(b) {
		cmp, ok := g.Cond.(*ssa.BinOp)
		if !ok {
			continue
		}
		// normalise to x <= C holding on this edge
		var x ssa.Value
		var c int64
		var have bool
		if k, isC := core.ConstInt(cmp.Y); isC {
			switch {
			case cmp.Op == token.GTR && !g.Truth: // !(x > k)
				x, c, have = cmp.X, k, true
			case cmp.Op == token.LEQ && g.Truth:
				x, c, have = cmp.X, k, true
			case cmp.Op == token.LSS && g.Truth:
				x, c, have = cmp.X, k-1, true
			case cmp.Op == token.GEQ && !g.Truth:
				x, c, have = cmp.X, k-1, true
			}
		}
		if !have || c < 0 || signed(x.Type()) {
			continue
		}
		// c+1 must be a power of two
		if (c+1)&c != 0 {
			continue
		}
		k := 0
		for (int64(1) << uint(k)) <= c {
			k++
		}
		xv := m.env[x]
		if xv == nil {
			continue
		}
		for j := k; j < len(xv); j++ {
			if xv[j].K == In {
				out[fmt.Sprintf("%s.%d", xv[j].Src, xv[j].J)] = true
			}
		}
	}
	return out
}

// EachCell visits every memory cell value observed at the end of any block.
func (m *Machine) EachCell(f func(key string, v Vec)) {
	for b, st := range m.mem {
		if b == nil && m.parent != nil {
			continue // the caller's memory handed to an expanded callee: visited with the caller
		}
		for k, v := range st {
			f(k, v)
		}
	}
	// cells of the callees the machine expanded (an object built by a helper constructor)
	for _, s := range m.Subs {
		s.EachCell(f)
	}
}

// iterationLocal: the written object is allocated inside the loop body (a fresh object per
// iteration), so stores to it are positional within one iteration.
func (m *Machine) iterationLocal(addr ssa.Value) bool {
	ia, ok := addr.(*ssa.IndexAddr)
	if !ok {
		return false
	}
	return m.iterationLocalSlice(ia.X)
}

func (m *Machine) iterationLocalSlice(sl ssa.Value) bool {
	root, _, _, ok := m.sliceBase(sl)
	if !ok {
		return false
	}
	mk, ok := root.(*ssa.MakeSlice)
	return ok && m.inLoop[mk.Block()]
}

// AllStores lists the stores executed by the machine and by the callees it expanded (a field decoded in a
// helper method that received the receiver is stored there under the caller's name for the cell).
func (m *Machine) AllStores() []StoreRec {
	out := append([]StoreRec(nil), m.Stores...)
	for _, s := range m.Subs {
		out = append(out, s.AllStores()...)
	}
	return out
}

// constLen: the length of a slice value when its bounds fix it (x[lo:hi] with constant bounds, arr[:] of an array).
func (m *Machine) constLen(v ssa.Value) (int64, bool) {
	sl, ok := v.(*ssa.Slice)
	if !ok {
		return 0, false
	}
	lo := int64(0)
	if sl.Low != nil {
		k, isC := core.ConstInt(sl.Low)
		if !isC {
			return 0, false
		}
		lo = k
	}
	if sl.High != nil {
		k, isC := core.ConstInt(sl.High)
		if !isC {
			return 0, false
		}
		return k - lo, k >= lo
	}
	if pt, ok := sl.X.Type().Underlying().(*types.Pointer); ok {
		if at, ok := pt.Elem().Underlying().(*types.Array); ok {
			return at.Len() - lo, at.Len() >= lo
		}
	}
	return 0, false
}

// InLoop reports whether block b belongs to a loop.
func (m *Machine) InLoop(b *ssa.BasicBlock) bool { return m.inLoop[b] }

// EachValue visits every SSA value vector computed.
func (m *Machine) EachValue(f func(v ssa.Value, vec Vec)) {
	for v, vec := range m.env {
		f(v, vec)
	}
	for _, s := range m.Subs {
		s.EachValue(f)
	}
}

// CondOf returns the vector of an If's condition.
func (m *Machine) CondOf(iff *ssa.If) Vec { return m.val(iff.Cond) }
