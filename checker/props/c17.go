package props

import (
	"golang.org/x/tools/go/ssa"

	"rtpcheck/core"
)

func init() { Registry["C17"] = c17 }

var c17Types = []string{"AudioLevelExtension", "TransportCCExtension", "PlayoutDelayExtension", "AbsSendTimeExtension", "AbsCaptureTimeExtension"}

// C17 — Fixed-size header-extension payload codecs are bit-exact and total.
func c17(c *Ctx) {
	p, r := c.Prog, c.R
	r.Explain = "BITS: Marshal/Unmarshal bit provenance vs the specification tables; BOUNDS: Unmarshal total; " +
		"RESET R1: every field decoded on some path is defined on every success path (receiver-independent result). CTR.total: Marshal fails only outside the range table; CTR.size: exact wire size."
	nf := 0
	var entries []*ssa.Function
	for _, tn := range c17Types {
		fn := p.Method("rtp", tn, "Unmarshal")
		ma := p.Method("rtp", tn, "Marshal")
		if fn == nil || ma == nil {
			r.Fatalf("anchor rtp.%s.{Marshal,Unmarshal} not found", tn)
			continue
		}
		nf += resetR1(c, fn, 0, nil)
		entries = append(entries, fn, ma)
	}
	boundsFor(c, "C17", entries)
	r.Infof("CTR.total/CTR.size: %d Marshal return path(s) checked", c.c17Seen)
	nb := c17Bits(c)
	minLenRule(c, []minLenRow{
		{fn: "rtp.(*AbsSendTimeExtension).Unmarshal", want: []int{3}, why: "24-bit timestamp"},
		{fn: "rtp.(*AbsCaptureTimeExtension).Unmarshal", want: []int{8, 16}, why: "64-bit timestamp, +64-bit offset in the extended form"},
		{fn: "rtp.(*AudioLevelExtension).Unmarshal", want: []int{1}, why: "one octet"},
		{fn: "rtp.(*PlayoutDelayExtension).Unmarshal", want: []int{3}, why: "two 12-bit delays"},
		{fn: "rtp.(*TransportCCExtension).Unmarshal", want: []int{2}, why: "16-bit sequence number"}})
	r.Floor("BITS table rows checked", nb, 28)
	if c.resetUndecided == 0 {
		r.Floor("decoded fields checked by RESET.R1", nf, 5)
	}
	_ = core.FuncName
}
