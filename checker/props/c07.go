package props

import (
	"fmt"
	"go/token"
	"go/types"

	"golang.org/x/tools/go/ssa"

	"rtpcheck/core"
	"rtpcheck/lockr"
)

func init() { Registry["C07"] = c07 }

// C07 — Sequencer is a linearizable 16-bit counter with exact rollover count.
// Decides the lock discipline (every access to the counter state is inside a critical section of
// the receiver's mutex) and the sequential transition (exactly +1 with natural uint16 wrap;
// rollover +1 exactly when the new value is 0; returned value is the stored value; start-value
// conventions). Linearizability follows from those premises; histories are not explored.
func c07(c *Ctx) {
	p, r := c.Prog, c.R
	r.Explain = "LOCK: forward must-lock dataflow over every function touching a mutex-bearing struct; " +
		"STRUCT: value patterns of the counter transition and of the two constructors, resolved through go/ssa " +
		"store-to-load forwarding. Premises of the linearizability argument are decided for all paths; " +
		"interleavings/histories are not enumerated (sync.Mutex semantics trusted)."
	seqIface := p.NamedType("rtp", "Sequencer")
	if seqIface == nil {
		r.Fatalf("anchor rtp.Sequencer not found")
		return
	}
	iface := seqIface.Underlying().(*types.Interface)
	impls := p.Implementers(iface)
	r.Floor("Sequencer implementations", len(impls), 1)
	guarded := lockr.FindGuarded(p)
	gmap := map[*types.TypeName]*lockr.GuardedStruct{}
	for _, g := range guarded {
		gmap[g.Named.Obj()] = g
	}
	totalAcc := 0
	for _, n := range impls {
		tname := core.TypeName(n)
		g := gmap[n.Obj()]
		if g == nil {
			r.Add("LOCK.mutex", tname, "mutex field present", p.Position(n.Obj().Pos()), false,
				"a Sequencer implementation with mutable state has no sync.Mutex field")
			continue
		}
		r.Add("LOCK.mutex", tname, "mutex field present", p.Position(n.Obj().Pos()), len(g.Mutexes) == 1,
			fmt.Sprintf("mutex fields: %v", g.Mutexes))
		totalAcc += lockr.Check(p, r, g)
		next := p.MethodOf(n, "NextSequenceNumber")
		roc := p.MethodOf(n, "RollOverCount")
		if next == nil || roc == nil {
			r.Fatalf("methods of %s not found", tname)
			continue
		}
		next, roc = core.Unwrap(next), core.Unwrap(roc)
		seqTransition(c, n, effectiveBody(next), roc)
	}
	// every other mutex-bearing struct in the module follows the same discipline (none today)
	for _, g := range guarded {
		isImpl := false
		for _, n := range impls {
			if n.Obj() == g.Named.Obj() {
				isImpl = true
			}
		}
		if !isImpl {
			totalAcc += lockr.Check(p, r, g)
		}
	}
	r.Floor("guarded field accesses checked", totalAcc, 3)
}

// retValue returns the (resolved) value returned by the single normal return of fn.
func retValues(fn *ssa.Function) []ssa.Value {
	var out []ssa.Value
	for _, b := range fn.Blocks {
		if b == fn.Recover {
			continue
		}
		if len(b.Instrs) == 0 {
			continue
		}
		if ret, ok := b.Instrs[len(b.Instrs)-1].(*ssa.Return); ok && len(ret.Results) > 0 {
			out = append(out, core.Resolve(ret.Results[0]))
		}
	}
	return out
}

func isAddConst(v ssa.Value, k int64) (ssa.Value, bool) {
	b, ok := v.(*ssa.BinOp)
	if !ok || b.Op != token.ADD {
		return nil, false
	}
	if c, ok := core.ConstInt(b.Y); ok && c == k {
		return b.X, true
	}
	if c, ok := core.ConstInt(b.X); ok && c == k {
		return b.Y, true
	}
	return nil, false
}

// effectiveBody: when fn itself stores nothing into its receiver and hands the work to exactly one
// helper method of the same receiver (NextSequenceNumber -> advance, called with the lock held), the
// transition rules are checked on that helper.
func effectiveBody(fn *ssa.Function) *ssa.Function {
	for depth := 0; depth < 3; depth++ {
		if fn == nil || len(fn.Params) == 0 {
			return fn
		}
		recv := fn.Params[0]
		stores := 0
		var helper *ssa.Function
		nHelpers := 0
		for _, b := range fn.Blocks {
			for _, in := range b.Instrs {
				switch x := in.(type) {
				case *ssa.Store:
					if root, _ := core.AddrKey(x.Addr); root == recv {
						stores++
					}
				case *ssa.Call:
					if g := x.Call.StaticCallee(); g != nil && core.InModule(g) && len(g.Blocks) > 0 && len(x.Call.Args) > 0 && x.Call.Args[0] == recv {
						helper = g
						nHelpers++
					}
				}
			}
		}
		if stores > 0 || nHelpers != 1 {
			return fn
		}
		fn = helper
	}
	return fn
}

func seqTransition(c *Ctx, n *types.Named, next, roc *ssa.Function) {
	p, r := c.Prog, c.R
	nextName, rocName := core.FuncName(next), core.FuncName(roc)
	recv := next.Params[0]
	// 1. the returned value of NextSequenceNumber identifies the counter field
	rets := retValues(next)
	// several returns are one return when all but one hand back a constant that the path has just
	// established for the same value (`if next != 0 { return next }; ...; return 0`)
	if len(rets) > 1 {
		var nonConst []ssa.Value
		okConst := true
		for _, b := range next.Blocks {
			if len(b.Instrs) == 0 || b == next.Recover {
				continue
			}
			ret, ok := b.Instrs[len(b.Instrs)-1].(*ssa.Return)
			if !ok || len(ret.Results) == 0 {
				continue
			}
			v := core.Resolve(ret.Results[0])
			k, isC := core.ConstInt(v)
			if !isC {
				nonConst = append(nonConst, v)
				continue
			}
			// the constant must be implied by a dominating comparison of a value with that constant
			implied := false
			for _, g := range core.DominatingGuards(b) {
				if cmp, ok := g.Cond.(*ssa.BinOp); ok {
					if c, isK := core.ConstInt(cmp.Y); isK && c == k && ((cmp.Op == token.EQL && g.Truth) || (cmp.Op == token.NEQ && !g.Truth)) {
						implied = true
						nonConst = append(nonConst, core.Resolve(cmp.X))
					}
				}
			}
			if !implied {
				okConst = false
			}
		}
		same := okConst && len(nonConst) > 0
		for _, v := range nonConst {
			if v != nonConst[0] {
				same = false
			}
		}
		if same {
			rets = []ssa.Value{nonConst[0]}
		}
	}
	if len(rets) != 1 {
		r.Add("SEQ.return", nextName, "single return", p.Position(next.Pos()), false, fmt.Sprintf("%d normal returns", len(rets)))
		return
	}
	// collect stores per field
	type storeInfo struct {
		st   *ssa.Store
		path string
	}
	var stores []storeInfo
	for _, b := range next.Blocks {
		for _, in := range b.Instrs {
			if s, ok := in.(*ssa.Store); ok {
				root, path := core.AddrKey(s.Addr)
				if root == recv {
					stores = append(stores, storeInfo{s, path})
				}
			}
		}
	}
	// counter store: the one whose value is returned
	var ctr *storeInfo
	for i := range stores {
		if stores[i].st.Val == rets[0] {
			ctr = &stores[i]
		}
	}
	if ctr == nil {
		// returned value may be a load of the field after the store: Resolve already forwards; so
		// reaching here means the return is not the stored value
		r.Add("SEQ.return", nextName, "returns the stored new value", p.Position(next.Pos()), false,
			"returned value "+core.OpString(rets[0])+" is not the value stored to the counter")
		return
	}
	r.Add("SEQ.return", nextName, "returns the stored new value", p.Position(ctr.st.Pos()), true, "")
	// 2. exactly one store to the counter, of entry-load + 1, uint16, unconditional
	nCtr := 0
	for _, s := range stores {
		if s.path == ctr.path {
			nCtr++
		}
	}
	r.Add("SEQ.step", nextName, "exactly one store to the counter", p.Position(ctr.st.Pos()), nCtr == 1, fmt.Sprintf("%d stores", nCtr))
	base, isInc := isAddConst(ctr.st.Val, 1)
	okInc := isInc && core.IsEntryLoadOf(base, recv, ctr.path)
	r.Add("SEQ.step", nextName, "counter = old + 1", p.Position(ctr.st.Pos()), okInc, "stored value: "+core.OpString(ctr.st.Val))
	b, _ := ctr.st.Val.Type().Underlying().(*types.Basic)
	r.Add("SEQ.step", nextName, "counter type is uint16 (natural wrap 65535->0)", p.Position(ctr.st.Pos()), b != nil && b.Kind() == types.Uint16, "")
	r.Add("SEQ.step", nextName, "counter store is unconditional", p.Position(ctr.st.Pos()),
		len(core.DominatingGuards(ctr.st.Block())) == 0, "")
	// 3. rollover field = field returned by RollOverCount
	rr := retValues(roc)
	var rocPath string
	okRoc := false
	if len(rr) == 1 {
		if u, ok := rr[0].(*ssa.UnOp); ok && u.Op == token.MUL {
			root, path := core.AddrKey(u.X)
			if root == roc.Params[0] && core.IsEntryLoadOf(u, root, path) {
				rocPath, okRoc = path, true
			}
		}
	}
	r.Add("SEQ.roc", rocName, "returns the rollover field unchanged", p.Position(roc.Pos()), okRoc, "")
	for _, b := range roc.Blocks {
		for _, in := range b.Instrs {
			if s, ok := in.(*ssa.Store); ok {
				if root, path := core.AddrKey(s.Addr); root == roc.Params[0] {
					r.Add("SEQ.roc", rocName, "no state change in RollOverCount: "+path, p.Position(s.Pos()), false, "RollOverCount writes receiver state")
				}
			}
		}
	}
	if !okRoc {
		return
	}
	if rocPath == ctr.path {
		r.Add("SEQ.roc", rocName, "rollover field differs from counter", p.Position(roc.Pos()), false, "")
	}
	// 4. rollover store in NextSequenceNumber
	var rs []*ssa.Store
	for _, s := range stores {
		if s.path == rocPath {
			rs = append(rs, s.st)
		}
	}
	r.Add("SEQ.wrap", nextName, "exactly one store to the rollover count", p.Position(next.Pos()), len(rs) == 1, fmt.Sprintf("%d stores", len(rs)))
	if len(rs) == 1 {
		base, isInc := isAddConst(rs[0].Val, 1)
		r.Add("SEQ.wrap", nextName, "rollover = old + 1", p.Position(rs[0].Pos()), isInc && core.IsEntryLoadOf(base, recv, rocPath), core.OpString(rs[0].Val))
		gs := core.DominatingGuards(rs[0].Block())
		okG := false
		detail := fmt.Sprintf("%d dominating conditions", len(gs))
		if len(gs) == 1 {
			if cmp, ok := gs[0].Cond.(*ssa.BinOp); ok {
				x, y := core.Resolve(cmp.X), core.Resolve(cmp.Y)
				zeroY, isZ := core.ConstInt(y)
				zeroX, isZX := core.ConstInt(x)
				var other ssa.Value
				if isZ && zeroY == 0 {
					other = x
				} else if isZX && zeroX == 0 {
					other = y
				}
				// the tested value is the very value stored into the counter (an immutable SSA value:
				// whether the store comes before or after the test does not matter)
				if other == ctr.st.Val {
					okG = (cmp.Op == token.EQL && gs[0].Truth) || (cmp.Op == token.NEQ && !gs[0].Truth)
				}
				// equivalently: the value *before* the increment is the last one before the wrap (65535)
				for _, pair := range [][2]ssa.Value{{x, y}, {y, x}} {
					if k, isC := core.ConstInt(pair[1]); isC && (k == 65535 || k == -1) {
						if ld, ok := pair[0].(*ssa.UnOp); ok && core.IsEntryLoadOf(ld, recv, ctr.path) {
							okG = (cmp.Op == token.EQL && gs[0].Truth) || (cmp.Op == token.NEQ && !gs[0].Truth)
						}
					}
				}
				detail = "condition " + core.OpString(cmp) + fmt.Sprintf(" taken=%v", gs[0].Truth)
			}
		}
		r.Add("SEQ.wrap", nextName, "rollover increments exactly when the new value == 0", p.Position(rs[0].Pos()), okG, detail)
	}
	// other receiver stores in NextSequenceNumber
	for _, s := range stores {
		if s.path != ctr.path && s.path != rocPath {
			r.Add("SEQ.step", nextName, "no other state: "+s.path, p.Position(s.st.Pos()), false, "unexpected store to receiver state")
		}
	}
	// 5. constructors: every function that allocates the struct and stores into its fields
	ctors := 0
	for _, name := range sortedFuncNames(p) {
		fn := p.Funcs[name]
		for _, b := range fn.Blocks {
			for _, in := range b.Instrs {
				a, ok := in.(*ssa.Alloc)
				if !ok {
					continue
				}
				pt := a.Type().Underlying().(*types.Pointer).Elem()
				nn, ok := pt.(*types.Named)
				if !ok || nn.Obj() != n.Obj() {
					continue
				}
				ctors += checkCtor(c, fn, a, ctr.path, rocPath)
			}
		}
	}
	r.Floor("sequencer constructors", ctors, 2)
}

func sortedFuncNames(p *core.Program) []string {
	names := make([]string, 0, len(p.Funcs))
	for n := range p.Funcs {
		names = append(names, n)
	}
	sortStrings(names)
	return names
}

func checkCtor(c *Ctx, fn *ssa.Function, a *ssa.Alloc, ctrPath, rocPath string) int {
	n := 1
	checkCtor1(c, fn, a, ctrPath, rocPath, &n)
	return n
}

func checkCtor1(c *Ctx, fn *ssa.Function, a *ssa.Alloc, ctrPath, rocPath string, count *int) {
	p, r := c.Prog, c.R
	fname := core.FuncName(fn)
	var ctrStore *ssa.Store
	for _, b := range fn.Blocks {
		for _, in := range b.Instrs {
			if s, ok := in.(*ssa.Store); ok {
				root, path := core.AddrKey(s.Addr)
				if root != a {
					continue
				}
				switch path {
				case ctrPath:
					ctrStore = s
				case rocPath:
					z, isC := core.ConstInt(s.Val)
					r.Add("SEQ.init", fname, "rollover starts at 0", p.Position(s.Pos()), isC && z == 0, "")
				}
			}
		}
	}
	if ctrStore == nil {
		// counter starts at 0: first value handed out is 1 – fine for "random", wrong for "fixed"
		if len(fn.Params) > 0 {
			r.Add("SEQ.init", fname, "fixed start: counter = start - 1", p.Position(fn.Pos()), false, "counter not initialised from the start value")
		}
		return
	}
	v := ctrStore.Val
	// an unexported helper that stores its parameter unchanged (newSequencer(last)) is not a constructor of its
	// own: each of its callers is one, with the argument it passes as the initial counter
	if pa, isParam := v.(*ssa.Parameter); isParam && fn.Object() != nil && !fn.Object().Exported() {
		idx := -1
		for i, q := range fn.Params {
			if q == pa {
				idx = i
			}
		}
		callers := 0
		for _, name := range sortedFuncNames(p) {
			g := p.Funcs[name]
			for _, b := range g.Blocks {
				for _, in := range b.Instrs {
					call, ok := in.(*ssa.Call)
					if !ok || call.Call.StaticCallee() != fn || idx >= len(call.Call.Args) {
						continue
					}
					callers++
					checkCtorValue(c, g, call.Call.Args[idx], call.Pos())
				}
			}
		}
		if callers > 0 {
			*count = callers
			return
		}
	}
	checkCtorValue(c, fn, v, ctrStore.Pos())
}

// checkCtorValue: v is the initial counter value set up by constructor fn.
func checkCtorValue(c *Ctx, fn *ssa.Function, v ssa.Value, pos token.Pos) {
	p, r := c.Prog, c.R
	fname := core.FuncName(fn)
	if len(fn.Params) == 1 {
		// fixed sequencer: first value handed out (init+1) must be the parameter
		bin, ok := v.(*ssa.BinOp)
		good := false
		if ok && bin.Op == token.SUB && bin.X == fn.Params[0] {
			if k, isC := core.ConstInt(bin.Y); isC && k == 1 {
				good = true
			}
		}
		if ok && bin.Op == token.ADD && bin.X == fn.Params[0] {
			if k, isC := core.ConstInt(bin.Y); isC && (k == 65535 || k == -1) {
				good = true
			}
		}
		r.Add("SEQ.init", fname, "fixed start: counter = start - 1", p.Position(pos), good, "stored "+core.OpString(v))
		return
	}
	// random sequencer: first value handed out = init + 1 must be < 2^15
	lo, hi, ok := core.Interval(v, 0)
	good := ok && lo >= 0 && hi+1 < 1<<15
	r.Add("SEQ.init", fname, "random start: first value < 2^15", p.Position(pos), good,
		fmt.Sprintf("initial counter in [%d,%d], first value handed out <= %d", lo, hi, hi+1))
}
