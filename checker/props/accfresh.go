package props

import (
	"fmt"
	"go/types"
	"sort"

	"golang.org/x/tools/go/ssa"

	"rtpcheck/core"
)

// STRUCT.accfresh — a per-element accumulator is started afresh for every element.
//
// Decoders that read a list of lists (VP9 scalability structure: N_G picture groups with R reference
// differences each; VLA: spatial layers with their bitrates) collect the inner list in a slice and hand it
// over once per outer iteration. When the collecting slice is a local that lives across the iterations of
// the outer loop and is only ever appended to, element k also contains the contents of elements 0..k-1.
//
// Rule, on the SSA form: for every loop L and every slice-typed phi P at the head of L whose value on every
// back edge is P extended by appends only (through the phis of inner loops; a re-slice x[:0], a make, nil or
// any other value on some path breaks the chain), no value derived from P may be stored into memory inside
// L (an element of a list under construction, a field of the receiver). Handing the accumulated slice over
// after the loop is fine, and so is a list that is itself the accumulator (payloads = append(payloads, out)).
func accFreshRule(c *Ctx, fns []*ssa.Function) int {
	p, r := c.Prog, c.R
	nLoops := 0
	for _, fn := range fns {
		if fn == nil || len(fn.Blocks) == 0 {
			continue
		}
		for _, hd := range fn.Blocks {
			var backs []*ssa.BasicBlock
			for _, t := range hd.Preds {
				if hd.Dominates(t) {
					backs = append(backs, t)
				}
			}
			if len(backs) == 0 {
				continue
			}
			body := map[*ssa.BasicBlock]bool{hd: true}
			stack := append([]*ssa.BasicBlock(nil), backs...)
			for len(stack) > 0 {
				x := stack[len(stack)-1]
				stack = stack[:len(stack)-1]
				if body[x] {
					continue
				}
				body[x] = true
				stack = append(stack, x.Preds...)
			}
			nLoops++
			for _, in := range hd.Instrs {
				ph, ok := in.(*ssa.Phi)
				if !ok {
					break
				}
				if _, isSl := ph.Type().Underlying().(*types.Slice); !isSl {
					continue
				}
				// scratch: the value P has when the loop is entered is memory of this function (nil, make, a literal),
				// not a window into an input
				scratch, resliced := true, false
				for i, pr := range hd.Preds {
					if hd.Dominates(pr) {
						continue
					}
					switch e := ph.Edges[i].(type) {
					case *ssa.Const:
						scratch = scratch && e.IsNil()
					case *ssa.MakeSlice:
					case *ssa.Slice:
						if _, isAlloc := e.X.(*ssa.Alloc); !isAlloc {
							scratch = false
						}
					default:
						scratch = false
					}
				}
				// derived: P extended by appends only
				memo := map[ssa.Value]int{} // 1 = in progress, 2 = yes, 3 = no
				var derived func(v ssa.Value) bool
				derived = func(v ssa.Value) bool {
					if v == ssa.Value(ph) {
						return true
					}
					switch memo[v] {
					case 1, 2:
						return true // a cycle through inner-loop phis adds nothing new
					case 3:
						return false
					}
					memo[v] = 1
					ok := false
					switch x := v.(type) {
					case *ssa.Call:
						ok = core.BuiltinName(x) == "append" && len(x.Call.Args) > 0 && derived(x.Call.Args[0])
					case *ssa.Phi:
						ok = body[x.Block()]
						for _, e := range x.Edges {
							if !derived(e) {
								ok = false
							}
						}
					case *ssa.ChangeType:
						ok = derived(x.X)
					case *ssa.Slice:
						// a re-slice keeps the backing array: buf[:0] followed by appends rewrites the octets an
						// earlier element still points at (only for a scratch buffer of this function, see below)
						if scratch && derived(x.X) {
							ok, resliced = true, true
						}
					}
					if ok {
						memo[v] = 2
					} else {
						memo[v] = 3
					}
					return ok
				}
				acc, grows := true, false
				for i, pr := range hd.Preds {
					if !hd.Dominates(pr) {
						continue
					}
					e := ph.Edges[i]
					if !derived(e) {
						acc = false
					}
					if e != ssa.Value(ph) {
						grows = true
					}
				}
				// stale carry: on some path through the body the value of the previous iteration survives unchanged
				// (a buffer refreshed only under a condition) and the merged value is stored inside the loop
				var carried []ssa.Value
				if !acc {
					for i, pr := range hd.Preds {
						if !hd.Dominates(pr) {
							continue
						}
						if p2, ok := ph.Edges[i].(*ssa.Phi); ok && body[p2.Block()] && p2 != ph {
							hasOld, hasFresh := false, false
							for _, e := range p2.Edges {
								if e == ssa.Value(ph) {
									hasOld = true
								} else {
									hasFresh = true
								}
							}
							if hasOld && hasFresh {
								carried = append(carried, p2)
							}
						}
					}
				}
				if len(carried) > 0 {
					var bad []string
					for b := range body {
						for _, in2 := range b.Instrs {
							if st, ok := in2.(*ssa.Store); ok {
								for _, cv := range carried {
									if st.Val == cv {
										bad = append(bad, p.Position(st.Pos()))
									}
								}
							}
						}
					}
					sort.Strings(bad)
					if len(bad) > 0 {
						name := ph.Comment
						if name == "" {
							name = ph.Name()
						}
						r.Add("STRUCT.accfresh", core.FuncName(fn), fmt.Sprintf("buffer %s handed over inside the loop is made afresh for every element", name), p.Position(ph.Pos()), false,
							fmt.Sprintf("%s is given a new value only on some paths through the loop body; on the others the value of the previous iteration is stored again at %s", name, bad[0]))
					}
					continue
				}
				if !acc || !grows {
					continue
				}
				// a value derived from P stored into memory inside the loop
				var bad []string
				for b := range body {
					for _, in2 := range b.Instrs {
						st, ok := in2.(*ssa.Store)
						if !ok {
							continue
						}
						if st.Val == ssa.Value(ph) || memo[st.Val] == 2 {
							bad = append(bad, p.Position(st.Pos()))
						}
					}
				}
				sort.Strings(bad)
				name := ph.Comment
				if name == "" {
					name = ph.Name()
				}
				if len(bad) > 0 && resliced {
					r.Add("STRUCT.accfresh", core.FuncName(fn), fmt.Sprintf("scratch buffer %s handed over inside the loop is not reused for the next element", name), p.Position(ph.Pos()), false,
						fmt.Sprintf("%s is re-sliced and refilled in every iteration of the loop at %s while its value is stored at %s inside that loop: the elements stored share one backing array", name, p.Position(hd.Instrs[len(hd.Instrs)-1].Pos()), bad[0]))
				} else if len(bad) > 0 {
					r.Add("STRUCT.accfresh", core.FuncName(fn), fmt.Sprintf("accumulator %s handed over inside the loop is started afresh for every element", name), p.Position(ph.Pos()), false,
						fmt.Sprintf("%s is only ever appended to across the iterations of the loop at %s, and its value is stored at %s inside that loop: every element also contains the earlier ones", name, p.Position(hd.Instrs[len(hd.Instrs)-1].Pos()), bad[0]))
				}
			}
		}
	}
	return nLoops
}

// accFreshFor runs the rule over every function of the module declared in a file whose path contains one of
// the given fragments and reports how many loops were examined (floor: the rule must have looked at loops).
func accFreshFor(c *Ctx, floor int, frags ...string) {
	p := c.Prog
	var names []string
	for n := range p.Funcs {
		names = append(names, n)
	}
	sort.Strings(names)
	var fns []*ssa.Function
	seen := map[*ssa.Function]bool{}
	var add func(f *ssa.Function)
	add = func(f *ssa.Function) {
		if f == nil || seen[f] {
			return
		}
		seen[f] = true
		fns = append(fns, f)
		for _, a := range f.AnonFuncs {
			add(a)
		}
	}
	for _, n := range names {
		f := p.Funcs[n]
		if f == nil || len(f.Blocks) == 0 {
			continue
		}
		pos := p.Position(f.Pos())
		for _, fr := range frags {
			if len(pos) >= len(fr) && containsStr(pos, fr) {
				add(f)
				break
			}
		}
	}
	n := accFreshRule(c, fns)
	c.R.Infof("STRUCT.accfresh: %d loop(s) in %d function(s) examined", n, len(fns))
	c.R.Floor("loops examined for stale accumulators", n, floor)
}

func containsStr(s, sub string) bool {
	for i := 0; i+len(sub) <= len(s); i++ {
		if s[i:i+len(sub)] == sub {
			return true
		}
	}
	return false
}
