package props

import (
	"fmt"
	"go/types"
	"os"
	"sort"
	"strings"

	"golang.org/x/tools/go/ssa"

	"rtpcheck/bounds"
	"rtpcheck/core"
	"rtpcheck/lin"
)

// BOUNDS.minlen — "the shortest input a decoder accepts". For every success return of a decoder the
// path-sensitive interpreter yields, per reaching path condition, the greatest constant c with
// `path condition |= len(input) >= c`. The set of these minima over the accepting paths of the
// function is compared with the table below (taken from the RFC's minimum sizes of each packet
// form). A length guard made stricter by one (`<` turned into `<=`) rejects a well-formed minimal
// packet and raises one of the minima; a guard made weaker is already a BOUNDS.IDX/SLC finding.
// What is decided: the minima, for all inputs; not that every well-formed longer input is accepted.

type minLenRow struct {
	fn   string
	want []int // expected set of minima over accepting paths; a single value with minOnly
	// minOnly: compare only the smallest value (decoders with loops, where the larger minima depend
	// on how the interpreter summarises the loop rather than on the format)
	minOnly bool
	why     string
}

func minLenSites(c *Ctx, fn *ssa.Function) (map[*ssa.Return]int, map[int]bool, bool) {
	var param ssa.Value
	for _, pa := range fn.Params {
		if sl, ok := pa.Type().Underlying().(*types.Slice); ok {
			if b, ok := sl.Elem().Underlying().(*types.Basic); ok && b.Kind() == types.Uint8 {
				param = pa
				break
			}
		}
	}
	if param == nil {
		return nil, nil, false
	}
	sites := map[*ssa.Return]int{}
	all := map[int]bool{}
	hooks := &bounds.Hooks{AtReturn: func(h *bounds.Helper, f *ssa.Function, ret *ssa.Return, d *bounds.Disjunct) {
		if f != fn {
			return
		}
		for _, res := range ret.Results {
			if !bounds.IsErrorType(res.Type()) {
				continue
			}
			if isNil, known := d.IsNilKnown(res); known && !isNil {
				return
			}
			if !core.IsNilConst(res) {
				if isNil, known := d.IsNilKnown(res); !known || !isNil {
					// undetermined verdict: not counted as an accepting path
					return
				}
			}
		}
		l := d.MinLen(param, 64)
		if os.Getenv("RTPCHECK_DEBUG") == "minlen" {
			fmt.Printf("  disjunct at %s: %d\n", c.Prog.Position(ret.Pos()), l)
		}
		all[l] = true
		if cur, ok := sites[ret]; !ok || l < cur {
			sites[ret] = l
		}
	}}
	rc := 16 // outcomes of helper decoders stay apart: a merge keeps only bounds both sides state literally, and 'len >= 12' is often implied, not stated
	if ks := os.Getenv("RTPCHECK_RETCAP"); ks != "" {
		fmt.Sscan(ks, &rc)
	}
	eng := bounds.New(c.Prog, bounds.Config{K: 64, MaxDepth: 7, RetCap: rc}, hooks)
	eng.AnalyzeEntry(fn)
	return sites, all, true
}

func minLenRule(c *Ctx, rows []minLenRow) int {
	p, r := c.Prog, c.R
	n := 0
	for _, row := range rows {
		fn := p.Func(row.fn)
		if fn == nil {
			missingAnchor(r, row.fn)
			continue
		}
		sites, set, ok := minLenSites(c, fn)
		if !ok {
			r.Fatalf("%s: no []byte parameter", row.fn)
			continue
		}
		var desc []string
		for ret, l := range sites {
			desc = append(desc, fmt.Sprintf("%s: %d", p.Position(ret.Pos()), l))
		}
		sort.Strings(desc)
		var got []int
		for l := range set {
			got = append(got, l)
		}
		sort.Ints(got)
		if row.minOnly && len(got) > 1 {
			got = got[:1]
		}
		okSet := len(got) == len(row.want)
		for i := range got {
			if okSet && got[i] != row.want[i] {
				okSet = false
			}
		}
		n++
		r.Add("BOUNDS.minlen", row.fn, fmt.Sprintf("shortest accepted input per accepting path = %v (%s)", row.want, row.why), p.Position(fn.Pos()), okSet && len(sites) > 0,
			fmt.Sprintf("computed minima %v; per return: %s", got, strings.Join(desc, "; ")))
	}
	return n
}

func init() {
	Registry["MINLENDUMP"] = func(c *Ctx) {
		for _, name := range strings.Split(os.Getenv("RTPCHECK_FUNCS"), ",") {
			fn := c.Prog.Func(name)
			if fn == nil {
				fmt.Println("missing", name)
				continue
			}
			sites, _, _ := minLenSites(c, fn)
			var desc []string
			for ret, l := range sites {
				desc = append(desc, fmt.Sprintf("%s=%d", c.Prog.Position(ret.Pos()), l))
			}
			sort.Strings(desc)
			fmt.Println(name, desc)
		}
	}
}

func init() {
	// debugging aid: run BOUNDS on arbitrary entries and list the obligations that are not discharged
	Registry["BOUNDSFN"] = func(c *Ctx) {
		var entries []*ssa.Function
		for _, name := range strings.Split(os.Getenv("RTPCHECK_FUNCS"), ",") {
			if fn := c.Prog.Func(name); fn != nil {
				entries = append(entries, fn)
			} else {
				fmt.Println("missing", name)
			}
		}
		var hooks *bounds.Hooks
		if tf := os.Getenv("RTPCHECK_TRACEFN"); tf != "" {
			hooks = &bounds.Hooks{AtInstr: func(h *bounds.Helper, fn *ssa.Function, in ssa.Instruction, d *bounds.Disjunct) {
				if core.FuncName(fn) != tf {
					return
				}
				if _, ok := in.(*ssa.Return); ok {
					for _, pa := range fn.Params {
						if _, isPtr := pa.Type().Underlying().(*types.Pointer); isPtr {
							if l := d.MemInt(pa, ""); l != nil {
								fmt.Printf("TRACE %s return depth %d: *%s = %s\n", c.Prog.Position(in.Pos()), h.Depth(), pa.Name(), d.Describe(lin.LE(l, lin.Const(0))))
							}
						}
					}
				}
				if call, ok := in.(*ssa.Call); ok {
					for _, a := range call.Call.Args {
						if _, isPtr := a.Type().Underlying().(*types.Pointer); isPtr {
							if l := d.MemInt(a, ""); l != nil {
								fmt.Printf("TRACE %s %s: *%s = %s\n", c.Prog.Position(in.Pos()), call.Call.Value.Name(), a.Name(), d.Describe(lin.LE(l, lin.Const(0))))
							} else {
								fmt.Printf("TRACE %s %s: *%s untracked\n", c.Prog.Position(in.Pos()), call.Call.Value.Name(), a.Name())
							}
						}
					}
				}
			}}
		}
		boundsRun(c, entries, hooks)
	}
}
