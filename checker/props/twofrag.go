package props

import (
	"go/token"
	"go/types"
	"sync"

	"golang.org/x/tools/go/ssa"

	"rtpcheck/bounds"
	"rtpcheck/core"
	"rtpcheck/lin"
)

// twoFragHooks: "a fragmented unit is split into at least two fragments" (C10, C14).
//
// A fragment loop is a loop below a payloader's Payload that (a) appends to the fragment list and (b)
// consumes a remaining amount r — an integer phi decreased by c, or a slice phi re-sliced from c — where
// the per-iteration amount c is the smaller of r and a loop-invariant cap m (a two-argument call or
// builtin taking r and m, or a phi of r and m). With such a loop the first iteration emits min(r0, m)
// bytes, so there are at least two iterations exactly when r0 > m on the edge that enters the loop. The
// path condition on that edge must entail it. Two obligations are registered per loop: r0 >= m (any
// further weakening of the fits-in-one-packet test breaks this one) and r0 > m.
// A loop whose shape is not recognised yields no obligation (reported as information by the caller
// through the floor of the rule), never a violation.
type fragLoop struct {
	head   *ssa.BasicBlock
	pre    *ssa.BasicBlock // predecessor of head outside the loop
	r0     ssa.Value       // value of the remaining amount on the entry edge (int, or slice whose len counts)
	rSlice bool
	m      ssa.Value // loop-invariant cap
	cond   ssa.Instruction
	phi    *ssa.Phi  // the remaining amount inside the loop
	c      ssa.Value // the amount consumed by one iteration
	body   map[*ssa.BasicBlock]bool
	sOr    []*ssa.BinOp // ORs of the start flag 0x80 / end flag 0x40 into a header octet of the fragment
	eOr    []*ssa.BinOp
}

func isFragListType(t types.Type) bool {
	sl, ok := t.Underlying().(*types.Slice)
	if !ok {
		return false
	}
	in, ok := sl.Elem().Underlying().(*types.Slice)
	if !ok {
		return false
	}
	b, ok := in.Elem().Underlying().(*types.Basic)
	return ok && b.Kind() == types.Uint8
}

// findFragLoops recognises the fragment loops of fn.
func findFragLoops(fn *ssa.Function) []*fragLoop {
	var out []*fragLoop
	if len(fn.Blocks) == 0 {
		return nil
	}
	for _, h := range fn.Blocks {
		// natural loop with head h: blocks that reach a back edge into h and are dominated by h
		body := map[*ssa.BasicBlock]bool{}
		for _, t := range h.Preds {
			if !h.Dominates(t) {
				continue
			}
			stack := []*ssa.BasicBlock{t}
			body[h] = true
			for len(stack) > 0 {
				x := stack[len(stack)-1]
				stack = stack[:len(stack)-1]
				if body[x] {
					continue
				}
				body[x] = true
				stack = append(stack, x.Preds...)
			}
		}
		if len(body) == 0 {
			continue
		}
		// (a) appends to a fragment list (directly, or stores through a captured list variable)
		emits := false
		for b := range body {
			for _, in := range b.Instrs {
				if c, ok := in.(*ssa.Call); ok && core.BuiltinName(c) == "append" && len(c.Call.Args) == 2 && isFragListType(c.Call.Args[0].Type()) {
					emits = true
				}
			}
		}
		if !emits {
			continue
		}
		var pre *ssa.BasicBlock
		npre := 0
		for _, p := range h.Preds {
			if !body[p] {
				pre = p
				npre++
			}
		}
		if npre != 1 {
			continue
		}
		inLoop := func(v ssa.Value) bool {
			in, ok := v.(ssa.Instruction)
			return ok && in.Block() != nil && body[in.Block()]
		}
		// (b) the consumed phi
		for _, in := range h.Instrs {
			phi, ok := in.(*ssa.Phi)
			if !ok {
				break
			}
			var r0, next ssa.Value
			for i, p := range h.Preds {
				if p == pre {
					r0 = phi.Edges[i]
				} else if next == nil {
					next = phi.Edges[i]
				} else if next != phi.Edges[i] {
					next = nil
					break
				}
			}
			if r0 == nil || next == nil {
				continue
			}
			var c ssa.Value
			rSlice := false
			switch nx := next.(type) {
			case *ssa.BinOp: // r - c
				if nx.Op == token.SUB && nx.X == phi {
					c = nx.Y
				}
			case *ssa.Slice: // r[c:]
				if nx.X == phi && nx.Low != nil && nx.High == nil {
					c = nx.Low
					rSlice = true
				}
			}
			if c == nil {
				continue
			}
			// c = min(r, m): the operands are {r or len(r)} and a loop-invariant m
			isR := func(v ssa.Value) bool {
				if v == phi {
					return true
				}
				if call, ok := v.(*ssa.Call); ok && core.BuiltinName(call) == "len" && len(call.Call.Args) == 1 && call.Call.Args[0] == phi {
					return true
				}
				return false
			}
			var ops []ssa.Value
			switch cv := c.(type) {
			case *ssa.Call:
				if len(cv.Call.Args) == 2 && !cv.Call.IsInvoke() {
					ops = cv.Call.Args
				}
			case *ssa.Phi:
				if len(cv.Edges) == 2 && inLoop(cv) {
					ops = cv.Edges
				}
			}
			if len(ops) != 2 {
				continue
			}
			var m ssa.Value
			switch {
			case isR(ops[0]) && !inLoop(ops[1]):
				m = ops[1]
			case isR(ops[1]) && !inLoop(ops[0]):
				m = ops[0]
			}
			if m == nil {
				continue
			}
			if _, isConst := m.(*ssa.Const); isConst {
				continue // a constant chunk size is not an MTU-derived cap
			}
			fl := &fragLoop{head: h, pre: pre, r0: r0, rSlice: rSlice, m: m, phi: phi, c: c, body: body}
			for bb := range body {
				for _, bi := range bb.Instrs {
					or, ok := bi.(*ssa.BinOp)
					if !ok || or.Op != token.OR {
						continue
					}
					k, isC := core.ConstInt(or.Y)
					if !isC {
						k, isC = core.ConstInt(or.X)
					}
					if !isC || (k != 0x80 && k != 0x40) {
						continue
					}
					stored := false
					for _, ref := range *or.Referrers() {
						if st, ok := ref.(*ssa.Store); ok && st.Val == ssa.Value(or) {
							if _, ok := st.Addr.(*ssa.IndexAddr); ok {
								stored = true
							}
						}
					}
					if !stored {
						continue
					}
					if k == 0x80 {
						fl.sOr = append(fl.sOr, or)
					} else {
						fl.eOr = append(fl.eOr, or)
					}
				}
			}
			for _, hi := range h.Instrs {
				if iff, ok := hi.(*ssa.If); ok {
					fl.cond = iff
					if ci, ok := iff.Cond.(ssa.Instruction); ok && ci.Pos() != token.NoPos {
						fl.cond = ci // the loop condition has a source position, the If does not
					}
				}
			}
			if fl.cond == nil {
				// rotated loop: the condition sits at the end of the body; anchor at the first body instruction with a position
				for _, hi := range h.Instrs {
					if _, isPhi := hi.(*ssa.Phi); !isPhi && hi.Pos() != token.NoPos {
						fl.cond = hi
						break
					}
				}
			}
			if fl.cond != nil {
				out = append(out, fl)
			}
			break
		}
	}
	return out
}

// twoFragHooks builds the contract for the fragment loops below the given entries. seen counts the loops whose
// entry edge was reached by the analysis.
func twoFragHooks(c *Ctx, seen map[*ssa.BasicBlock]bool) *bounds.Hooks {
	cache := map[*ssa.Function][]*fragLoop{}
	var mu sync.Mutex // entries are analysed in parallel
	return &bounds.Hooks{AtInstr: func(h *bounds.Helper, fn *ssa.Function, in ssa.Instruction, d *bounds.Disjunct) {
		mu.Lock()
		loops, ok := cache[fn]
		if !ok {
			loops = findFragLoops(fn)
			cache[fn] = loops
		}
		mu.Unlock()
		fragFlagObligations(h, in, d, loops)
		switch in.(type) {
		case *ssa.If, *ssa.Jump:
		default:
			return
		}
		for _, fl := range loops {
			if in.Block() != fl.pre {
				continue
			}
			// the edge pre -> head must be taken: for an If, only the successor that is the head counts; the
			// path condition before the branch is weaker than on the edge, which is sound for an entailment
			var r0 *lin.Lin
			if fl.rSlice {
				r0 = d.Len(fl.r0)
			} else {
				r0 = d.Int(fl.r0)
			}
			m := d.Int(fl.m)
			mu.Lock()
			seen[fl.head] = true
			mu.Unlock()
			if r0 == nil || m == nil || r0.Bad() || m.Bad() {
				h.ObligeEntry("fragment loop entered only when the unit exceeds one fragment (>= 2 fragments)", false, "remaining amount or fragment cap not tracked on the entry edge")
				continue
			}
			ge := lin.GE(r0, m)
			gt := lin.GE(r0, m.Add(lin.Const(1)))
			h.ObligeEntry("fragment loop never entered with less than one full fragment (remaining >= cap)", d.Entails(ge), d.Describe(ge))
			h.ObligeEntry("fragment loop entered only when the unit exceeds one fragment (>= 2 fragments)", d.Entails(gt), d.Describe(gt))
		}
	}}
}

// mergeHooks runs several AtInstr/AtReturn hooks side by side.
func mergeHooks(hs ...*bounds.Hooks) *bounds.Hooks {
	var list []*bounds.Hooks
	for _, h := range hs {
		if h != nil {
			list = append(list, h)
		}
	}
	if len(list) == 0 {
		return nil
	}
	if len(list) == 1 {
		return list[0]
	}
	return &bounds.Hooks{
		AtInstr: func(h *bounds.Helper, fn *ssa.Function, in ssa.Instruction, d *bounds.Disjunct) {
			for _, x := range list {
				if x.AtInstr != nil {
					x.AtInstr(h, fn, in, d)
				}
			}
		},
		AtReturn: func(h *bounds.Helper, fn *ssa.Function, ret *ssa.Return, d *bounds.Disjunct) {
			for _, x := range list {
				if x.AtReturn != nil {
					x.AtReturn(h, fn, ret, d)
				}
			}
		},
	}
}

// fragFlagObligations: "S only on the first and E only on the last fragment" (RFC 6184 5.8, RFC 7798 4.4.3)
// for the fragment loops recognised above. The start flag (0x80) may be ORed into the fragment's header only
// on a path on which the remaining amount still is what it was on entry; the end flag (0x40) only where this
// iteration consumes all that remains; and a fragment emitted without the start flag is not the first one, one
// emitted with neither flag is not the last one.
func fragFlagObligations(h *bounds.Helper, in ssa.Instruction, d *bounds.Disjunct, loops []*fragLoop) {
	for _, fl := range loops {
		if len(fl.sOr) == 0 && len(fl.eOr) == 0 {
			continue
		}
		if in.Block() == nil || !fl.body[in.Block()] {
			continue
		}
		cur := func() *lin.Lin {
			if fl.rSlice {
				return d.Len(fl.phi)
			}
			return d.Int(fl.phi)
		}
		init := func() *lin.Lin {
			if fl.rSlice {
				return d.Len(fl.r0)
			}
			return d.Int(fl.r0)
		}
		switch x := in.(type) {
		case *ssa.Store:
			or, ok := x.Val.(*ssa.BinOp)
			if !ok {
				continue
			}
			for _, s := range fl.sOr {
				if s == or {
					r, r0 := cur(), init()
					if r == nil || r0 == nil {
						h.Oblige("the start flag is set on the first fragment only", false, "remaining amount not tracked")
						continue
					}
					q := lin.EQ(r, r0)
					okS := d.Entails(q...)
					if !okS && firstIterationOnly(fl, or.Block()) {
						// guarded by a loop-carried flag that is true on the entry edge and false on every back edge: the
						// block runs in the first iteration only, where the remaining amount is the initial one by definition
						okS = true
					}
					h.Oblige("the start flag is set on the first fragment only", okS, d.Describe(q[0])+" ; "+d.Describe(q[1]))
				}
			}
			for _, e := range fl.eOr {
				if e == or && d.Has(fl.c) {
					q := lin.EQ(cur(), d.Int(fl.c))
					h.Oblige("the end flag is set on the last fragment only", d.Entails(q...), d.Describe(q[0])+" ; "+d.Describe(q[1]))
				}
			}
		case *ssa.If:
			// the complement ("no start flag => not the first fragment", "neither flag => not the last one") is
			// decided at the test that guards the flag, where the path condition is still that of one path: the test
			// must be an (in)equality whose two sides differ by exactly remaining - initial (start) or remaining -
			// consumed (end), so that its other edge carries the disequality. A test of another form is reported as
			// not decided; the flag's own obligation above still applies.
			cmp, ok := x.Cond.(*ssa.BinOp)
			for _, grp := range []struct {
				ors   []*ssa.BinOp
				what  string
				start bool
			}{{fl.sOr, "the start flag is set on every first fragment (its test is remaining == initial)", true}, {fl.eOr, "the end flag is set on every last fragment (its test is remaining == consumed)", false}} {
				for _, o := range grp.ors {
					side := -1
					for si, sb := range x.Block().Succs {
						if sb == o.Block() {
							side = si
						}
					}
					if side < 0 {
						continue
					}
					if !ok || (cmp.Op != token.EQL && cmp.Op != token.NEQ) || !d.Has(cmp.X) && !isConstVal(cmp.X) || !d.Has(cmp.Y) && !isConstVal(cmp.Y) {
						continue // another form of test: not decided here
					}
					r := cur()
					var other *lin.Lin
					if grp.start {
						other = init()
					} else if d.Has(fl.c) {
						other = d.Int(fl.c)
					}
					if r == nil || other == nil {
						continue
					}
					diff := d.Int(cmp.X).Sub(d.Int(cmp.Y))
					target := r.Sub(other)
					if !diff.Equal(target) && !diff.Equal(target.Scale(-1)) {
						continue // not a comparison of the two quantities: not decided here
					}
					setOnEqual := (cmp.Op == token.EQL) == (side == 0)
					h.ObligeAt(cmp, grp.what, setOnEqual, "the flag is set on the edge on which the two quantities differ")
				}
			}
		}
	}
}

func isConstVal(v ssa.Value) bool { _, ok := v.(*ssa.Const); return ok }

// firstIterationOnly: block b of the loop is dominated by the true edge of a test of a boolean phi of the
// loop head whose value is the constant true on the entry edge and false on every back edge
// (`first := true; for ... { if first { ...; first = false } }`, also with the reset after the test): b runs
// in the first iteration only.
func firstIterationOnly(fl *fragLoop, b *ssa.BasicBlock) bool {
	for _, in := range fl.head.Instrs {
		ph, ok := in.(*ssa.Phi)
		if !ok {
			break
		}
		if bt, isB := ph.Type().Underlying().(*types.Basic); !isB || bt.Kind() != types.Bool {
			continue
		}
		// the tests of the flag inside the loop
		var tests []*ssa.BasicBlock
		for _, blk := range fl.head.Parent().Blocks {
			if !fl.body[blk] || len(blk.Instrs) == 0 {
				continue
			}
			if iff, ok := blk.Instrs[len(blk.Instrs)-1].(*ssa.If); ok && iff.Cond == ssa.Value(ph) {
				tests = append(tests, blk)
			}
		}
		// known false at the end of block pr: on the false side of a test of the flag
		falseAt := func(pr *ssa.BasicBlock, via *ssa.BasicBlock) bool {
			for _, t := range tests {
				f := t.Succs[1]
				if pr == t && via == f {
					return true
				}
				if len(f.Preds) == 1 && f.Dominates(pr) {
					return true
				}
			}
			return false
		}
		var isFalse func(v ssa.Value, from, to *ssa.BasicBlock, seen map[ssa.Value]bool) bool
		isFalse = func(v ssa.Value, from, to *ssa.BasicBlock, seen map[ssa.Value]bool) bool {
			if c, ok := core.ConstBool(v); ok {
				return !c
			}
			if v == ssa.Value(ph) {
				return falseAt(from, to)
			}
			if p2, ok := v.(*ssa.Phi); ok {
				if seen[v] {
					return true
				}
				seen[v] = true
				for i, e := range p2.Edges {
					if !isFalse(e, p2.Block().Preds[i], p2.Block(), seen) {
						return false
					}
				}
				return true
			}
			return false
		}
		good := true
		for i, pr := range fl.head.Preds {
			if fl.body[pr] {
				if !isFalse(ph.Edges[i], pr, fl.head, map[ssa.Value]bool{}) {
					good = false
				}
			} else if v, isC := core.ConstBool(ph.Edges[i]); !isC || !v {
				good = false
			}
		}
		if !good {
			continue
		}
		for _, t := range tests {
			ts := t.Succs[0]
			if len(ts.Preds) == 1 && ts.Dominates(b) {
				return true
			}
		}
	}
	return false
}
