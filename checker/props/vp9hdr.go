package props

import (
	"errors"
	"fmt"

	"rtpcheck/casei"
	"rtpcheck/core"
)

// vp9HeaderScript: the VP9 uncompressed header (VP9 bitstream specification 6.2, the part vp9.Header decodes)
// as a read script with destinations: which input bit lands in which bit of which field, for every
// combination of the syntax predicates.
//
// The oracle is the syntax table below, written from the specification. For each of the twenty predicate
// combinations (profile 0..3; show_existing_frame; frame_type; for key frames colour space RGB or not and,
// for profiles 2 and 3, the bit-depth flag) an input is built in which the predicate bits — at the positions
// the *specification* gives them — and the frame marker and sync code are constants and every other bit is a
// named input bit. vp9.Header.Unmarshal is interpreted on it (package casei: a branch is followed only when
// the abstract value decides it, so a predicate read from another position leaves a branch undecided, which
// is reported), and every decoded field must equal, bit for bit, what the table says.
type vp9Case struct {
	profile      int
	showExisting bool
	nonKey       bool
	rgb          bool // color_space == CS_RGB (7)
	highDepth    bool // ten_or_twelve_bit (profiles 2, 3)
}

func (c vp9Case) String() string {
	s := fmt.Sprintf("profile %d", c.profile)
	switch {
	case c.showExisting:
		return s + ", show_existing_frame"
	case c.nonKey:
		return s + ", non-key frame"
	}
	s += ", key frame"
	if c.rgb {
		s += ", RGB"
	} else {
		s += ", YUV"
	}
	if c.profile >= 2 {
		if c.highDepth {
			s += ", 12 bit"
		} else {
			s += ", 10 bit"
		}
	}
	return s
}

// vp9Expect walks the syntax table for one case. It returns the fixed input bits (stream position -> value)
// and, per field, the expected bits (least significant first) as stream positions or constants.
type vp9Field struct {
	name string
	bits []casei.Bit
}

func vp9Expect(c vp9Case) (fixed map[int]bool, fields []vp9Field, total int) {
	fixed = map[int]bool{}
	pos := 0
	in := func(p int) casei.Bit { return casei.Bit{K: casei.In, Src: "s", Idx: p} }
	cst := func(b bool) casei.Bit {
		if b {
			return casei.Bit{K: casei.One}
		}
		return casei.Bit{}
	}
	constField := func(name string, v uint64, w int) {
		f := vp9Field{name: name}
		for i := 0; i < w; i++ {
			f.bits = append(f.bits, cst(v&(1<<uint(i)) != 0))
		}
		fields = append(fields, f)
	}
	fix := func(v bool) { fixed[pos] = v; pos++ }
	readField := func(name string, n int) { // n symbolic bits, most significant first in the stream
		f := vp9Field{name: name, bits: make([]casei.Bit, n)}
		for i := 0; i < n; i++ {
			f.bits[n-1-i] = in(pos)
			pos++
		}
		fields = append(fields, f)
	}
	// frame_marker f(2) = 2
	fix(true)
	fix(false)
	// profile_low_bit f(1), profile_high_bit f(1); Profile = (high << 1) + low
	fix(c.profile&1 != 0)
	fix(c.profile&2 != 0)
	constField(".Profile", uint64(c.profile), 8)
	if c.profile == 3 {
		pos++ // reserved_zero f(1)
	}
	// show_existing_frame f(1)
	fix(c.showExisting)
	constField(".ShowExistingFrame", b2u(c.showExisting), 1)
	if c.showExisting {
		readField(".FrameToShowMapIdx", 3)
		return fixed, fields, pos
	}
	// frame_type f(1), show_frame f(1), error_resilient_mode f(1)
	fix(c.nonKey)
	constField(".NonKeyFrame", b2u(c.nonKey), 1)
	readField(".ShowFrame", 1)
	readField(".ErrorResilientMode", 1)
	if c.nonKey {
		return fixed, fields, pos
	}
	// frame_sync_code: 0x49 0x83 0x42
	for _, by := range []byte{0x49, 0x83, 0x42} {
		for i := 7; i >= 0; i-- {
			fix(by&(1<<uint(i)) != 0)
		}
	}
	// color_config()
	if c.profile >= 2 {
		fix(c.highDepth) // ten_or_twelve_bit
		constField(".ColorConfig.TenOrTwelveBit", b2u(c.highDepth), 1)
		if c.highDepth {
			constField(".ColorConfig.BitDepth", 12, 8)
		} else {
			constField(".ColorConfig.BitDepth", 10, 8)
		}
	} else {
		constField(".ColorConfig.BitDepth", 8, 8)
	}
	cs := 2 // CS_BT_709
	if c.rgb {
		cs = 7 // CS_RGB
	}
	for i := 2; i >= 0; i-- {
		fix(cs&(1<<uint(i)) != 0)
	}
	constField(".ColorConfig.ColorSpace", uint64(cs), 8)
	odd := c.profile == 1 || c.profile == 3
	if !c.rgb {
		readField(".ColorConfig.ColorRange", 1)
		if odd {
			readField(".ColorConfig.SubsamplingX", 1)
			readField(".ColorConfig.SubsamplingY", 1)
			pos++ // reserved_zero
		} else {
			constField(".ColorConfig.SubsamplingX", 1, 1)
			constField(".ColorConfig.SubsamplingY", 1, 1)
		}
	} else {
		constField(".ColorConfig.ColorRange", 1, 1)
		if odd {
			constField(".ColorConfig.SubsamplingX", 0, 1)
			constField(".ColorConfig.SubsamplingY", 0, 1)
			pos++ // reserved_zero
		}
	}
	// frame_size(): frame_width_minus_1 f(16), frame_height_minus_1 f(16)
	readField(".FrameSize.FrameWidthMinus1", 16)
	readField(".FrameSize.FrameHeightMinus1", 16)
	return fixed, fields, pos
}

func b2u(b bool) uint64 {
	if b {
		return 1
	}
	return 0
}

func vp9HeaderScript(c *Ctx) int {
	p, r := c.Prog, c.R
	fnName := "codecs/vp9.(*Header).Unmarshal"
	fn := p.Func(fnName)
	if fn == nil {
		missingAnchor(r, fnName)
		return 0
	}
	var cases []vp9Case
	for prof := 0; prof < 4; prof++ {
		cases = append(cases, vp9Case{profile: prof, showExisting: true}, vp9Case{profile: prof, nonKey: true})
		for _, rgb := range []bool{false, true} {
			if prof >= 2 {
				cases = append(cases, vp9Case{profile: prof, rgb: rgb}, vp9Case{profile: prof, rgb: rgb, highDepth: true})
			} else {
				cases = append(cases, vp9Case{profile: prof, rgb: rgb})
			}
		}
	}
	n := 0
	for _, cs := range cases {
		fixed, fields, total := vp9Expect(cs)
		nbytes := (total+7)/8 + 2
		arr := &casei.Array{}
		for by := 0; by < nbytes; by++ {
			v := casei.Val{W: 8, Lo: 0, Hi: 255}
			for bit := 0; bit < 8; bit++ {
				pos := by*8 + (7 - bit)
				if fv, ok := fixed[pos]; ok {
					if fv {
						v.Bits[bit] = casei.Bit{K: casei.One}
					}
				} else {
					v.Bits[bit] = casei.Bit{K: casei.In, Src: "s", Idx: pos}
				}
			}
			arr.Elems = append(arr.Elems, casei.Normalize(v))
		}
		recv := casei.NewObj()
		m := &casei.Machine{}
		res, err := m.Run(fn, []casei.Val{{IsPtr: true, Ref: recv}, {IsSlice: true, Arr: arr, Len: nbytes}})
		n++
		what := "uncompressed header, " + cs.String() + ": every decoded field is the bit the syntax table assigns to it"
		if err != nil && errors.Is(err, casei.ErrUnsupported) {
			// the parser is written with a construct the case interpreter does not model (a table in a package
			// variable, a whole-struct copy): the row is not decided — reported, not a violation
			r.Infof("BITS.vp9hdr %s: not decided (%v)", cs.String(), err)
			continue
		}
		if err != nil {
			r.Add("BITS.vp9hdr", fnName, what, p.Position(fn.Pos()), false, "not decided: "+err.Error())
			continue
		}
		if !(res.Opaque && res.Nil) {
			r.Add("BITS.vp9hdr", fnName, what, p.Position(fn.Pos()), false, "a well-formed header of this form is rejected")
			continue
		}
		ok, detail := true, ""
		for _, f := range fields {
			v, found := lookupCell(recv, f.name)
			if !found {
				// a field never stored holds its zero value
				v = casei.Const(0, len(f.bits))
			}
			for i, want := range f.bits {
				if v.Bits[i] != want {
					ok = false
					if detail == "" {
						detail = fmt.Sprintf("%s bit %d is %s, the syntax table says %s", f.name[1:], i, v.Bits[i], want)
					}
				}
			}
			for i := len(f.bits); i < v.W && i < 64; i++ {
				if v.Bits[i].K != casei.Zero {
					ok = false
					if detail == "" {
						detail = fmt.Sprintf("%s bit %d is %s, expected 0", f.name[1:], i, v.Bits[i])
					}
				}
			}
		}
		r.Add("BITS.vp9hdr", fnName, what, p.Position(fn.Pos()), ok, detail)
	}
	_ = core.FuncName
	return n
}

// lookupCell follows a path like ".ColorConfig.BitDepth" through pointer-valued cells.
func lookupCell(o *casei.Obj, path string) (casei.Val, bool) {
	if v, ok := o.Cells[path]; ok {
		return v, true
	}
	// split at the first field that holds a pointer to another object
	for i := 1; i < len(path); i++ {
		if path[i] != '.' {
			continue
		}
		if pv, ok := o.Cells[path[:i]]; ok && pv.IsPtr && pv.Ref != nil {
			return lookupCell(pv.Ref, path[i:])
		}
	}
	return casei.Val{}, false
}
