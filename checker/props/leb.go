package props

import (
	"errors"
	"fmt"

	"golang.org/x/tools/go/ssa"

	"rtpcheck/casei"
	"rtpcheck/core"
)

// lebRules: the LEB128 routines of codecs/av1/obu, decided per size class by abstract interpretation in the
// interval x bit-provenance domain (package casei; no path is guessed, a branch the class does not decide
// makes the row undecided, which is a violation).
//
//	LEB.len    WriteToLeb128(v) has exactly k octets for 2^(7(k-1)) <= v < 2^(7k), k = 1..10 (k = 1 from 0).
//	           This is the lemma BOUNDS uses instead of expanding the writer (bounds.leb128LenLemma).
//	LEB.write  octet i carries value bits 7i..7i+6, the continuation bit is set on all octets but the last.
//	LEB.inv    ReadLeb128(WriteToLeb128(v)) = (v, k, nil) for every v below 2^32 (classes k = 1..5), also
//	           when further octets follow the encoding.
//	LEB.range  a k-octet encoding (k = 1..12, any payload bits) is read back as a value below 2^63.
//
// mode "len" runs LEB.len only (checks that merely rely on the lemma), "range" LEB.range only, "full" all.
func lebRules(c *Ctx, mode string) int {
	full := mode == "full"
	if mode == "range" {
		return lebRange(c)
	}
	p, r := c.Prog, c.R
	wr := p.Func("codecs/av1/obu.WriteToLeb128")
	rd := p.Func("codecs/av1/obu.ReadLeb128")
	if wr == nil {
		missingAnchor(r, "codecs/av1/obu.WriteToLeb128")
		return 0
	}
	n := 0
	pos := p.Position(wr.Pos())
	class := func(k int) (lo, hi uint64, nbits int) {
		nbits = 7 * k
		if nbits > 64 {
			nbits = 64
		}
		if k > 1 {
			lo = uint64(1) << uint(7*(k-1))
		}
		if 7*k >= 64 {
			hi = ^uint64(0)
		} else {
			hi = uint64(1)<<uint(7*k) - 1
		}
		return
	}
	encode := func(k int, limit32 bool) (casei.Val, error) {
		lo, hi, nb := class(k)
		if limit32 && hi > 1<<32-1 {
			hi, nb = 1<<32-1, 32
		}
		m := &casei.Machine{}
		out, err := m.Run(wr, []casei.Val{casei.Input("v", 64, nb, lo, hi)})
		if err != nil && !errors.Is(err, casei.ErrUnsupported) && k == 1 {
			// a writer that computes the size first treats 0 apart from 1..127 (no significant bit): the class is
			// split there; the zero case must yield the single octet 0, which is what the bit table says for v = 0
			z, errZ := (&casei.Machine{}).Run(wr, []casei.Val{casei.Const(0, 64)})
			nz, errN := (&casei.Machine{}).Run(wr, []casei.Val{casei.Input("v", 64, nb, 1, hi)})
			if errZ == nil && errN == nil && z.IsSlice && z.Len == 1 {
				if cv, isC := z.Arr.Elems[z.Off].IsConst(); isC && cv == 0 {
					return nz, nil
				}
			}
		}
		return out, err
	}
	for k := 1; k <= 10; k++ {
		out, err := encode(k, false)
		n++
		what := fmt.Sprintf("a value of size class %d (below 2^%d) is written in exactly %d octet(s)", k, 7*k, k)
		switch {
		case err != nil:
			r.Add("LEB.len", core.FuncName(wr), what, pos, false, "not decided: "+err.Error())
			continue
		case !out.IsSlice || out.Len != k:
			r.Add("LEB.len", core.FuncName(wr), what, pos, false, fmt.Sprintf("the result has %d octet(s)", out.Len))
			continue
		}
		r.Add("LEB.len", core.FuncName(wr), what, pos, true, "")
		if !full {
			continue
		}
		ok, detail := true, ""
		_, _, nb := class(k)
		for i := 0; i < k && ok; i++ {
			b := out.Arr.Elems[out.Off+i]
			for j := 0; j < 7; j++ {
				want := casei.Bit{}
				if 7*i+j < nb {
					want = casei.Bit{K: casei.In, Src: "v", Idx: 7*i + j}
				}
				if b.Bits[j] != want {
					ok, detail = false, fmt.Sprintf("octet %d bit %d is %s, expected %s", i, j, b.Bits[j], want)
				}
			}
			wantC := casei.Bit{K: casei.One}
			if i == k-1 {
				wantC = casei.Bit{}
			}
			if b.Bits[7] != wantC {
				ok, detail = false, fmt.Sprintf("continuation bit of octet %d is %s", i, b.Bits[7])
			}
		}
		n++
		r.Add("LEB.write", core.FuncName(wr), fmt.Sprintf("class %d: octet i carries value bits 7i..7i+6, continuation bit on all but the last", k), pos, ok, detail)
	}
	if !full {
		return n
	}
	if rd == nil {
		missingAnchor(r, "codecs/av1/obu.ReadLeb128")
		return n
	}
	for k := 1; k <= 5; k++ {
		for _, trailing := range []int{0, 2} {
			what := fmt.Sprintf("ReadLeb128(WriteToLeb128(v)) = (v, %d, nil) for class %d (v < 2^32)", k, k)
			if trailing > 0 {
				what += " with further octets behind the encoding"
			}
			n++
			out, err := encode(k, true)
			if err != nil || !out.IsSlice || out.Len != k {
				r.Add("LEB.inv", core.FuncName(rd), what, p.Position(rd.Pos()), false, "the writer's output for this class is not decided")
				continue
			}
			arr := &casei.Array{}
			for i := 0; i < k; i++ {
				arr.Elems = append(arr.Elems, out.Arr.Elems[out.Off+i])
			}
			for i := 0; i < trailing; i++ {
				arr.Elems = append(arr.Elems, casei.Input(fmt.Sprintf("x%d", i), 8, 8, 0, 255))
			}
			m := &casei.Machine{}
			res, err := m.Run(rd, []casei.Val{{IsSlice: true, Arr: arr, Len: len(arr.Elems)}})
			if err != nil && errors.Is(err, casei.ErrUnsupported) {
				r.Infof("LEB.inv class %d: not decided (%v)", k, err)
				continue
			}
			if err != nil {
				r.Add("LEB.inv", core.FuncName(rd), what, p.Position(rd.Pos()), false, "not decided: "+err.Error())
				continue
			}
			ok, detail := len(res.Tuple) == 3, ""
			if ok {
				v, cnt, e := res.Tuple[0], res.Tuple[1], res.Tuple[2]
				_, _, nb := class(k)
				if nb > 32 {
					nb = 32
				}
				for j := 0; j < 64; j++ {
					want := casei.Bit{}
					if j < nb {
						want = casei.Bit{K: casei.In, Src: "v", Idx: j}
					}
					if v.Bits[j] != want {
						ok, detail = false, fmt.Sprintf("bit %d of the value read back is %s, expected %s", j, v.Bits[j], want)
						break
					}
				}
				if c, isC := cnt.IsConst(); ok && (!isC || c != uint64(k)) {
					ok, detail = false, "the count of octets consumed is not "+fmt.Sprint(k)
				}
				if ok && !(e.Opaque && e.Nil) {
					ok, detail = false, "the error result is not nil"
				}
			} else {
				detail = "unexpected result shape"
			}
			r.Add("LEB.inv", core.FuncName(rd), what, p.Position(rd.Pos()), ok, detail)
		}
	}
	n += lebRange(c)
	return n
}

// lebRange: rule LEB.range (see lebRules).
func lebRange(c *Ctx) int {
	p, r := c.Prog, c.R
	rd := p.Func("codecs/av1/obu.ReadLeb128")
	if rd == nil {
		missingAnchor(r, "codecs/av1/obu.ReadLeb128")
		return 0
	}
	n := 0
	// LEB.range: whatever the seven payload bits of each octet are, a k-octet encoding (k = 1..12) is read back as
	// a value below 2^63, so the conversions int(value) made by the AV1 payloader, depacketizers and the VLA
	// decoder cannot produce a negative length (the assumed BOUNDS obligations "int(LEB128 value) >= 0" rest on
	// this; the pinned reader folds at most eight groups of seven bits)
	for k := 1; k <= 12; k++ {
		arr := &casei.Array{}
		for i := 0; i < k; i++ {
			arr.Elems = append(arr.Elems, casei.Octet(fmt.Sprintf("b%d", i), i < k-1))
		}
		m := &casei.Machine{}
		res, err := m.Run(rd, []casei.Val{{IsSlice: true, Arr: arr, Len: k}})
		n++
		what := fmt.Sprintf("a %d-octet encoding is read back as a value below 2^63 (int(value) is never negative)", k)
		switch {
		case err != nil && errors.Is(err, casei.ErrUnsupported):
			r.Infof("LEB.range %d octets: not decided (%v)", k, err)
		case err != nil:
			r.Add("LEB.range", core.FuncName(rd), what, p.Position(rd.Pos()), false, "not decided: "+err.Error())
		case len(res.Tuple) != 3:
			r.Add("LEB.range", core.FuncName(rd), what, p.Position(rd.Pos()), false, "unexpected result shape")
		default:
			v := res.Tuple[0]
			r.Add("LEB.range", core.FuncName(rd), what, p.Position(rd.Pos()), v.Bits[63].K == casei.Zero, "bit 63 of the value is "+v.Bits[63].String())
		}
	}
	return n
}

var _ = ssa.Value(nil)
