package props

import (
	"golang.org/x/tools/go/ssa"
)

func init() { Registry["C02"] = c02 }

// C02 — RTP parsing is memory-safe and bounded on arbitrary input.
func c02(c *Ctx) {
	p, r := c.Prog, c.R
	r.Explain = "BOUNDS: every index/slice/precondition obligation reachable from Header.Unmarshal, Packet.Unmarshal, " +
		"GetExtension, GetExtensionIDs is entailed by the dominating guards for all inputs, plus the length contracts; " +
		"OWN: decoded payload/extension values are views of the input; RESET R1: fields decoded on some path are defined " +
		"on every success path (reuse = fresh)."
	hu := p.Method("rtp", "Header", "Unmarshal")
	pu := p.Method("rtp", "Packet", "Unmarshal")
	ge := p.Method("rtp", "Header", "GetExtension")
	gi := p.Method("rtp", "Header", "GetExtensionIDs")
	for _, f := range []*ssa.Function{hu, pu, ge, gi} {
		if f == nil {
			r.Fatalf("C02 anchor function missing")
			return
		}
	}
	n := resetR1(c, hu, 0, nil)
	n += resetR1(c, pu, 0, nil)
	minLenRule(c, []minLenRow{
		{fn: "rtp.(*Header).Unmarshal", want: []int{12}, minOnly: true, why: "RFC 3550 fixed header"},
		{fn: "rtp.(*Packet).Unmarshal", want: []int{12}, minOnly: true, why: "RFC 3550 fixed header, empty payload allowed"}})
	r.Floor("decoded fields checked by RESET.R1", n, 14)
	c.wrapScope = map[string]bool{"rtp.(*Header).Unmarshal": true, "rtp.(*Packet).Unmarshal": true}
	boundsFor(c, "C02", []*ssa.Function{hu, pu, ge, gi})
	// reuse = fresh also means: nothing decoded depends on how large the receiver's buffers have grown
	r.Floor("cap() uses in the decoders", capFlowRule(c, []*ssa.Function{hu, pu}), 1)
}
