package props

import "golang.org/x/tools/go/ssa"

func init() { Registry["C04"] = c04 }

// C04 — MarshalTo honours the destination buffer contract.
func c04(c *Ctx) {
	p, r := c.Prog, c.R
	r.Explain = "BOUNDS: Header.MarshalTo / Packet.MarshalTo / Marshal never panic for any destination length and any " +
		"header state; STRUCT: the size guard dominates every write, MarshalSize and MarshalTo agree per profile, no " +
		"read-modify-write of an unwritten destination byte, every byte up to the returned count is written."
	var entries []*ssa.Function
	for _, n := range []string{"rtp.(Header).MarshalTo", "rtp.(*Packet).MarshalTo", "rtp.(Header).Marshal", "rtp.(Packet).Marshal", "rtp.(Header).MarshalSize", "rtp.(Packet).MarshalSize"} {
		f := p.Func(n)
		if f == nil {
			missingAnchor(r, n)
			continue
		}
		entries = append(entries, f)
	}
	boundsFor(c, "C04", entries)
	structC04(c)
	lenFieldRule(c)
}

var structC04 = func(c *Ctx) {}
