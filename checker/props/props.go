// Package props wires engines and rules into the twenty properties.
package props

import (
	"go/constant"

	"go/types"
	"golang.org/x/tools/go/ssa"
	"sort"
	"strings"

	"rtpcheck/bounds"

	"rtpcheck/core"
)

type Ctx struct {
	resetUndecided int // functions for which RESET.R1 was not decided (restructured)
	undecidedCTR func(fname, text string) string // contracts reported as not decided (reason) instead of as violations
	copyFillSeen int // copies checked by copyFillHooks
	Prog  *core.Program
	R     *core.Report
	Tier  string
	Verif string
	// thorough-tier bookkeeping of the BOUNDS double run
	secondPass, collectOnly bool
	cfgOverride             *bounds.Config
	thoroughOK              map[string]bool
	lemmas                  map[string]string // module functions modelled by a lemma in BOUNDS (bounds.Config.Lemmas)
	wClosedSeen             int
	c17Seen                 int
	carryNilSeen            int
	stapASeen               int
	yzSeen                  int
	lemmaEntries            map[string]bool // entries analysed with the lemmas
	lemmasUsed              map[string]bool
	modular                 map[string]*bounds.ModSpec // functions analysed as entries of their own under a precondition
	modularEntries          []*ssa.Function
	lenPairsSeen            map[ssa.Instruction]bool // length-prefix/data pairs reached by the BOUNDS run (C10, C13, C14)
	fragLoopsSeen           map[*ssa.BasicBlock]bool // fragment loops whose entry edge the BOUNDS run reached (C10, C14)
	// functions in which possibly-wrapping narrow arithmetic is reported (rule BOUNDS.WRAP)
	wrapScope map[string]bool
	// wrapShiftOnly: functions of wrapScope in which only left shifts are reported
	wrapShiftOnly map[string]bool
}

var Registry = map[string]func(*Ctx){}

func IDs() []string {
	var ids []string
	for k := range Registry {
		ids = append(ids, k)
	}
	sort.Strings(ids)
	return ids
}

func sortStrings(s []string) { sort.Strings(s) }

// missingAnchor: a function the rules are anchored in does not exist. For an exported function or
// method this is a change of the library's API and the check cannot answer (checker failure); an
// unexported helper may have been renamed, inlined or split by a refactoring, so the rows anchored in
// it are reported as not decided instead of raising an alarm.
func missingAnchor(r *core.Report, name string) {
	last := name
	if i := strings.LastIndex(name, "."); i >= 0 {
		last = name[i+1:]
	}
	if last != "" && last[0] >= 'a' && last[0] <= 'z' {
		r.Infof("anchor %s not found (unexported: renamed or inlined?): the rows anchored in it are not decided", name)
		return
	}
	r.Fatalf("anchor %s missing", name)
}

func init() {
	for name, hint := range map[string]string{
		"codecs.(*H264Packet).parseBody":                    "fuaBuffer",
		"codecs.(*VP9Packet).parsePictureID":                "PictureID",
		"codecs.(*VP9Packet).parseLayerInfo":                "",
		"codecs.(*VP9Packet).parseLayerInfoCommon":          "SID",
		"codecs.(*VP9Packet).parseLayerInfoNonFlexibleMode": "TL0PICIDX",
		"codecs.(*VP9Packet).parseRefIndices":               "PDiff",
		"codecs.(*VP9Packet).parseSSData":                   "NG",
		"codecs.(*VP9Payloader).payloadFlexible":            "",
		"codecs.(*VP9Payloader).payloadNonFlexible":         "",
		"codecs.newH265NALUHeader":                          "H265NALUHeader",
		"codecs.emitNalus":                                  "",
		"rtp.toNtpTime":                                     "",
		"rtp.toTime":                                        "Time",
	} {
		core.AnchorNames[name] = true
		if hint != "" {
			core.AnchorHints[name] = hint
		}
	}
}

// isSliceOfSlices: [][]T (a list of fragments).
func isSliceOfSlices(t types.Type) bool {
	sl, ok := t.Underlying().(*types.Slice)
	if !ok {
		return false
	}
	_, inner := sl.Elem().Underlying().(*types.Slice)
	return inner
}

// condVia resolves a branch condition that is a phi of booleans (how `a || b` and `a && b` are built
// outside an if-statement's own condition) for the edge `from` -> the phi's block: either a constant
// (known) or the operand that decides on this edge.
func condVia(cond ssa.Value, from *ssa.BasicBlock) (ssa.Value, bool, bool) {
	ph, ok := cond.(*ssa.Phi)
	if !ok || from == nil {
		return cond, false, false
	}
	for i, pred := range ph.Block().Preds {
		if pred == from && i < len(ph.Edges) {
			e := ph.Edges[i]
			if c, isC := e.(*ssa.Const); isC && c.Value != nil && c.Value.Kind() == constant.Bool {
				return e, true, constant.BoolVal(c.Value)
			}
			return e, false, false
		}
	}
	return cond, false, false
}
