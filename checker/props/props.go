// Package props wires engines and rules into the twenty properties.
package props

import (
	"sort"

	"rtpcheck/bounds"

	"rtpcheck/core"
)

type Ctx struct {
	Prog  *core.Program
	R     *core.Report
	Tier  string
	Verif string
	// thorough-tier bookkeeping of the BOUNDS double run
	secondPass, collectOnly bool
	cfgOverride             *bounds.Config
	thoroughOK              map[string]bool
	// functions in which possibly-wrapping narrow arithmetic is reported (rule BOUNDS.WRAP)
	wrapScope map[string]bool
}

var Registry = map[string]func(*Ctx){}

func IDs() []string {
	var ids []string
	for k := range Registry {
		ids = append(ids, k)
	}
	sort.Strings(ids)
	return ids
}

func sortStrings(s []string) { sort.Strings(s) }
