package props

import (
	"fmt"
	"go/token"
	"go/types"
	"rtpcheck/bounds"
	"rtpcheck/lin"
	"sort"
	"strings"

	"golang.org/x/tools/go/ssa"

	"rtpcheck/bits"
	"rtpcheck/core"
	"rtpcheck/own"
)

func init() {
	Registry["C13"] = c13
	Registry["C15"] = c15
	Registry["C16"] = c16
}

// cellSuffix finds, at any block end, a cell whose key ends in suffix and returns its vectors.
func cellsBySuffix(m *bits.Machine, suffix string) []bits.Vec {
	seen := map[string]bool{}
	var out []bits.Vec
	m.EachCell(func(k string, v bits.Vec) {
		if strings.HasSuffix(k, suffix) && !seen[v.String()] {
			seen[v.String()] = true
			out = append(out, v)
		}
	})
	return out
}

// C13 — AV1 packetization is lossless and obeys the AV1 RTP aggregation rules.
func c13(c *Ctx) {
	p, r := c.Prog, c.R
	r.Explain = "BITS: aggregation header bits read by AV1Depacketizer, AV1Packet and IsPartitionHead; OBU header and " +
		"extension header parse/marshal agree with AV1 5.3.2/5.3.3 and with each other; STRUCT: the size flag is cleared " +
		"before the transmitted header is marshalled and set before re-sizing, both sides drop exactly {temporal delimiter, " +
		"tile list}, the packet split compares both layer ids. W/length arithmetic, Z/Y chaining and the round trip are not decided. LEB.len/write/inv/range decide the LEB128 clause per size class; CTR.lenprefix, CTR.wclosed and CTR.carrylayer are linear contracts on the payloader (length prefixes, packets closed by W are full, the remembered layer is never replaced by a possibly-nil header)."
	n := 0
	row := func(fn, what string, ok bool, detail string) {
		n++
		pos := ""
		if f := p.Func(fn); f != nil {
			pos = p.Position(f.Pos())
		}
		r.Add("BITS.av1", fn, what, pos, ok, detail)
	}
	// aggregation header readers (AV1 RTP 4.4: Z Y W W N - - -)
	n += storeForms(c, "BITS.av1", "codecs.(*AV1Depacketizer).Unmarshal", [][2]string{{"Z", "$p[0].7"}, {"Y", "$p[0].6"}, {"N", "$p[0].3"}})
	if fn := p.Func("codecs.(*AV1Depacketizer).Unmarshal"); fn != nil {
		m := bits.Run(p, fn)
		row("codecs.(*AV1Depacketizer).Unmarshal", "W = payload[0] bits 5..4", hasValue(m, "0x6 $p[0].5-4"), "no value is (payload[0] & 0x30) >> 4")
	}
	n += storeForms(c, "BITS.av1", "codecs.(*AV1Packet).Unmarshal", [][2]string{{"Z", "$p[0].7"}, {"Y", "$p[0].6"}, {"N", "$p[0].3"}, {"W", "0x6 $p[0].5-4"}})
	n += resultForms(c, "BITS.av1", "codecs.(*AV1Depacketizer).IsPartitionHead", "!$p[0].7")
	// OBU header parse (AV1 5.3.2: forbidden(1) type(4) ext(1) size(1) reserved(1))
	if fn := p.Func("codecs/av1/obu.ParseOBUHeader"); fn != nil {
		m := bits.Run(p, fn)
		name := core.FuncName(fn)
		one := func(suffix, pattern string) {
			vs := cellsBySuffix(m, suffix)
			ok := len(vs) >= 1
			for _, v := range vs {
				if !vecMatches(v, pattern) {
					ok = false
				}
			}
			row(name, "header"+suffix+" = "+pattern, ok, fmt.Sprintf("computed %v", vs))
		}
		one(".Type", "0x4 $d[0].6-3")
		one(".HasSizeField", "$d[0].1")
		one(".Reserved1Bit", "$d[0].0")
		row(name, "forbidden bit (data[0] bit 7) is tested", len(branchesOn(m, "$d[0].7")) == 1, "no single branch on data[0].7")
		row(name, "extension flag (data[0] bit 2) is tested", len(branchesOn(m, "$d[0].2")) == 1, "no single branch on data[0].2")
	} else {
		r.Fatalf("anchor ParseOBUHeader missing")
	}
	if fn := p.Func("codecs/av1/obu.ParseOBUExtensionHeader"); fn != nil {
		m := bits.Run(p, fn)
		name := core.FuncName(fn)
		for _, f := range [][2]string{{".TemporalID", "0x5 param:headerData.7-5"}, {".SpatialID", "0x6 param:headerData.4-3"}, {".Reserved3Bits", "0x5 param:headerData.2-0"}} {
			vs := cellsBySuffix(m, f[0])
			row(name, "extension"+f[0]+" = "+f[1], len(vs) == 1 && vecMatches(vs[0], f[1]), fmt.Sprintf("computed %v", vs))
		}
	}
	if fn := p.Func("codecs/av1/obu.(*ExtensionHeader).Marshal"); fn != nil {
		m := bits.Run(p, fn)
		ok := len(m.Returns) == 1 && len(m.Returns[0].Results) == 1 && vecMatches(m.Returns[0].Results[0], "recv.TemporalID.2-0 recv.SpatialID.1-0 recv.Reserved3Bits.2-0")
		row(core.FuncName(fn), "byte = temporal_id(3) spatial_id(2) reserved(3)", ok, "marshalled extension header does not match")
	}
	if fn := p.Func("codecs/av1/obu.(*Header).Marshal"); fn != nil {
		m := bits.Run(p, fn)
		ok := false
		var got string
		for _, rs := range m.Returns {
			for _, k := range rs.SortedKeys() {
				if strings.HasSuffix(k, "[0]") {
					got = rs.Mem[k].String()
					ok = vecMatches(rs.Mem[k], "0 recv.Type.3-0 _ recv.HasSizeField.0 recv.Reserved1Bit.0")
				}
			}
		}
		row(core.FuncName(fn), "byte 0 = 0 type(4) ext size reserved", ok, "computed "+got)
	}
	// must-pass-through: size flag
	sizeFlagRule(c, "codecs.(*AV1Payloader).Payload", false, "transmitted OBU header has the size flag cleared")
	sizeFlagRule(c, "codecs.(*AV1Depacketizer).Unmarshal", true, "re-sized OBU header has the size flag set")
	n += 2
	// dropped types agree
	dropSet := func(fnName string) []uint64 {
		fn := p.Func(fnName)
		if fn == nil {
			missingAnchor(r, fnName)
			return nil
		}
		set := map[uint64]bool{}
		for _, b := range blocksWithCallees(fn) {
			for _, in := range b.Instrs {
				bo, ok := in.(*ssa.BinOp)
				if !ok || (bo.Op != token.EQL && bo.Op != token.NEQ) {
					continue
				}
				ld, ok := bo.X.(*ssa.UnOp)
				if !ok {
					continue
				}
				fa, ok := ld.X.(*ssa.FieldAddr)
				if !ok || core.FieldName(fa) != "Type" {
					continue
				}
				if k, ok := core.ConstInt(bo.Y); ok {
					set[uint64(k)] = true
				}
			}
		}
		var out []uint64
		for k := range set {
			out = append(out, k)
		}
		sort.Slice(out, func(i, j int) bool { return out[i] < out[j] })
		return out
	}
	dp := dropSet("codecs.(*AV1Depacketizer).Unmarshal")
	pl := dropSet("codecs.(*AV1Payloader).Payload")
	row("codecs.(*AV1Depacketizer).Unmarshal", "OBU types ignored = {temporal delimiter 2, tile list 8}", len(dp) == 2 && dp[0] == 2 && dp[1] == 8, "types compared: "+u64s(dp))
	row("codecs.(*AV1Payloader).Payload", "OBU types tested = {sequence header 1, temporal delimiter 2, tile list 8}", len(pl) == 3 && pl[0] == 1 && pl[1] == 2 && pl[2] == 8, "types compared: "+u64s(pl))
	// layer split compares both ids
	if fn := p.Func("codecs.(*AV1Payloader).Payload"); fn != nil {
		cmpd := map[string]bool{}
		for _, b := range blocksWithCallees(fn) {
			for _, in := range b.Instrs {
				bo, ok := in.(*ssa.BinOp)
				if !ok || bo.Op != token.NEQ {
					continue
				}
				fx, fy := loadedField(bo.X), loadedField(bo.Y)
				if fx != "" && fx == fy {
					cmpd[fx] = true
				}
			}
		}
		row("codecs.(*AV1Payloader).Payload", "new packet when SpatialID or TemporalID differs", cmpd["SpatialID"] && cmpd["TemporalID"], fmt.Sprintf("fields compared for inequality: %v", cmpd))
		// ... and a difference in one id alone is enough: where the two comparisons are joined by a short-circuit
		// operator (a phi with one comparison as an edge and a constant on the edge from the other comparison's
		// branch), the constant must be true (`||`); `&&` puts false there. Another way of combining them (two
		// separate ifs, a helper) has no such phi and is not decided.
		idCmp := map[ssa.Value]bool{}
		for _, b := range blocksWithCallees(fn) {
			for _, in := range b.Instrs {
				if bo, ok := in.(*ssa.BinOp); ok && bo.Op == token.NEQ {
					if fx := loadedField(bo.X); (fx == "SpatialID" || fx == "TemporalID") && fx == loadedField(bo.Y) {
						idCmp[bo] = true
					}
				}
			}
		}
		joined, disj, where := 0, true, ""
		for _, b := range blocksWithCallees(fn) {
			for _, in := range b.Instrs {
				ph, ok := in.(*ssa.Phi)
				if !ok {
					continue
				}
				hasCmp := false
				for _, e := range ph.Edges {
					if idCmp[e] {
						hasCmp = true
					}
				}
				if !hasCmp {
					continue
				}
				for i, e := range ph.Edges {
					k, isC := e.(*ssa.Const)
					if !isC || k.Value == nil || i >= len(b.Preds) {
						continue
					}
					pred := b.Preds[i]
					br, isIf := pred.Instrs[len(pred.Instrs)-1].(*ssa.If)
					if !isIf || !idCmp[br.Cond] {
						continue
					}
					joined++
					if k.Value.String() != "true" {
						disj, where = false, p.Position(br.Cond.Pos())
					}
				}
			}
		}
		if joined > 0 {
			row("codecs.(*AV1Payloader).Payload", "a difference in SpatialID alone or in TemporalID alone starts a new packet (the comparisons are joined by ||)", disj,
				"the comparison at "+where+" only counts together with the other one (&&)")
		} else {
			r.Infof("STRUCT.layersplit: the two layer-id comparisons are not joined by a short-circuit operator: the either-id clause is not decided")
		}
	}
	minLenRule(c, []minLenRow{
		{fn: "codecs.(*AV1Depacketizer).Unmarshal", want: []int{2}, minOnly: true, why: "aggregation header + >=1 octet"},
		{fn: "codecs.(*AV1Packet).Unmarshal", want: []int{2}, minOnly: true, why: "aggregation header + >=1 octet"},
		{fn: "codecs/av1/obu.ParseOBUHeader", want: []int{1, 2}, why: "OBU header, +1 with the extension flag"},
		{fn: "codecs/av1/obu.ReadLeb128", want: []int{1}, minOnly: true, why: "a one-octet LEB128 value"}})
	r.Floor("AV1 layout/structure rows", n, 15)
	lostUpdateRule(c, "/codecs", "/codecs/av1/frame", "/codecs/av1/obu")
	// a pending OBU handed to appendOBUPayload is not handed over again: after the call the variable must not
	// keep the same value on any way back to another such call (the reset `currentOBUPayload = nil` right
	// after the flush; moved into a branch, the OBU before a dropped tile list is packetized twice)
	if pf := p.Func("codecs.(*AV1Payloader).Payload"); pf != nil {
		isFlush := func(in ssa.Instruction) (*ssa.Call, ssa.Value) {
			call, ok := in.(*ssa.Call)
			if !ok || call.Call.StaticCallee() == nil || call.Call.StaticCallee().Name() != "appendOBUPayload" || len(call.Call.Args) < 3 {
				return nil, nil
			}
			return call, call.Call.Args[2]
		}
		reach := func(from, to, avoid *ssa.BasicBlock) bool {
			if from == to {
				return true
			}
			seen := map[*ssa.BasicBlock]bool{}
			stack := append([]*ssa.BasicBlock{}, from.Succs...)
			for len(stack) > 0 {
				x := stack[len(stack)-1]
				stack = stack[:len(stack)-1]
				if x == to {
					return true
				}
				if seen[x] || x == avoid {
					continue
				}
				seen[x] = true
				stack = append(stack, x.Succs...)
			}
			return false
		}
		flushArgs := map[ssa.Value]bool{}
		var flushes []*ssa.Call
		for _, b := range pf.Blocks {
			for _, in := range b.Instrs {
				if call, v := isFlush(in); call != nil {
					flushes = append(flushes, call)
					flushArgs[v] = true
				}
			}
		}
		bad := ""
		for _, call := range flushes {
			v := call.Call.Args[2]
			if v.Referrers() == nil {
				continue
			}
			// phis that still carry v on an edge the flush can precede within the same iteration
			var work []ssa.Value
			seenV := map[ssa.Value]bool{}
			for _, ref := range *v.Referrers() {
				ph, ok := ref.(*ssa.Phi)
				if !ok {
					continue
				}
				for i, e := range ph.Edges {
					if e == v && i < len(ph.Block().Preds) && reach(call.Block(), ph.Block().Preds[i], ph.Block()) {
						work = append(work, ph)
					}
				}
			}
			for len(work) > 0 {
				x := work[len(work)-1]
				work = work[:len(work)-1]
				if seenV[x] {
					continue
				}
				seenV[x] = true
				if flushArgs[x] {
					bad = p.Position(call.Pos())
				}
				if x.Referrers() != nil {
					for _, ref := range *x.Referrers() {
						if ph, ok := ref.(*ssa.Phi); ok {
							work = append(work, ph)
						}
					}
				}
			}
		}
		if len(flushes) == 0 {
			r.Infof("STRUCT.onceflushed: no direct appendOBUPayload call in AV1Payloader.Payload (moved into a closure or renamed?); rule not decided")
		} else {
			n++
			r.Add("STRUCT.onceflushed", "codecs.(*AV1Payloader).Payload", "an OBU handed to appendOBUPayload cannot reach another appendOBUPayload call", p.Position(pf.Pos()), bad == "",
				"after the call at "+bad+" the variable keeps the flushed buffer on a path back to a flush")
		}
	}
	// the deprecated frame assembler: the Z (continuation) flag concerns the first element of a packet
	// only; handing the unchanged pkt.Z to the per-element step on every iteration glues every element to
	// the kept fragment (or drops it)
	if rf := p.Func("codecs/av1/frame.(*AV1).ReadFrames"); rf != nil {
		bad := ""
		nArgs := 0
		for _, b := range rf.Blocks {
			if !inAnyLoop(b) {
				continue
			}
			for _, in := range b.Instrs {
				call, ok := in.(*ssa.Call)
				if !ok || call.Call.StaticCallee() == nil || !core.InModule(call.Call.StaticCallee()) {
					continue
				}
				for _, a := range call.Call.Args {
					bt, isB := a.Type().Underlying().(*types.Basic)
					if !isB || bt.Kind() != types.Bool {
						continue
					}
					nArgs++
					if loadedField(a) == "Z" {
						bad = p.Position(call.Pos())
					}
				}
			}
		}
		n++
		r.Add("STRUCT.firstonly", core.FuncName(rf), "the continuation flag Z is not handed unchanged to every element of the packet", p.Position(rf.Pos()), bad == "",
			"the call at "+bad+" inside the element loop receives pkt.Z itself: it holds for every element, not only the first")
	}
	var entries []*ssa.Function
	for _, nme := range []string{"codecs.(*AV1Payloader).Payload", "codecs.(*AV1Depacketizer).Unmarshal", "codecs.(*AV1Packet).Unmarshal", "codecs/av1/frame.(*AV1).ReadFrames",
		"codecs/av1/obu.ReadLeb128", "codecs/av1/obu.WriteToLeb128", "codecs/av1/obu.ParseOBUHeader", "codecs/av1/obu.(*Header).Marshal", "codecs/av1/obu.(*OBU).Marshal"} {
		if f := p.Func(nme); f != nil {
			entries = append(entries, f)
		} else {
			missingAnchor(r, nme)
		}
	}
	r.Floor("LEB128 rows (LEB.len, LEB.write, LEB.inv)", lebRules(c, "full"), 42)
	carryOrderRule(c, "codecs/av1/frame.(*AV1).ReadFrames", "obuBuffer")
	carryOrderRule(c, "codecs.(*AV1Depacketizer).Unmarshal", "buffer")
	entries = append(entries, av1Setup(c)...)
	boundsFor(c, "C13", entries)
	accFreshFor(c, 4, "codecs/av1_packet.go", "codecs/av1_depacketizer.go", "codecs/av1/")
	r.Infof("CTR.lenprefix: %d length-prefix/data pair(s) recognised and reached", len(c.lenPairsSeen))
	r.Infof("CTR.wclosed: %d path(s) that close a packet with the W field checked", c.wClosedSeen)
	r.Infof("CTR.carrylayer: %d path(s) around the payloader's loop checked", c.carryNilSeen)
	r.Infof("CTR.yz: %d path(s) that set the Y flag checked", c.yzSeen)
}

// blocksWithCallees: the blocks of fn, of its closures and of the functions of the same package it
// calls statically (transitively): a test moved into a helper is still the function's test.
func blocksWithCallees(fn *ssa.Function) []*ssa.BasicBlock {
	var out []*ssa.BasicBlock
	seen := map[*ssa.Function]bool{}
	var visit func(f *ssa.Function)
	visit = func(f *ssa.Function) {
		if f == nil || seen[f] || len(f.Blocks) == 0 {
			return
		}
		seen[f] = true
		out = append(out, f.Blocks...)
		for _, an := range f.AnonFuncs {
			visit(an)
		}
		for _, b := range f.Blocks {
			for _, in := range b.Instrs {
				if call, ok := in.(ssa.CallInstruction); ok {
					if g := call.Common().StaticCallee(); g != nil && g.Pkg != nil && fn.Pkg != nil && g.Pkg == fn.Pkg {
						visit(g)
					}
				}
			}
		}
	}
	visit(fn)
	return out
}

func loadedField(v ssa.Value) string {
	ld, ok := v.(*ssa.UnOp)
	if !ok || ld.Op != token.MUL {
		return ""
	}
	fa, ok := ld.X.(*ssa.FieldAddr)
	if !ok {
		return ""
	}
	return core.FieldName(fa)
}

// sizeFlagRule: every call to (*obu.Header).Marshal in fn is preceded, on every path, by a store
// of the constant `want` to HasSizeField of the same header.
func sizeFlagRule(c *Ctx, fnName string, want bool, what string) {
	p, r := c.Prog, c.R
	fn := p.Func(fnName)
	if fn == nil {
		missingAnchor(r, fnName)
		return
	}
	calls := 0
	for _, b := range blocksWithCallees(fn) {
		for _, in := range b.Instrs {
			call, ok := in.(*ssa.Call)
			if !ok {
				continue
			}
			callee := call.Call.StaticCallee()
			if callee == nil || core.FuncName(callee) != "codecs/av1/obu.(*Header).Marshal" {
				continue
			}
			calls++
			hdr := call.Call.Args[0]
			ok2 := false
			// the flag is set in the function that serialises the header (Unmarshal itself or a helper)
			for _, b2 := range call.Parent().Blocks {
				for _, in2 := range b2.Instrs {
					st, isSt := in2.(*ssa.Store)
					if !isSt {
						continue
					}
					fa, isFA := st.Addr.(*ssa.FieldAddr)
					if !isFA || core.FieldName(fa) != "HasSizeField" || fa.X != hdr {
						continue
					}
					if v, isC := core.ConstBool(st.Val); isC && v == want && core.Precedes(st, call) {
						// no later store of the opposite value between them in the same block
						ok2 = true
					}
				}
			}
			r.Add("STRUCT.mustpass", fnName, what, p.Position(call.Pos()), ok2, fmt.Sprintf("no store HasSizeField = %v dominates this Marshal()", want))
		}
	}
	if calls == 0 {
		r.Add("STRUCT.mustpass", fnName, what, p.Position(fn.Pos()), false, "no call to obu.Header.Marshal found")
	}
}

// ---- C15 -------------------------------------------------------------------------------------------

// C15 — Stateful depacketizers resynchronise at the next complete frame after loss.
func c15(c *Ctx) {
	r := c.R
	r.Explain = "STRUCT carry-buffer typestate: for each fragment buffer a depacketizer carries between calls, a clearing " +
		"store exists whose only guards are the format's start-of-unit predicate (H264 FU-A: S bit = payload[1] bit 7 set; " +
		"AV1: Z = payload[0] bit 7 clear, or N set) and emptiness tests of the buffer, and it executes before the buffer is " +
		"read for output or appended to. Equality with a fresh depacketizer's output is not decided."
	n := carryRule(c, "codecs.(*H264Packet).parseBody", "fuaBuffer", []startPred{{"$p[1].7", true}})
	n += carryRule(c, "codecs.(*AV1Depacketizer).Unmarshal", "buffer", []startPred{{"$p[0].7", false}, {"$p[0].3", true}})
	r.Floor("carry-buffer rule instances", n, 2)
}

type startPred struct {
	pattern  string
	polarity bool // the buffer must be cleared when the bit has this value
}

// carryRule checks the carry-buffer typestate for receiver field `field` in fn, one obligation per
// start predicate. The CFG is walked path by path with three pieces of state: what the path has
// learnt about the start marker (branches whose condition is the marker bit, in either polarity and
// however the bit reached the branch), whether the carried content has been dropped since entry
// (a store to the field of a value that is not computed from the field, or an emptiness test taken
// on its empty side), and the blocks visited. The content carried over from earlier packets may be
// consumed (appended to, copied or returned) only on paths on which the marker is known to say
// "continuation"; a consumption on a path where the marker says "start" or was never looked at, with
// the old content still there, is the violation: the next intact unit would be glued to a stale
// fragment.
func carryRule(c *Ctx, fnName, field string, preds []startPred) int {
	p, r := c.Prog, c.R
	fn := p.Func(fnName)
	if fn == nil {
		missingAnchor(r, fnName)
		return 0
	}
	// the carried buffer may be handled in a new helper method of the same receiver (the function was split):
	// the typestate is then checked in the helper that loads the field most often
	countLoads := func(f *ssa.Function) int {
		k := 0
		if len(f.Params) == 0 {
			return 0
		}
		for _, b := range f.Blocks {
			for _, in := range b.Instrs {
				if u, ok := in.(*ssa.UnOp); ok && u.Op == token.MUL {
					if fa, ok := u.X.(*ssa.FieldAddr); ok && fa.X == ssa.Value(f.Params[0]) && core.FieldName(fa) == field {
						k++
					}
				}
			}
		}
		return k
	}
	reanchored := false
	if countLoads(fn) == 0 {
		best := 0
		for _, h := range newHelpers(fn) {
			if h.Signature.Recv() == nil || fn.Signature.Recv() == nil || !types.Identical(h.Signature.Recv().Type(), fn.Signature.Recv().Type()) {
				continue
			}
			if k := countLoads(h); k > best {
				best, fn = k, h
			}
		}
		if best > 0 {
			reanchored = true
			r.Infof("STRUCT.carry %s: field %s is handled in the new helper %s; the typestate is checked there", fnName, field, core.FuncName(fn))
		}
	}
	m := bits.Run(p, fn)
	recv := fn.Params[0]
	isFieldAddr := func(v ssa.Value) bool {
		fa, ok := v.(*ssa.FieldAddr)
		return ok && fa.X == recv && core.FieldName(fa) == field
	}
	// values computed from the old content: loads of the field and what is sliced / phi-ed from them
	derived := map[ssa.Value]bool{}
	var mark func(v ssa.Value)
	mark = func(v ssa.Value) {
		if derived[v] {
			return
		}
		derived[v] = true
		refs := v.Referrers()
		if refs == nil {
			return
		}
		for _, ref := range *refs {
			switch x := ref.(type) {
			case *ssa.Slice:
				if x.X == v {
					mark(x)
				}
			case *ssa.Phi:
				mark(x)
			case *ssa.ChangeType:
				mark(x)
			case *ssa.Call:
				// append(old, ...) yields old content followed by more
				if core.BuiltinName(x) == "append" && len(x.Call.Args) > 0 && x.Call.Args[0] == v {
					mark(x)
				}
			}
		}
	}
	nLoads := 0
	for _, b := range fn.Blocks {
		for _, in := range b.Instrs {
			if u, ok := in.(*ssa.UnOp); ok && u.Op == token.MUL && isFieldAddr(u.X) {
				nLoads++
				mark(u)
			}
		}
	}
	// consumption of the old content at an instruction
	consumes := func(in ssa.Instruction) bool {
		switch x := in.(type) {
		case *ssa.Call:
			bn := core.BuiltinName(x)
			if bn == "append" || bn == "copy" {
				for _, a := range x.Call.Args {
					if derived[a] {
						return true
					}
				}
			}
		case *ssa.Return:
			for _, v := range x.Results {
				if derived[v] {
					return true
				}
			}
		case *ssa.Store:
			if derived[x.Val] && !isFieldAddr(x.Addr) {
				return true
			}
		}
		return false
	}
	n := 0
	for _, sp := range preds {
		type st struct {
			mark    int8 // 0 unknown, 1 start, 2 continuation
			dropped bool
		}
		bad := ""
		nTests, nUses := 0, 0
		seen := map[string]bool{}
		onPath := map[*ssa.BasicBlock]int{}
		var walk func(b *ssa.BasicBlock, s st)
		walk = func(b *ssa.BasicBlock, s st) {
			if bad != "" || onPath[b] >= 2 {
				return
			}
			k := fmt.Sprintf("%d|%d|%v", b.Index, s.mark, s.dropped)
			if seen[k] && onPath[b] == 0 {
				return
			}
			seen[k] = true
			onPath[b]++
			defer func() { onPath[b]-- }()
			for _, in := range b.Instrs {
				if consumes(in) {
					nUses++
					if !s.dropped && s.mark != 2 {
						why := "the start marker says start"
						if s.mark == 0 {
							why = "the start marker has not been examined"
						}
						bad = fmt.Sprintf("%s is consumed at %s on a path on which %s and the content carried over has not been dropped", field, p.Position(in.Pos()), why)
						return
					}
				}
				switch x := in.(type) {
				case *ssa.Store:
					if isFieldAddr(x.Addr) && !derived[x.Val] {
						s.dropped = true
					}
				case *ssa.If:
					cv := m.CondOf(x)
					isMark, markTrueMeansSet := false, false
					switch {
					case vecMatches(cv, sp.pattern):
						isMark, markTrueMeansSet = true, true
					case vecMatches(cv, "!"+sp.pattern):
						isMark, markTrueMeansSet = true, false
					}
					empt := isEmptinessTest(x.Cond, recv, field)
					for i, succ := range b.Succs {
						ns := s
						taken := i == 0
						if isMark {
							nTests++
							bitSet := taken == markTrueMeansSet
							if bitSet == sp.polarity {
								if ns.mark == 2 {
									continue // contradicts what the path already knows
								}
								ns.mark = 1
							} else {
								if ns.mark == 1 {
									continue
								}
								ns.mark = 2
							}
						}
						if empt {
							if bo, ok := x.Cond.(*ssa.BinOp); ok {
								emptyOnTrue := bo.Op == token.EQL || bo.Op == token.LEQ || bo.Op == token.LSS
								if taken == emptyOnTrue {
									ns.dropped = true // nothing was carried over
								}
							}
						}
						walk(succ, ns)
					}
					return
				case *ssa.Jump:
					walk(b.Succs[0], s)
					return
				case *ssa.Return:
					// a packet that starts a unit must not leave the earlier fragment behind: the
					// next continuation would be appended to it
					if s.mark == 1 && !s.dropped && len(x.Results) > 0 && core.IsNilConst(core.Resolve(x.Results[len(x.Results)-1])) {
						bad = fmt.Sprintf("the success return at %s is reached with the start marker set and the content of %s carried over from earlier packets still in place", p.Position(x.Pos()), field)
					}
					return
				case *ssa.Panic:
					return
				}
			}
		}
		walk(fn.Blocks[0], st{})
		n++
		ok := bad == "" && nTests > 0 && nUses > 0
		detail := bad
		if detail == "" && !ok {
			detail = fmt.Sprintf("%d branches on the start marker, %d consumptions of %s found (%d loads)", nTests, nUses, field, nLoads)
		}
		if !ok && nTests == 0 && !reanchored && len(newHelpers(p.Func(fnName))) > 0 {
			// no branch of the function reads the marker bit any more: it is decoded by a new helper (into a small
			// header value) and tested through that; the path rule cannot tell start from continuation
			r.Infof("STRUCT.carry %s: %s (start: %s = %v): not decided — the start marker is not tested on the payload in this function, which was restructured around new helpers", fnName, field, sp.pattern, sp.polarity)
			continue
		}
		if reanchored && !ok {
			// the helper may receive the marker as an argument instead of reading the payload: the rule cannot see it
			r.Infof("STRUCT.carry %s: %s (start: %s = %v): not decided in the helper (%s)", fnName, field, sp.pattern, sp.polarity, detail)
			continue
		}
		r.Add("STRUCT.carry", fnName, fmt.Sprintf("%s carried over is consumed only on continuation paths (start: %s = %v)", field, sp.pattern, sp.polarity), p.Position(fn.Pos()), ok, detail)
	}
	return n
}

func loopsBack(from, to *ssa.BasicBlock) bool { return to.Dominates(from) && from != to }

func isEmptySlice(v ssa.Value) bool {
	if sl, ok := v.(*ssa.Slice); ok && sl.High != nil {
		if n, ok := core.ConstInt(sl.High); ok && n == 0 {
			return true
		}
	}
	return false
}

func loadedFieldOf(v ssa.Value, recv ssa.Value) string {
	if sl, ok := v.(*ssa.Slice); ok {
		v = sl.X
	}
	ld, ok := v.(*ssa.UnOp)
	if !ok || ld.Op != token.MUL {
		return ""
	}
	fa, ok := ld.X.(*ssa.FieldAddr)
	if !ok || fa.X != recv {
		return ""
	}
	return core.FieldName(fa)
}

// isEmptinessTest: cond is len(recv.field) > 0 / != 0 / recv.field != nil.
func isEmptinessTest(cond ssa.Value, recv ssa.Value, field string) bool {
	bo, ok := cond.(*ssa.BinOp)
	if !ok {
		return false
	}
	for _, side := range []ssa.Value{bo.X, bo.Y} {
		if loadedFieldOf(side, recv) == field {
			return true
		}
		if call, ok := side.(*ssa.Call); ok && core.BuiltinName(call) == "len" && loadedFieldOf(call.Call.Args[0], recv) == field {
			return true
		}
	}
	return false
}

// ---- C16 -------------------------------------------------------------------------------------------

// C16 — Audio payloaders split losslessly; Opus is passed through.
func c16(c *Ctx) {
	p, r := c.Prog, c.R
	r.Explain = "STRUCT cursor discipline for G711/G722: every non-final fragment is make(mtu), filled from payload[:mtu], and " +
		"the cursor advances by exactly mtu; the final fragment has len(rest) and copies all of it; mtu == 0 is rejected; " +
		"OWN: Opus output is a fresh copy of the whole input; OpusPacket.Unmarshal returns the input itself and rejects " +
		"exactly nil and empty payloads; the audio mixin reports head/tail. Byte equality of the concatenation is not decided separately."
	n := 0
	for _, name := range []string{"codecs.(*G711Payloader).Payload", "codecs.(*G722Payloader).Payload"} {
		n += audioSplitRule(c, name)
	}
	n += opusRules(c)
	r.Floor("audio rule instances", n, 10)
	// the three audio payloaders hand out freshly allocated fragments and never write the input (OWN O2/O3)
	no := 0
	for _, name := range []string{"codecs.(*G711Payloader).Payload", "codecs.(*G722Payloader).Payload", "codecs.(*OpusPayloader).Payload"} {
		if f := p.Func(name); f != nil {
			res := own.Analyze(p, f)
			no += ownFreshOut(c, res)
			no += ownNoWriteInput(c, res, 2)
		}
	}
	r.Floor("audio payloader origin checks (O2/O3)", no, 6)
	var entries []*ssa.Function
	for _, nme := range []string{"codecs.(*G711Payloader).Payload", "codecs.(*G722Payloader).Payload", "codecs.(*OpusPayloader).Payload", "codecs.(*OpusPacket).Unmarshal"} {
		if f := p.Func(nme); f != nil {
			entries = append(entries, f)
		} else {
			missingAnchor(r, nme)
		}
	}
	// fragment counts and sizes must not be computed in arithmetic that can wrap (uint16 sums of a length and the MTU)
	c.wrapScope = map[string]bool{"codecs.(*G711Payloader).Payload": true, "codecs.(*G722Payloader).Payload": true}
	boundsFor(c, "C16", entries)
}

func audioSplitRule(c *Ctx, fnName string) int {
	p, r := c.Prog, c.R
	fn := p.Func(fnName)
	if fn == nil {
		missingAnchor(r, fnName)
		return 0
	}
	mtu := fn.Params[1]
	n := 0
	add := func(what string, ok bool, detail string) {
		n++
		r.Add("STRUCT.split", fnName, what, p.Position(fn.Pos()), ok, detail)
	}
	isMtu := func(v ssa.Value) bool { return core.StripConv(v) == ssa.Value(mtu) }
	var loopMake, finalMake *ssa.MakeSlice
	var advance *ssa.Slice
	var copies []*ssa.Call
	for _, b := range fn.Blocks {
		for _, in := range b.Instrs {
			switch x := in.(type) {
			case *ssa.MakeSlice:
				if inAnyLoop(b) {
					loopMake = x
				} else {
					finalMake = x
				}
			case *ssa.Slice:
				if inAnyLoop(b) && x.Low != nil && x.High == nil && isMtu(x.Low) {
					advance = x
				}
			case *ssa.Call:
				if core.BuiltinName(x) == "copy" {
					copies = append(copies, x)
				}
			}
		}
	}
	// ---- semantic contracts (independent of how the cursor is written): decided by the linear
	// interpreter at every copy and at every append of a fragment, helpers and closures included
	type verdict struct {
		ok     bool
		seen   int
		detail string
	}
	total, loopLen, posMtu := &verdict{ok: true}, &verdict{ok: true}, &verdict{ok: true}
	appendOutsideLoop := false
	fail := func(v *verdict, d string) {
		if v.ok {
			v.ok, v.detail = false, d
		}
	}
	isFragList := func(t types.Type) bool {
		sl, ok := t.Underlying().(*types.Slice)
		if !ok {
			return false
		}
		_, ok = sl.Elem().Underlying().(*types.Slice)
		return ok
	}
	hooks := &bounds.Hooks{AtInstr: func(h *bounds.Helper, f *ssa.Function, in ssa.Instruction, d *bounds.Disjunct) {
		call, ok := in.(*ssa.Call)
		if !ok {
			return
		}
		switch core.BuiltinName(call) {
		case "copy":
			total.seen++
			ld, ls := d.Len(call.Call.Args[0]), d.Len(call.Call.Args[1])
			// inside the loop the source may be the whole rest of the input (copy stops at the end of the destination and
			// the cursor then advances by the fragment's length, which the next contract fixes at mtu): the destination
			// must be filled; everywhere else source and destination have the same length
			window := true
			if sl, ok := call.Call.Args[1].(*ssa.Slice); !ok || sl.High == nil {
				window = false
			}
			if !window && inAnyLoop(call.Block()) {
				if ld == nil || ls == nil || !d.Entails(lin.LE(ld, ls)) {
					fail(total, "at "+p.Position(call.Pos())+" the destination may be longer than what is left of the input: "+d.Describe(lin.LE(ld, ls)))
				}
				return
			}
			if ld == nil || ls == nil || !d.Entails(lin.EQ(ld, ls)...) {
				fail(total, "at "+p.Position(call.Pos())+" the destination and the source window may differ in length: "+d.Describe(lin.LE(ld, ls)))
			}
		case "append":
			if len(call.Call.Args) != 2 || !isFragList(call.Call.Args[0].Type()) {
				return
			}
			m := d.Int(mtu)
			if f != fn {
				m = d.EntryInt(mtu) // the split lives in a helper: mtu is the entry's parameter
			}
			if m == nil {
				return
			}
			posMtu.seen++
			if !d.Entails(lin.GE(m, lin.Const(1))) {
				fail(posMtu, "a fragment is emitted at "+p.Position(call.Pos())+" although mtu may be 0")
			}
			if !inAnyLoop(call.Block()) {
				appendOutsideLoop = true
				return
			}
			sl, ok := call.Call.Args[1].(*ssa.Slice)
			if !ok {
				return
			}
			arr, ok := sl.X.(*ssa.Alloc)
			if !ok {
				return
			}
			for _, ref := range *arr.Referrers() {
				ia, ok := ref.(*ssa.IndexAddr)
				if !ok {
					continue
				}
				for _, r2 := range *ia.Referrers() {
					if st, ok := r2.(*ssa.Store); ok && st.Addr == ia {
						loopLen.seen++
						fl := d.Len(st.Val)
						if fl == nil || !d.Entails(lin.EQ(fl, m)...) {
							fail(loopLen, "the fragment appended in the loop at "+p.Position(call.Pos())+" need not have length mtu: "+d.Describe(lin.LE(fl, m)))
						}
					}
				}
			}
		}
	}}
	eng := bounds.New(p, bounds.Config{K: 64, MaxDepth: 7, RetCap: 8}, hooks)
	eng.AnalyzeEntry(fn)
	add("every copy fills its destination from a window of exactly the same length", total.ok && total.seen >= 2, total.detail)
	if appendOutsideLoop {
		add("every fragment appended inside the loop has length exactly mtu", loopLen.ok && loopLen.seen >= 1, loopLen.detail)
	} else {
		// a single loop that also emits the final, shorter fragment: which iteration is the last is not a
		// linear fact; the fragment <= MTU contract of C08 still applies
		r.Infof("%s: all fragments are appended inside the loop; the clause 'every non-final fragment has length mtu' is not decided for this form", fnName)
		n++ // the construct was recognised: it counts for the vacuity floor
	}
	add("no fragment is emitted when mtu == 0", posMtu.ok && posMtu.seen >= 2, posMtu.detail)
	// ---- cursor discipline of the slice-cursor idiom (payload = payload[mtu:]); when the function is
	// written differently (an integer offset, a helper) these clauses are not decided, the contracts
	// above still are
	if advance == nil || loopMake == nil {
		r.Infof("%s: slice-cursor idiom not recognised; cursor-continuity clauses not decided (contracts on copy/append lengths are)", fnName)
		return n
	}
	add("non-final fragment is make([]byte, mtu)", isMtu(loopMake.Len) && isMtu(loopMake.Cap), "fragment allocated in the loop does not have length mtu")
	okCopyLoop, okCopyFinal := false, false
	for _, cp := range copies {
		dst, src := cp.Call.Args[0], cp.Call.Args[1]
		if dst == ssa.Value(loopMake) {
			if sl, ok := src.(*ssa.Slice); ok && sl.Low == nil && sl.High != nil && isMtu(sl.High) && sl.X == advance.X {
				okCopyLoop = true
			}
			if src == advance.X {
				okCopyLoop = true // the whole cursor: copy stops after len(dst) = mtu octets
			}
		}
		if finalMake != nil && dst == ssa.Value(finalMake) {
			if ln, ok := finalMake.Len.(*ssa.Call); ok && core.BuiltinName(ln) == "len" && ln.Call.Args[0] == src {
				okCopyFinal = true
			}
		}
	}
	add("loop copy source is payload[:mtu] of the same cursor", okCopyLoop, "copy in the loop does not read payload[:mtu]")
	add("final fragment has len(rest) and copies all of rest", okCopyFinal, "final fragment is not make(len(rest)) filled by copy(o, rest)")
	// loop condition len(payload) > mtu
	okCond := false
	for _, b := range fn.Blocks {
		if len(b.Instrs) == 0 {
			continue
		}
		iff, ok := b.Instrs[len(b.Instrs)-1].(*ssa.If)
		if !ok || !inAnyLoop(b) {
			continue
		}
		if bo, ok := iff.Cond.(*ssa.BinOp); ok {
			if ln, ok := bo.X.(*ssa.Call); ok && core.BuiltinName(ln) == "len" && bo.Op == token.GTR && isMtu(bo.Y) {
				okCond = true
			}
			if ln, ok := bo.Y.(*ssa.Call); ok && core.BuiltinName(ln) == "len" && bo.Op == token.LSS && isMtu(bo.X) {
				okCond = true
			}
		}
	}
	add("loop continues exactly while len(rest) > mtu", okCond, "loop condition is not len(payload) > int(mtu)")
	return n
}

func opusRules(c *Ctx) int {
	p, r := c.Prog, c.R
	n := 0
	fnName := "codecs.(*OpusPacket).Unmarshal"
	fn := p.Func(fnName)
	if fn == nil {
		missingAnchor(r, fnName)
		return 0
	}
	pkt := fn.Params[1]
	okRet, nSucc := true, 0
	var errGuards []string
	for _, b := range fn.Blocks {
		if len(b.Instrs) == 0 {
			continue
		}
		ret, ok := b.Instrs[len(b.Instrs)-1].(*ssa.Return)
		if !ok || len(ret.Results) != 2 {
			continue
		}
		if core.IsNilConst(core.Resolve(ret.Results[1])) {
			nSucc++
			if core.Resolve(ret.Results[0]) != ssa.Value(pkt) {
				okRet = false
			}
			continue
		}
		for _, g := range core.DominatingGuards(b) {
			if g.Truth {
				errGuards = append(errGuards, core.OpString(g.Cond))
			}
		}
	}
	n++
	r.Add("STRUCT.opus", fnName, "success returns the input slice itself", p.Position(fn.Pos()), okRet && nSucc == 1, "a success return yields something other than the parameter")
	sort.Strings(errGuards)
	want := []string{"(len(packet) == 0:int)", "(packet == nil:[]byte)"}
	got := strings.Join(errGuards, " ; ")
	okG := len(errGuards) == 2 && strings.Contains(got, "== nil") && (strings.Contains(got, "== 0:int") || strings.Contains(got, "< 1:int"))
	// the same clause as a contract on the returns (independent of how the guards are written, helpers
	// included): an error return implies len(packet) == 0, a success return implies len(packet) >= 1
	nErr, nOK, undec, cBad := 0, 0, 0, ""
	hooks := &bounds.Hooks{AtReturn: func(h *bounds.Helper, f *ssa.Function, ret *ssa.Return, d *bounds.Disjunct) {
		if f != fn || len(ret.Results) != 2 {
			return
		}
		isNil, known := d.IsNilKnown(ret.Results[1])
		l := d.Len(pkt)
		switch {
		case !known || l == nil:
			undec++
		case isNil:
			nOK++
			if !d.Entails(lin.GE(l, lin.Const(1))) && cBad == "" {
				cBad = "the success return at " + p.Position(ret.Pos()) + " is reached with a payload that may be empty"
			}
		default:
			nErr++
			if !d.Entails(lin.EQ(l, lin.Const(0))...) && cBad == "" {
				cBad = "the error return at " + p.Position(ret.Pos()) + " is reached with a payload that may be non-empty"
			}
		}
	}}
	bounds.New(p, bounds.Config{K: 32, MaxDepth: 4, RetCap: 8}, hooks).AnalyzeEntry(fn)
	n++
	if undec == 0 && nErr > 0 && nOK > 0 {
		r.Add("STRUCT.opus", fnName, "rejects exactly nil and empty payloads", p.Position(fn.Pos()), cBad == "", cBad)
	} else {
		r.Add("STRUCT.opus", fnName, "rejects exactly nil and empty payloads", p.Position(fn.Pos()), okG, "error guards: "+got+" ; expected "+strings.Join(want, " ; "))
	}
	// mixin
	for _, mn := range []string{"codecs.(*audioDepacketizer).IsPartitionHead", "codecs.(*audioDepacketizer).IsPartitionTail"} {
		f := p.Func(mn)
		ok := false
		if f != nil && len(f.Blocks) == 1 {
			if ret, isRet := f.Blocks[0].Instrs[len(f.Blocks[0].Instrs)-1].(*ssa.Return); isRet && len(ret.Results) == 1 {
				if v, isC := core.ConstBool(ret.Results[0]); isC && v {
					ok = true
				}
			}
		}
		n++
		r.Add("STRUCT.opus", mn, "returns the constant true", "", ok, "audio mixin does not return constant true")
	}
	// OpusPacket embeds the mixin
	if t := p.NamedType("codecs", "OpusPacket"); t != nil {
		emb := false
		st := t.Underlying().(*types.Struct)
		for i := 0; i < st.NumFields(); i++ {
			if st.Field(i).Embedded() && st.Field(i).Name() == "audioDepacketizer" {
				emb = true
			}
		}
		n++
		r.Add("STRUCT.opus", "codecs.OpusPacket", "embeds the audio mixin", "", emb, "OpusPacket does not embed audioDepacketizer")
	}
	return n
}

// opusCountHooks: "Opus ignores the MTU and returns the input as one fragment": on every return of
// OpusPayloader.Payload the number of fragments is 1 for a non-nil input (an empty one included) and 0 for nil:
// len(result) = 1 - isnil(payload), and the fragment is as long as the input.
func opusCountHooks(c *Ctx) *bounds.Hooks {
	fn := c.Prog.Func("codecs.(*OpusPayloader).Payload")
	if fn == nil || len(fn.Params) < 3 {
		return nil
	}
	payload := fn.Params[2]
	return &bounds.Hooks{AtReturn: func(h *bounds.Helper, f *ssa.Function, ret *ssa.Return, d *bounds.Disjunct) {
		if f != fn || len(ret.Results) != 1 {
			return
		}
		nl := d.NilLin(payload)
		ln := d.Len(ret.Results[0])
		if nl == nil || ln == nil {
			h.Oblige("Opus returns exactly one fragment for every non-nil input", false, "nil-ness of the input or the fragment count is not tracked")
			return
		}
		q := lin.EQ(ln, lin.Const(1).Sub(nl))
		h.Oblige("Opus returns exactly one fragment for every non-nil input", d.Entails(q...), d.Describe(q[0])+" ; "+d.Describe(q[1]))
	}}
}
