package props

import (
	"fmt"
	"go/token"
	"go/types"
	"sort"
	"strings"

	"golang.org/x/tools/go/ssa"

	"rtpcheck/bits"
	"rtpcheck/core"
	"rtpcheck/own"
)

func init() {
	Registry["C13"] = c13
	Registry["C15"] = c15
	Registry["C16"] = c16
}

// cellSuffix finds, at any block end, a cell whose key ends in suffix and returns its vectors.
func cellsBySuffix(m *bits.Machine, suffix string) []bits.Vec {
	seen := map[string]bool{}
	var out []bits.Vec
	m.EachCell(func(k string, v bits.Vec) {
		if strings.HasSuffix(k, suffix) && !seen[v.String()] {
			seen[v.String()] = true
			out = append(out, v)
		}
	})
	return out
}

// C13 — AV1 packetization is lossless and obeys the AV1 RTP aggregation rules.
func c13(c *Ctx) {
	p, r := c.Prog, c.R
	r.Explain = "BITS: aggregation header bits read by AV1Depacketizer, AV1Packet and IsPartitionHead; OBU header and " +
		"extension header parse/marshal agree with AV1 5.3.2/5.3.3 and with each other; STRUCT: the size flag is cleared " +
		"before the transmitted header is marshalled and set before re-sizing, both sides drop exactly {temporal delimiter, " +
		"tile list}, the packet split compares both layer ids. W/length arithmetic, Z/Y chaining and the round trip are not decided."
	n := 0
	row := func(fn, what string, ok bool, detail string) {
		n++
		pos := ""
		if f := p.Func(fn); f != nil {
			pos = p.Position(f.Pos())
		}
		r.Add("BITS.av1", fn, what, pos, ok, detail)
	}
	// aggregation header readers (AV1 RTP 4.4: Z Y W W N - - -)
	n += storeForms(c, "BITS.av1", "codecs.(*AV1Depacketizer).Unmarshal", [][2]string{{"Z", "$p[0].7"}, {"Y", "$p[0].6"}, {"N", "$p[0].3"}})
	if fn := p.Func("codecs.(*AV1Depacketizer).Unmarshal"); fn != nil {
		m := bits.Run(p, fn)
		row("codecs.(*AV1Depacketizer).Unmarshal", "W = payload[0] bits 5..4", hasValue(m, "0x6 $p[0].5-4"), "no value is (payload[0] & 0x30) >> 4")
	}
	n += storeForms(c, "BITS.av1", "codecs.(*AV1Packet).Unmarshal", [][2]string{{"Z", "$p[0].7"}, {"Y", "$p[0].6"}, {"N", "$p[0].3"}, {"W", "0x6 $p[0].5-4"}})
	n += resultForms(c, "BITS.av1", "codecs.(*AV1Depacketizer).IsPartitionHead", "!$p[0].7")
	// OBU header parse (AV1 5.3.2: forbidden(1) type(4) ext(1) size(1) reserved(1))
	if fn := p.Func("codecs/av1/obu.ParseOBUHeader"); fn != nil {
		m := bits.Run(p, fn)
		name := core.FuncName(fn)
		one := func(suffix, pattern string) {
			vs := cellsBySuffix(m, suffix)
			ok := len(vs) >= 1
			for _, v := range vs {
				if !vecMatches(v, pattern) {
					ok = false
				}
			}
			row(name, "header"+suffix+" = "+pattern, ok, fmt.Sprintf("computed %v", vs))
		}
		one(".Type", "0x4 $d[0].6-3")
		one(".HasSizeField", "$d[0].1")
		one(".Reserved1Bit", "$d[0].0")
		row(name, "forbidden bit (data[0] bit 7) is tested", len(branchesOn(m, "$d[0].7")) == 1, "no single branch on data[0].7")
		row(name, "extension flag (data[0] bit 2) is tested", len(branchesOn(m, "$d[0].2")) == 1, "no single branch on data[0].2")
	} else {
		r.Fatalf("anchor ParseOBUHeader missing")
	}
	if fn := p.Func("codecs/av1/obu.ParseOBUExtensionHeader"); fn != nil {
		m := bits.Run(p, fn)
		name := core.FuncName(fn)
		for _, f := range [][2]string{{".TemporalID", "0x5 param:headerData.7-5"}, {".SpatialID", "0x6 param:headerData.4-3"}, {".Reserved3Bits", "0x5 param:headerData.2-0"}} {
			vs := cellsBySuffix(m, f[0])
			row(name, "extension"+f[0]+" = "+f[1], len(vs) == 1 && vecMatches(vs[0], f[1]), fmt.Sprintf("computed %v", vs))
		}
	}
	if fn := p.Func("codecs/av1/obu.(*ExtensionHeader).Marshal"); fn != nil {
		m := bits.Run(p, fn)
		ok := len(m.Returns) == 1 && len(m.Returns[0].Results) == 1 && vecMatches(m.Returns[0].Results[0], "recv.TemporalID.2-0 recv.SpatialID.1-0 recv.Reserved3Bits.2-0")
		row(core.FuncName(fn), "byte = temporal_id(3) spatial_id(2) reserved(3)", ok, "marshalled extension header does not match")
	}
	if fn := p.Func("codecs/av1/obu.(*Header).Marshal"); fn != nil {
		m := bits.Run(p, fn)
		ok := false
		var got string
		for _, rs := range m.Returns {
			for _, k := range rs.SortedKeys() {
				if strings.HasSuffix(k, "[0]") {
					got = rs.Mem[k].String()
					ok = vecMatches(rs.Mem[k], "0 recv.Type.3-0 _ recv.HasSizeField.0 recv.Reserved1Bit.0")
				}
			}
		}
		row(core.FuncName(fn), "byte 0 = 0 type(4) ext size reserved", ok, "computed "+got)
	}
	// must-pass-through: size flag
	sizeFlagRule(c, "codecs.(*AV1Payloader).Payload", false, "transmitted OBU header has the size flag cleared")
	sizeFlagRule(c, "codecs.(*AV1Depacketizer).Unmarshal", true, "re-sized OBU header has the size flag set")
	n += 2
	// dropped types agree
	dropSet := func(fnName string) []uint64 {
		fn := p.Func(fnName)
		if fn == nil {
			r.Fatalf("anchor %s missing", fnName)
			return nil
		}
		set := map[uint64]bool{}
		for _, b := range fn.Blocks {
			for _, in := range b.Instrs {
				bo, ok := in.(*ssa.BinOp)
				if !ok || (bo.Op != token.EQL && bo.Op != token.NEQ) {
					continue
				}
				ld, ok := bo.X.(*ssa.UnOp)
				if !ok {
					continue
				}
				fa, ok := ld.X.(*ssa.FieldAddr)
				if !ok || core.FieldName(fa) != "Type" {
					continue
				}
				if k, ok := core.ConstInt(bo.Y); ok {
					set[uint64(k)] = true
				}
			}
		}
		var out []uint64
		for k := range set {
			out = append(out, k)
		}
		sort.Slice(out, func(i, j int) bool { return out[i] < out[j] })
		return out
	}
	dp := dropSet("codecs.(*AV1Depacketizer).Unmarshal")
	pl := dropSet("codecs.(*AV1Payloader).Payload")
	row("codecs.(*AV1Depacketizer).Unmarshal", "OBU types ignored = {temporal delimiter 2, tile list 8}", len(dp) == 2 && dp[0] == 2 && dp[1] == 8, "types compared: "+u64s(dp))
	row("codecs.(*AV1Payloader).Payload", "OBU types tested = {sequence header 1, temporal delimiter 2, tile list 8}", len(pl) == 3 && pl[0] == 1 && pl[1] == 2 && pl[2] == 8, "types compared: "+u64s(pl))
	// layer split compares both ids
	if fn := p.Func("codecs.(*AV1Payloader).Payload"); fn != nil {
		cmpd := map[string]bool{}
		for _, b := range fn.Blocks {
			for _, in := range b.Instrs {
				bo, ok := in.(*ssa.BinOp)
				if !ok || bo.Op != token.NEQ {
					continue
				}
				fx, fy := loadedField(bo.X), loadedField(bo.Y)
				if fx != "" && fx == fy {
					cmpd[fx] = true
				}
			}
		}
		row("codecs.(*AV1Payloader).Payload", "new packet when SpatialID or TemporalID differs", cmpd["SpatialID"] && cmpd["TemporalID"], fmt.Sprintf("fields compared for inequality: %v", cmpd))
	}
	minLenRule(c, []minLenRow{
		{fn: "codecs.(*AV1Depacketizer).Unmarshal", want: []int{2}, minOnly: true, why: "aggregation header + >=1 octet"},
		{fn: "codecs.(*AV1Packet).Unmarshal", want: []int{2}, minOnly: true, why: "aggregation header + >=1 octet"},
		{fn: "codecs/av1/obu.ParseOBUHeader", want: []int{1, 2}, why: "OBU header, +1 with the extension flag"},
		{fn: "codecs/av1/obu.ReadLeb128", want: []int{1}, minOnly: true, why: "a one-octet LEB128 value"}})
	r.Floor("AV1 layout/structure rows", n, 20)
	var entries []*ssa.Function
	for _, nme := range []string{"codecs.(*AV1Payloader).Payload", "codecs.(*AV1Depacketizer).Unmarshal", "codecs.(*AV1Packet).Unmarshal", "codecs/av1/frame.(*AV1).ReadFrames",
		"codecs/av1/obu.ReadLeb128", "codecs/av1/obu.WriteToLeb128", "codecs/av1/obu.ParseOBUHeader", "codecs/av1/obu.(*Header).Marshal"} {
		if f := p.Func(nme); f != nil {
			entries = append(entries, f)
		} else {
			r.Fatalf("anchor %s missing", nme)
		}
	}
	boundsFor(c, "C13", entries)
}

func loadedField(v ssa.Value) string {
	ld, ok := v.(*ssa.UnOp)
	if !ok || ld.Op != token.MUL {
		return ""
	}
	fa, ok := ld.X.(*ssa.FieldAddr)
	if !ok {
		return ""
	}
	return core.FieldName(fa)
}

// sizeFlagRule: every call to (*obu.Header).Marshal in fn is preceded, on every path, by a store
// of the constant `want` to HasSizeField of the same header.
func sizeFlagRule(c *Ctx, fnName string, want bool, what string) {
	p, r := c.Prog, c.R
	fn := p.Func(fnName)
	if fn == nil {
		r.Fatalf("anchor %s missing", fnName)
		return
	}
	calls := 0
	for _, b := range fn.Blocks {
		for _, in := range b.Instrs {
			call, ok := in.(*ssa.Call)
			if !ok {
				continue
			}
			callee := call.Call.StaticCallee()
			if callee == nil || core.FuncName(callee) != "codecs/av1/obu.(*Header).Marshal" {
				continue
			}
			calls++
			hdr := call.Call.Args[0]
			ok2 := false
			for _, b2 := range fn.Blocks {
				for _, in2 := range b2.Instrs {
					st, isSt := in2.(*ssa.Store)
					if !isSt {
						continue
					}
					fa, isFA := st.Addr.(*ssa.FieldAddr)
					if !isFA || core.FieldName(fa) != "HasSizeField" || fa.X != hdr {
						continue
					}
					if v, isC := core.ConstBool(st.Val); isC && v == want && core.Precedes(st, call) {
						// no later store of the opposite value between them in the same block
						ok2 = true
					}
				}
			}
			r.Add("STRUCT.mustpass", fnName, what, p.Position(call.Pos()), ok2, fmt.Sprintf("no store HasSizeField = %v dominates this Marshal()", want))
		}
	}
	if calls == 0 {
		r.Add("STRUCT.mustpass", fnName, what, p.Position(fn.Pos()), false, "no call to obu.Header.Marshal found")
	}
}

// ---- C15 -------------------------------------------------------------------------------------------

// C15 — Stateful depacketizers resynchronise at the next complete frame after loss.
func c15(c *Ctx) {
	r := c.R
	r.Explain = "STRUCT carry-buffer typestate: for each fragment buffer a depacketizer carries between calls, a clearing " +
		"store exists whose only guards are the format's start-of-unit predicate (H264 FU-A: S bit = payload[1] bit 7 set; " +
		"AV1: Z = payload[0] bit 7 clear, or N set) and emptiness tests of the buffer, and it executes before the buffer is " +
		"read for output or appended to. Equality with a fresh depacketizer's output is not decided."
	n := carryRule(c, "codecs.(*H264Packet).parseBody", "fuaBuffer", []startPred{{"$p[1].7", true}})
	n += carryRule(c, "codecs.(*AV1Depacketizer).Unmarshal", "buffer", []startPred{{"$p[0].7", false}, {"$p[0].3", true}})
	r.Floor("carry-buffer rule instances", n, 3)
}

type startPred struct {
	pattern  string
	polarity bool // the buffer must be cleared when the bit has this value
}

// carryRule checks the typestate rule for receiver field `field` in fn. One obligation per start
// predicate.
func carryRule(c *Ctx, fnName, field string, preds []startPred) int {
	p, r := c.Prog, c.R
	fn := p.Func(fnName)
	if fn == nil {
		r.Fatalf("anchor %s missing", fnName)
		return 0
	}
	m := bits.Run(p, fn)
	recv := fn.Params[0]
	// uses: loads of the field that are not nil/len tests only
	var firstUse ssa.Instruction
	var clears []*ssa.Store
	for _, b := range fn.Blocks {
		for _, in := range b.Instrs {
			switch x := in.(type) {
			case *ssa.Store:
				fa, ok := x.Addr.(*ssa.FieldAddr)
				if ok && fa.X == recv && core.FieldName(fa) == field && (core.IsNilConst(x.Val) || isEmptySlice(x.Val)) {
					clears = append(clears, x)
				}
			}
		}
	}
	// accumulating uses: append(load field, ...) or copy from load field
	var uses []ssa.Instruction
	for _, b := range fn.Blocks {
		for _, in := range b.Instrs {
			call, ok := in.(*ssa.Call)
			if !ok {
				continue
			}
			bn := core.BuiltinName(call)
			if bn != "append" && bn != "copy" {
				continue
			}
			for _, a := range call.Call.Args {
				if loadedFieldOf(a, recv) == field {
					uses = append(uses, call)
				}
			}
		}
	}
	_ = firstUse
	n := 0
	for _, sp := range preds {
		ok := false
		detail := fmt.Sprintf("%d clearing stores, %d uses; none is guarded exactly by the start predicate %s=%v", len(clears), len(uses), sp.pattern, sp.polarity)
		for _, st := range clears {
			gs := core.DominatingGuards(st.Block())
			hasPred, clean := false, true
			// guards shared with every use are context (codec dispatch, length checks), not conditions
			// of the clearing itself
			contextual := func(g core.Guard) bool {
				for _, u := range uses {
					found := false
					for _, ug := range core.DominatingGuards(u.Block()) {
						if ug.Cond == g.Cond && ug.Truth == g.Truth {
							found = true
						}
					}
					if !found {
						return false
					}
				}
				return len(uses) > 0
			}
			for _, g := range gs {
				iff := g.At.Instrs[len(g.At.Instrs)-1].(*ssa.If)
				cv := m.CondOf(iff)
				switch {
				case vecMatches(cv, sp.pattern) && g.Truth == sp.polarity:
					hasPred = true
				case vecMatches(cv, "!"+sp.pattern) && g.Truth == !sp.polarity:
					hasPred = true
				case isEmptinessTest(g.Cond, recv, field):
				case contextual(g):
				default:
					clean = false
				}
			}
			if !hasPred || !clean {
				continue
			}
			// executes before every accumulating use: no use can reach the clearing store's block first
			before := true
			for _, u := range uses {
				if u.Block() != st.Block() && core.Reachable(u.Block())[st.Block()] && !loopsBack(u.Block(), st.Block()) {
					before = false
				}
				if u.Block() == st.Block() && core.InstrIndex(u) < core.InstrIndex(st) {
					before = false
				}
			}
			// the start test must lie on every path to a success return of the same arm (a path that
			// never looks at the start marker cannot honour it)
			testBlock := st.Block()
			for _, g := range gs {
				iff := g.At.Instrs[len(g.At.Instrs)-1].(*ssa.If)
				if cv := m.CondOf(iff); vecMatches(cv, sp.pattern) || vecMatches(cv, "!"+sp.pattern) {
					testBlock = g.At
				}
			}
			var ctx []core.Guard
			for _, g := range core.DominatingGuards(testBlock) {
				ctx = append(ctx, g)
			}
			for _, b := range fn.Blocks {
				if len(b.Instrs) == 0 {
					continue
				}
				ret, isRet := b.Instrs[len(b.Instrs)-1].(*ssa.Return)
				if !isRet || len(ret.Results) == 0 || !core.IsNilConst(core.Resolve(ret.Results[len(ret.Results)-1])) {
					continue
				}
				sameArm := true
				rg := core.DominatingGuards(b)
				for _, g := range ctx {
					found := false
					for _, x := range rg {
						if x.Cond == g.Cond && x.Truth == g.Truth {
							found = true
						}
					}
					if !found {
						sameArm = false
					}
				}
				if sameArm && len(ctx) > 0 && !testBlock.Dominates(b) {
					before = false
					detail = fmt.Sprintf("the success return at %s is reachable without evaluating the start test", p.Position(ret.Pos()))
				}
			}
			// on the start edge itself, every path must reach the clearing store before it can return
			for _, g := range gs {
				iff := g.At.Instrs[len(g.At.Instrs)-1].(*ssa.If)
				cv := m.CondOf(iff)
				if !(vecMatches(cv, sp.pattern) || vecMatches(cv, "!"+sp.pattern)) {
					continue
				}
				start := g.At.Succs[0]
				if !g.Truth {
					start = g.At.Succs[1]
				}
				seen := map[*ssa.BasicBlock]bool{}
				stack := []*ssa.BasicBlock{start}
				for len(stack) > 0 {
					x := stack[len(stack)-1]
					stack = stack[:len(stack)-1]
					if seen[x] || x == st.Block() {
						continue
					}
					seen[x] = true
					if len(x.Instrs) > 0 {
						if ret, isRet := x.Instrs[len(x.Instrs)-1].(*ssa.Return); isRet && len(ret.Results) > 0 && core.IsNilConst(core.Resolve(ret.Results[len(ret.Results)-1])) {
							before = false
							detail = fmt.Sprintf("with the start marker set, the success return at %s is reachable without clearing %s", p.Position(ret.Pos()), field)
						}
					}
					// a path on which the buffer was found empty needs no clearing
					if len(x.Instrs) > 0 {
						if xi, isIf := x.Instrs[len(x.Instrs)-1].(*ssa.If); isIf && isEmptinessTest(xi.Cond, recv, field) {
							if bo, ok := xi.Cond.(*ssa.BinOp); ok {
								switch bo.Op {
								case token.GTR, token.NEQ:
									stack = append(stack, x.Succs[0])
									continue
								case token.EQL:
									stack = append(stack, x.Succs[1])
									continue
								}
							}
						}
					}
					stack = append(stack, x.Succs...)
				}
			}
			if before && len(uses) > 0 {
				ok = true
			}
		}
		n++
		r.Add("STRUCT.carry", fnName, fmt.Sprintf("%s cleared when %s = %v before it is extended", field, sp.pattern, sp.polarity), p.Position(fn.Pos()), ok, detail)
	}
	return n
}

func loopsBack(from, to *ssa.BasicBlock) bool { return to.Dominates(from) && from != to }

func isEmptySlice(v ssa.Value) bool {
	if sl, ok := v.(*ssa.Slice); ok && sl.High != nil {
		if n, ok := core.ConstInt(sl.High); ok && n == 0 {
			return true
		}
	}
	return false
}

func loadedFieldOf(v ssa.Value, recv ssa.Value) string {
	if sl, ok := v.(*ssa.Slice); ok {
		v = sl.X
	}
	ld, ok := v.(*ssa.UnOp)
	if !ok || ld.Op != token.MUL {
		return ""
	}
	fa, ok := ld.X.(*ssa.FieldAddr)
	if !ok || fa.X != recv {
		return ""
	}
	return core.FieldName(fa)
}

// isEmptinessTest: cond is len(recv.field) > 0 / != 0 / recv.field != nil.
func isEmptinessTest(cond ssa.Value, recv ssa.Value, field string) bool {
	bo, ok := cond.(*ssa.BinOp)
	if !ok {
		return false
	}
	for _, side := range []ssa.Value{bo.X, bo.Y} {
		if loadedFieldOf(side, recv) == field {
			return true
		}
		if call, ok := side.(*ssa.Call); ok && core.BuiltinName(call) == "len" && loadedFieldOf(call.Call.Args[0], recv) == field {
			return true
		}
	}
	return false
}

// ---- C16 -------------------------------------------------------------------------------------------

// C16 — Audio payloaders split losslessly; Opus is passed through.
func c16(c *Ctx) {
	p, r := c.Prog, c.R
	r.Explain = "STRUCT cursor discipline for G711/G722: every non-final fragment is make(mtu), filled from payload[:mtu], and " +
		"the cursor advances by exactly mtu; the final fragment has len(rest) and copies all of it; mtu == 0 is rejected; " +
		"OWN: Opus output is a fresh copy of the whole input; OpusPacket.Unmarshal returns the input itself and rejects " +
		"exactly nil and empty payloads; the audio mixin reports head/tail. Byte equality of the concatenation is not decided separately."
	n := 0
	for _, name := range []string{"codecs.(*G711Payloader).Payload", "codecs.(*G722Payloader).Payload"} {
		n += audioSplitRule(c, name)
	}
	n += opusRules(c)
	r.Floor("audio rule instances", n, 14)
	// the three audio payloaders hand out freshly allocated fragments and never write the input (OWN O2/O3)
	no := 0
	for _, name := range []string{"codecs.(*G711Payloader).Payload", "codecs.(*G722Payloader).Payload", "codecs.(*OpusPayloader).Payload"} {
		if f := p.Func(name); f != nil {
			res := own.Analyze(p, f)
			no += ownFreshOut(c, res)
			no += ownNoWriteInput(c, res, 2)
		}
	}
	r.Floor("audio payloader origin checks (O2/O3)", no, 6)
	var entries []*ssa.Function
	for _, nme := range []string{"codecs.(*G711Payloader).Payload", "codecs.(*G722Payloader).Payload", "codecs.(*OpusPayloader).Payload", "codecs.(*OpusPacket).Unmarshal"} {
		if f := p.Func(nme); f != nil {
			entries = append(entries, f)
		} else {
			r.Fatalf("anchor %s missing", nme)
		}
	}
	boundsFor(c, "C16", entries)
}

func audioSplitRule(c *Ctx, fnName string) int {
	p, r := c.Prog, c.R
	fn := p.Func(fnName)
	if fn == nil {
		r.Fatalf("anchor %s missing", fnName)
		return 0
	}
	mtu := fn.Params[1]
	n := 0
	add := func(what string, ok bool, detail string) {
		n++
		r.Add("STRUCT.split", fnName, what, p.Position(fn.Pos()), ok, detail)
	}
	isMtu := func(v ssa.Value) bool { return core.StripConv(v) == ssa.Value(mtu) }
	var loopMake, finalMake *ssa.MakeSlice
	var advance *ssa.Slice
	var copies []*ssa.Call
	for _, b := range fn.Blocks {
		for _, in := range b.Instrs {
			switch x := in.(type) {
			case *ssa.MakeSlice:
				if inAnyLoop(b) {
					loopMake = x
				} else {
					finalMake = x
				}
			case *ssa.Slice:
				if inAnyLoop(b) && x.Low != nil && x.High == nil && isMtu(x.Low) {
					advance = x
				}
			case *ssa.Call:
				if core.BuiltinName(x) == "copy" {
					copies = append(copies, x)
				}
			}
		}
	}
	add("non-final fragment is make([]byte, mtu)", loopMake != nil && isMtu(loopMake.Len) && isMtu(loopMake.Cap), "fragment allocated in the loop does not have length mtu")
	add("cursor advances by exactly mtu (payload = payload[mtu:])", advance != nil, "no re-slice payload[mtu:] in the loop")
	okCopyLoop, okCopyFinal := false, false
	for _, cp := range copies {
		dst, src := cp.Call.Args[0], cp.Call.Args[1]
		if loopMake != nil && dst == ssa.Value(loopMake) {
			if sl, ok := src.(*ssa.Slice); ok && sl.Low == nil && sl.High != nil && isMtu(sl.High) && advance != nil && sl.X == advance.X {
				okCopyLoop = true
			}
		}
		if finalMake != nil && dst == ssa.Value(finalMake) {
			if ln, ok := finalMake.Len.(*ssa.Call); ok && core.BuiltinName(ln) == "len" && ln.Call.Args[0] == src {
				okCopyFinal = true
			}
		}
	}
	add("loop copy source is payload[:mtu] of the same cursor", okCopyLoop, "copy in the loop does not read payload[:mtu]")
	add("final fragment has len(rest) and copies all of rest", okCopyFinal, "final fragment is not make(len(rest)) filled by copy(o, rest)")
	// loop condition len(payload) > mtu
	okCond := false
	for _, b := range fn.Blocks {
		if len(b.Instrs) == 0 {
			continue
		}
		iff, ok := b.Instrs[len(b.Instrs)-1].(*ssa.If)
		if !ok || !inAnyLoop(b) {
			continue
		}
		if bo, ok := iff.Cond.(*ssa.BinOp); ok {
			if ln, ok := bo.X.(*ssa.Call); ok && core.BuiltinName(ln) == "len" && bo.Op == token.GTR && isMtu(bo.Y) {
				okCond = true
			}
			if ln, ok := bo.Y.(*ssa.Call); ok && core.BuiltinName(ln) == "len" && bo.Op == token.LSS && isMtu(bo.X) {
				okCond = true
			}
		}
	}
	add("loop continues exactly while len(rest) > mtu", okCond, "loop condition is not len(payload) > int(mtu)")
	// mtu == 0 guard before the loop
	okGuard := false
	for _, b := range fn.Blocks {
		for _, in := range b.Instrs {
			if bo, ok := in.(*ssa.BinOp); ok && bo.Op == token.EQL && isMtu(bo.X) {
				if k, ok := core.ConstInt(bo.Y); ok && k == 0 && !inAnyLoop(b) {
					okGuard = true
				}
			}
		}
	}
	add("mtu == 0 is rejected before the loop", okGuard, "no mtu == 0 test before the loop")
	return n
}

func opusRules(c *Ctx) int {
	p, r := c.Prog, c.R
	n := 0
	fnName := "codecs.(*OpusPacket).Unmarshal"
	fn := p.Func(fnName)
	if fn == nil {
		r.Fatalf("anchor %s missing", fnName)
		return 0
	}
	pkt := fn.Params[1]
	okRet, nSucc := true, 0
	var errGuards []string
	for _, b := range fn.Blocks {
		if len(b.Instrs) == 0 {
			continue
		}
		ret, ok := b.Instrs[len(b.Instrs)-1].(*ssa.Return)
		if !ok || len(ret.Results) != 2 {
			continue
		}
		if core.IsNilConst(core.Resolve(ret.Results[1])) {
			nSucc++
			if core.Resolve(ret.Results[0]) != ssa.Value(pkt) {
				okRet = false
			}
			continue
		}
		for _, g := range core.DominatingGuards(b) {
			if g.Truth {
				errGuards = append(errGuards, core.OpString(g.Cond))
			}
		}
	}
	n++
	r.Add("STRUCT.opus", fnName, "success returns the input slice itself", p.Position(fn.Pos()), okRet && nSucc == 1, "a success return yields something other than the parameter")
	sort.Strings(errGuards)
	want := []string{"(len(packet) == 0:int)", "(packet == nil:[]byte)"}
	got := strings.Join(errGuards, " ; ")
	okG := len(errGuards) == 2 && strings.Contains(got, "== nil") && (strings.Contains(got, "== 0:int") || strings.Contains(got, "< 1:int"))
	n++
	r.Add("STRUCT.opus", fnName, "rejects exactly nil and empty payloads", p.Position(fn.Pos()), okG, "error guards: "+got+" ; expected "+strings.Join(want, " ; "))
	// mixin
	for _, mn := range []string{"codecs.(*audioDepacketizer).IsPartitionHead", "codecs.(*audioDepacketizer).IsPartitionTail"} {
		f := p.Func(mn)
		ok := false
		if f != nil && len(f.Blocks) == 1 {
			if ret, isRet := f.Blocks[0].Instrs[len(f.Blocks[0].Instrs)-1].(*ssa.Return); isRet && len(ret.Results) == 1 {
				if v, isC := core.ConstBool(ret.Results[0]); isC && v {
					ok = true
				}
			}
		}
		n++
		r.Add("STRUCT.opus", mn, "returns the constant true", "", ok, "audio mixin does not return constant true")
	}
	// OpusPacket embeds the mixin
	if t := p.NamedType("codecs", "OpusPacket"); t != nil {
		emb := false
		st := t.Underlying().(*types.Struct)
		for i := 0; i < st.NumFields(); i++ {
			if st.Field(i).Embedded() && st.Field(i).Name() == "audioDepacketizer" {
				emb = true
			}
		}
		n++
		r.Add("STRUCT.opus", "codecs.OpusPacket", "embeds the audio mixin", "", emb, "OpusPacket does not embed audioDepacketizer")
	}
	return n
}
