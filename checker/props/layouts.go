package props

import (
	"golang.org/x/tools/go/ssa"

	"rtpcheck/core"
)

// fragment-header tables, MSB first; "$n" is the NAL unit being fragmented, "_" unconstrained.
var (
	// RFC 6184 5.8: FU indicator F|NRI|Type=28, FU header S|E|R=0|Type
	h264FUA = []string{"0 $n[0].6-5 1 1 1 0 0", "_ _ 0 $n[0].4-0"}
	// RFC 7798 4.4.3: PayloadHdr = F | Type=49 | LayerID | TID taken from the unit, FU header S|E|FuType
	h265FU = []string{"$n[0].7 1 1 0 0 0 1 $n[0].0", "$n[1].7-0", "_ _ $n[0].6-1"}
	// RFC 7741 4.2: X|R=0|N=0|S|R=0|PID=0 ; X byte I|L=0|T=0|K=0|RSV=0
	vp8Desc = []string{"_ 0 0 _ 0 0 0 0", "_ 0 0 0 0 0 0 0"}
	// VP9 RTP payload 4.2, flexible mode as emitted here: I=1 P=0 L=0 F=1 B E V=0 Z=0 ; M=1 + 15-bit picture id
	vp9Flex = []string{"1 0 0 1 _ _ 0 0", "1 pictureID.14-8", "pictureID.7-0"}
	// non-flexible: I=1 P L=0 F=0 B E V Z=1 ; picture id ; SS byte N_S=0 Y G 0 0 0 (only with V)
	vp9NonFlex = []string{"1 _ 0 0 _ _ _ 1", "1 pictureID.14-8", "pictureID.7-0", "0 0 0 _ _ 0 0 0"}
)

// fragmentLayout checks the header bytes of the fragment buffer(s) a payloader emits from a loop.
func fragmentLayout(c *Ctx, fnName string, table []string, what, prefix string, wantBuffers int) int {
	fn := c.Prog.Func(fnName)
	if fn == nil {
		missingAnchor(c.R, fnName)
		return 0
	}
	es := loopEmits(c, fn)
	if len(es) < wantBuffers && movedFragmentLoop(c, fn) {
		// the fragment loop was moved into a helper function: the header octets are built from that helper's
		// parameters, which this function-local table cannot name: not decided, not a violation
		c.R.Infof("BITS.frag %s: the fragment loop lives in a helper of %s; its header table is not decided", what, core.FuncName(fn))
		return -1
	}
	c.R.Add("BITS.frag", core.FuncName(fn), what+": fragment buffer found", c.Prog.Position(fn.Pos()), len(es) >= wantBuffers, "no fragment buffer allocated in a loop and appended to the result")
	n := 0
	for _, e := range es {
		n += checkBytes(c, "BITS.frag", e, what, table, prefix)
	}
	return n
}

// movedFragmentLoop: a static callee (same module) of fn or of its closures allocates a buffer in a loop and
// appends it to a [][]byte.
func movedFragmentLoop(c *Ctx, fn *ssa.Function) bool {
	seen := map[*ssa.Function]bool{}
	var visit func(f *ssa.Function, depth int) bool
	visit = func(f *ssa.Function, depth int) bool {
		if seen[f] || depth > 3 {
			return false
		}
		seen[f] = true
		for _, b := range f.Blocks {
			for _, in := range b.Instrs {
				call, ok := in.(*ssa.Call)
				if !ok {
					continue
				}
				cal := call.Call.StaticCallee()
				if cal == nil || !core.InModule(cal) || len(cal.Blocks) == 0 {
					continue
				}
				if len(loopEmits(c, cal)) > 0 || visit(cal, depth+1) {
					return true
				}
			}
		}
		for _, a := range f.AnonFuncs {
			if visit(a, depth) {
				return true
			}
		}
		return false
	}
	return visit(fn, 0)
}
