package props

import (
	"rtpcheck/core"
)

// fragment-header tables, MSB first; "$n" is the NAL unit being fragmented, "_" unconstrained.
var (
	// RFC 6184 5.8: FU indicator F|NRI|Type=28, FU header S|E|R=0|Type
	h264FUA = []string{"0 $n[0].6-5 1 1 1 0 0", "_ _ 0 $n[0].4-0"}
	// RFC 7798 4.4.3: PayloadHdr = F | Type=49 | LayerID | TID taken from the unit, FU header S|E|FuType
	h265FU = []string{"$n[0].7 1 1 0 0 0 1 $n[0].0", "$n[1].7-0", "_ _ $n[0].6-1"}
	// RFC 7741 4.2: X|R=0|N=0|S|R=0|PID=0 ; X byte I|L=0|T=0|K=0|RSV=0
	vp8Desc = []string{"_ 0 0 _ 0 0 0 0", "_ 0 0 0 0 0 0 0"}
	// VP9 RTP payload 4.2, flexible mode as emitted here: I=1 P=0 L=0 F=1 B E V=0 Z=0 ; M=1 + 15-bit picture id
	vp9Flex = []string{"1 0 0 1 _ _ 0 0", "1 pictureID.14-8", "pictureID.7-0"}
	// non-flexible: I=1 P L=0 F=0 B E V Z=1 ; picture id ; SS byte N_S=0 Y G 0 0 0 (only with V)
	vp9NonFlex = []string{"1 _ 0 0 _ _ _ 1", "1 pictureID.14-8", "pictureID.7-0", "0 0 0 _ _ 0 0 0"}
)

// fragmentLayout checks the header bytes of the fragment buffer(s) a payloader emits from a loop.
func fragmentLayout(c *Ctx, fnName string, table []string, what, prefix string, wantBuffers int) int {
	fn := c.Prog.Func(fnName)
	if fn == nil {
		missingAnchor(c.R, fnName)
		return 0
	}
	es := loopEmits(c, fn)
	c.R.Add("BITS.frag", core.FuncName(fn), what+": fragment buffer found", c.Prog.Position(fn.Pos()), len(es) >= wantBuffers, "no fragment buffer allocated in a loop and appended to the result")
	n := 0
	for _, e := range es {
		n += checkBytes(c, "BITS.frag", e, what, table, prefix)
	}
	return n
}
