package props

import (
	"fmt"

	"golang.org/x/tools/go/ssa"

	"rtpcheck/bits"
	"rtpcheck/core"
)

// codecSpec is the specification table of one fixed-size extension codec (written from the
// specification documents, not from the code). Bytes and fields are MSB first.
type codecSpec struct {
	typ string
	// Marshal: output bytes in terms of receiver fields, per output length
	out map[int][]string
	// Unmarshal: decoded fields in terms of rawData bytes
	in map[string]string
	// extra64: a 64-bit big-endian quantity decoded into a local cell (AbsCaptureTime offset)
	extraCell string
}

var c17Specs = []codecSpec{
	{typ: "AudioLevelExtension", // RFC 6464: |V| level(7) |
		out: map[int][]string{1: {"Voice.0 Level.6-0"}},
		in:  map[string]string{"Level": "0 rawData[0].6-0", "Voice": "rawData[0].7"}},
	{typ: "TransportCCExtension", // transport-wide-cc draft: 16-bit big-endian sequence number
		out: map[int][]string{2: {"TransportSequence.15-8", "TransportSequence.7-0"}},
		in:  map[string]string{"TransportSequence": "rawData[0].7-0 rawData[1].7-0"}},
	{typ: "PlayoutDelayExtension", // playout-delay: MIN(12) MAX(12)
		out: map[int][]string{3: {"MinDelay.11-4", "MinDelay.3-0 MaxDelay.11-8", "MaxDelay.7-0"}},
		in:  map[string]string{"MinDelay": "0x4 rawData[0].7-0 rawData[1].7-4", "MaxDelay": "0x4 rawData[1].3-0 rawData[2].7-0"}},
	{typ: "AbsSendTimeExtension", // abs-send-time: 24-bit big-endian 6.18 fixed point
		out: map[int][]string{3: {"Timestamp.23-16", "Timestamp.15-8", "Timestamp.7-0"}},
		in:  map[string]string{"Timestamp": "0x40 rawData[0].7-0 rawData[1].7-0 rawData[2].7-0"}},
	{typ: "AbsCaptureTimeExtension", // abs-capture-time: UQ32.32 timestamp (+ optional Q32.32 offset), big-endian
		out: map[int][]string{
			8: {"Timestamp.63-56", "Timestamp.55-48", "Timestamp.47-40", "Timestamp.39-32", "Timestamp.31-24", "Timestamp.23-16", "Timestamp.15-8", "Timestamp.7-0"},
			16: {"Timestamp.63-56", "Timestamp.55-48", "Timestamp.47-40", "Timestamp.39-32", "Timestamp.31-24", "Timestamp.23-16", "Timestamp.15-8", "Timestamp.7-0",
				"*EstimatedCaptureClockOffset.63-56", "*EstimatedCaptureClockOffset.55-48", "*EstimatedCaptureClockOffset.47-40", "*EstimatedCaptureClockOffset.39-32",
				"*EstimatedCaptureClockOffset.31-24", "*EstimatedCaptureClockOffset.23-16", "*EstimatedCaptureClockOffset.15-8", "*EstimatedCaptureClockOffset.7-0"},
		},
		in:        map[string]string{"Timestamp": "rawData[0].7-0 rawData[1].7-0 rawData[2].7-0 rawData[3].7-0 rawData[4].7-0 rawData[5].7-0 rawData[6].7-0 rawData[7].7-0"},
		extraCell: "rawData[8].7-0 rawData[9].7-0 rawData[10].7-0 rawData[11].7-0 rawData[12].7-0 rawData[13].7-0 rawData[14].7-0 rawData[15].7-0"},
}

// successReturn: the error result (last result of error type) is the nil constant.
func successReturn(rs *bits.RetState) bool {
	res := rs.Ret.Results
	if len(res) == 0 {
		return true
	}
	last := res[len(res)-1]
	if _, isErr := last.Type().Underlying().(interface{ NumMethods() int }); isErr {
		return core.IsNilConst(core.Resolve(last))
	}
	return true
}

func c17Bits(c *Ctx) int {
	p, r := c.Prog, c.R
	n := 0
	for _, sp := range c17Specs {
		ma := p.Method("rtp", sp.typ, "Marshal")
		um := p.Method("rtp", sp.typ, "Unmarshal")
		if ma == nil || um == nil {
			r.Fatalf("BITS: rtp.%s Marshal/Unmarshal missing", sp.typ)
			continue
		}
		// ---- writer
		mm := bits.Run(p, ma)
		fname := core.FuncName(ma)
		seenLen := map[int]bool{}
		for _, rs := range splitReturns(p, ma, mm, func(rs *bits.RetState) bool {
			_, ok := sp.out[len(outBytes(rs, 0))]
			return !successReturn(rs) || ok
		}) {
			mm := rs.Machine
			if !successReturn(rs) {
				// an error return must not hand out bytes
				if ob := outBytes(rs, 0); len(ob) > 0 {
					r.Add("BITS.L1", fname, "error return yields no encoding", p.Position(rs.Ret.Pos()), false, "a non-nil error is returned together with bytes")
				}
				continue
			}
			ob := outBytes(rs, 0)
			spec, ok := sp.out[len(ob)]
			n++
			if !ok && len(ob) == 0 {
				// the encoding is built by a helper that returns the slice: its octets are not cells of this function
				addOrUndecided(c, "BITS.L1", fname, "output length is one of the specified sizes", p.Position(rs.Ret.Pos()), false,
					fmt.Sprintf("the octets of the returned slice are not tracked; specification sizes: %v", keysOf(sp.out)), ma)
				for l := range sp.out {
					seenLen[l] = seenLen[l] || len(newHelpers(ma)) > 0
				}
				continue
			}
			r.Add("BITS.L1", fname, fmt.Sprintf("output length %d is one of the specified sizes", len(ob)), p.Position(rs.Ret.Pos()), ok,
				fmt.Sprintf("encoder emits %d bytes; specification sizes: %v", len(ob), keysOf(sp.out)))
			if !ok {
				continue
			}
			seenLen[len(ob)] = true
			// bits of one-bit fields that the path to this return has tested (`if a.Voice { return
			// []byte{0x80 | level} }`): a constant at the place of such a bit is that bit
			known := map[string]bits.Kind{}
			for _, g := range core.DominatingGuards(rs.Ret.Block()) {
				iff, isIf := g.At.Instrs[len(g.At.Instrs)-1].(*ssa.If)
				if !isIf {
					continue
				}
				cv := mm.CondOf(iff)
				if len(cv) == 1 && (cv[0].K == bits.In || cv[0].K == bits.Not) {
					truth := g.Truth
					if cv[0].K == bits.Not {
						truth = !truth
					}
					k := bits.Zero
					if truth {
						k = bits.One
					}
					known[fmt.Sprintf("%s.%d", cv[0].Src, cv[0].J)] = k
				}
			}
			for k := range ob {
				n++
				got := ob[k]
				if len(known) > 0 {
					if sp, err := parseSpec(spec[k], "recv."); err == nil && len(sp) == len(got) {
						got = append(bits.Vec(nil), got...)
						for i := range got {
							want := sp[i].b
							if want.K == bits.In && (got[i].K == bits.Zero || got[i].K == bits.One) && known[fmt.Sprintf("%s.%d", want.Src, want.J)] == got[i].K {
								if _, tested := known[fmt.Sprintf("%s.%d", want.Src, want.J)]; tested {
									got[i] = want
								}
							}
						}
					}
				}
				checkVec(c, "BITS.L1", fname, fmt.Sprintf("out(%d)[%d]", len(ob), k), p.Position(rs.Ret.Pos()), got, spec[k], "recv.")
			}
		}
		for l := range sp.out {
			if !seenLen[l] {
				r.Add("BITS.L1", fname, fmt.Sprintf("an encoding of %d bytes exists", l), p.Position(ma.Pos()), false, "no success return emits this size")
			}
		}
		// ---- reader
		um2 := bits.Run(p, um)
		uname := core.FuncName(um)
		nSucc := 0
		for _, rs := range um2.Returns {
			if !successReturn(rs) {
				continue
			}
			nSucc++
			for _, f := range sortedKeys(sp.in) {
				got, has := rs.Mem["recv."+f]
				n++
				if !has {
					addOrUndecided(c, "BITS.L2", uname, "field "+f+" = "+sp.in[f], p.Position(rs.Ret.Pos()), false, "field is not written on this success path", um)
					continue
				}
				checkVec(c, "BITS.L2", uname, "field "+f, p.Position(rs.Ret.Pos()), got, sp.in[f], "")
			}
		}
		if sp.extraCell != "" {
			spv, _ := parseSpec(sp.extraCell, "")
			found := false
			um2.EachCell(func(_ string, v bits.Vec) {
				if ok, _ := matchSpec(v, spv); ok {
					found = true
				}
			})
			n++
			addOrUndecided(c, "BITS.L2", uname, "optional 64-bit offset = big-endian bytes 8..15", p.Position(um.Pos()), found, "no cell holds the big-endian value of rawData[8:16]", um)
		}
		if nSucc == 0 && len(newHelpers(um)) > 0 {
			r.Infof("BITS.L2 %s: not decided — no success return of its own (the decoding goes through new helper(s))", uname)
		} else if nSucc == 0 {
			r.Fatalf("BITS: %s has no success return", uname)
		}
	}
	return n
}

// splitReturns: the return states of fn; when some state is not good (an output whose size depends on
// a branch) and the function branches on an input bit, the states of the two runs that fix that bit
// (which together cover every execution) are used instead, provided all of them are good.
func splitReturns(p *core.Program, fn *ssa.Function, mm *bits.Machine, good func(*bits.RetState) bool) []*bits.RetState {
	all := func(rs []*bits.RetState) bool {
		for _, r := range rs {
			if !good(r) {
				return false
			}
		}
		return len(rs) > 0
	}
	if all(mm.Returns) {
		return mm.Returns
	}
	for _, bit := range mm.BranchBits() {
		t := bits.RunForced(p, fn, nil, map[bits.Bit]bool{bit: true})
		f := bits.RunForced(p, fn, nil, map[bits.Bit]bool{bit: false})
		if all(t.Returns) && all(f.Returns) {
			return append(append([]*bits.RetState(nil), t.Returns...), f.Returns...)
		}
	}
	return mm.Returns
}

func keysOf(m map[int][]string) []int {
	var ks []int
	for k := range m {
		ks = append(ks, k)
	}
	return ks
}

var _ = ssa.Value(nil)
