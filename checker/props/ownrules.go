package props

import (
	"fmt"
	"go/types"
	"sort"
	"strings"

	"golang.org/x/tools/go/ssa"

	"rtpcheck/core"
	"rtpcheck/own"
)

// payloaders lists (type, Payload method) for every module type implementing rtp.Payloader.
func payloaders(c *Ctx) (out []*ssa.Function) {
	p := c.Prog
	n := p.NamedType("rtp", "Payloader")
	if n == nil {
		c.R.Fatalf("anchor rtp.Payloader not found")
		return nil
	}
	for _, t := range p.Implementers(n.Underlying().(*types.Interface)) {
		m := p.MethodOf(t, "Payload")
		if m == nil {
			c.R.Fatalf("Payload method of %s not found", core.TypeName(t))
			continue
		}
		out = append(out, core.Unwrap(m))
	}
	return out
}

// depacketizers lists the module types implementing rtp.Depacketizer.
func depacketizers(c *Ctx) []*types.Named {
	n := c.Prog.NamedType("rtp", "Depacketizer")
	if n == nil {
		c.R.Fatalf("anchor rtp.Depacketizer not found")
		return nil
	}
	return c.Prog.Implementers(n.Underlying().(*types.Interface))
}

func objList(objs []*own.Obj) string {
	var s []string
	seen := map[string]bool{}
	for _, o := range objs {
		if !seen[o.ID] {
			seen[o.ID] = true
			s = append(s, o.ID)
		}
	}
	sort.Strings(s)
	return strings.Join(s, ", ")
}

// ownNoWriteInput (O3): no store / copy destination / append base may be memory reachable from
// parameter `pi` (the caller's input buffer).
func ownNoWriteInput(c *Ctx, res *own.Result, pi int) int {
	p, r := c.Prog, c.R
	n := 0
	for _, w := range res.Writes {
		var bad []*own.Obj
		for _, o := range w.Targs {
			if o.RootParam() == pi || o.Kind == own.KUnknown {
				bad = append(bad, o)
			}
		}
		n++
		text := p.TextAt(w.Instr.Pos(), w.Kind)
		r.Add("OWN.O3", core.FuncName(w.Fn), w.Kind+" "+text, p.Position(w.Instr.Pos()), len(bad) == 0,
			"destination may be the caller's input: "+objList(bad))
	}
	return n
}

// ownFreshOut (O2): every element of the returned [][]byte is memory allocated by the call.
func ownFreshOut(c *Ctx, res *own.Result) int {
	p, r := c.Prog, c.R
	fname := core.FuncName(res.Entry)
	byPath := map[string][]*own.Obj{}
	for _, rs := range res.Returns {
		for _, rc := range rs.Reach {
			byPath[rc.Path] = append(byPath[rc.Path], rc.Obj)
		}
	}
	n := 0
	for _, path := range []string{"", "[]"} {
		var bad []*own.Obj
		for _, o := range byPath[path] {
			if o.Kind != own.KAlloc && o.Kind != own.KNil {
				bad = append(bad, o)
			}
		}
		n++
		what := "returned slice"
		if path == "[]" {
			what = "returned fragments"
		}
		r.Add("OWN.O2", fname, what+" are freshly allocated", p.Position(res.Entry.Pos()), len(bad) == 0,
			fmt.Sprintf("%d distinct origins; not fresh: %s", len(byPath[path]), objList(bad)))
	}
	return n
}

// ownNoRetain (O1): at exit, no receiver field (optionally restricted to `fields`) may point into
// memory reachable from parameter pi.
func ownNoRetain(c *Ctx, res *own.Result, recvIdx, pi int, fields map[string]bool) int {
	p, r := c.Prog, c.R
	fname := core.FuncName(res.Entry)
	recv := res.Params[recvIdx]
	if recv == nil {
		return 0
	}
	pt, ok := res.Entry.Params[recvIdx].Type().Underlying().(*types.Pointer)
	if !ok {
		return 0
	}
	st, ok := pt.Elem().Underlying().(*types.Struct)
	if !ok {
		return 0
	}
	n := 0
	for i := 0; i < st.NumFields(); i++ {
		f := st.Field(i)
		if !own.HasRefs(f.Type()) {
			continue
		}
		if fields != nil && !fields[f.Name()] {
			continue
		}
		v := res.LoadField(recv, "."+f.Name(), f.Type())
		var bad []*own.Obj
		for _, rc := range res.ReachOf(v, f.Type()) {
			if rc.Obj.RootParam() == pi || rc.Obj.Kind == own.KUnknown {
				bad = append(bad, rc.Obj)
			}
		}
		n++
		r.Add("OWN.O1", fname, "retained state ."+f.Name()+" does not alias the input", p.Position(res.Entry.Pos()),
			len(bad) == 0, "may point into: "+objList(bad))
	}
	return n
}

// ownNoEscape: no value derived from parameter pi is handed to a callee the analysis cannot see.
func ownNoEscape(c *Ctx, res *own.Result, pi int) {
	p, r := c.Prog, c.R
	for _, e := range res.Escapes {
		bad := false
		var walk func(v *own.Val)
		walk = func(v *own.Val) {
			if v == nil {
				return
			}
			for l := range v.Ptr {
				if l.O.RootParam() == pi {
					bad = true
				}
			}
			for _, f := range v.Flds {
				walk(f)
			}
		}
		walk(e.Val)
		if bad {
			r.Add("OWN.escape", core.FuncName(e.Fn), "input passed to "+e.To, p.Position(e.Instr.Pos()), false,
				"a value derived from the input buffer escapes to code outside the analysis")
		}
	}
}
