package props

import (
	"os"
	"fmt"
	"go/token"
	"go/types"
	"sort"
	"strings"

	"golang.org/x/tools/go/ssa"

	"rtpcheck/core"

	"rtpcheck/bits"
)

func init() {
	Registry["C10"] = c10
	Registry["C11"] = c11
	Registry["C12"] = c12
}

// C10 — H264 packetization is lossless and RFC 6184-shaped.
func c10(c *Ctx) {
	p, r := c.Prog, c.R
	r.Explain = "BITS: FU-A indicator/header bytes emitted by the payloader, the header rebuilt by the depacketizer, the " +
		"S/E tests and IsPartitionHead agree with the RFC 6184 5.3/5.7/5.8 tables for all unit headers; BOUNDS: payloader " +
		"and depacketizer never panic, >= 2 FU-A fragments. Reassembly equality over NAL sequences is not decided. CTR: at least two FU-A fragments, S/E set only on and on every first/last fragment, STAP-A size prefixes equal the length of the unit that follows."
	n := fragmentLayout(c, "codecs.(*H264Payloader).Payload", h264FUA, "FU-A", "", 1)
	movedH264 := n < 0
	if movedH264 {
		n = 0
	}
	// reader
	pb := "codecs.(*H264Packet).parseBody"
	fn := p.Func(pb)
	if fn == nil {
		missingAnchor(r, pb)
		return
	}
	m := bits.Run(p, fn)
	chk := func(what string, ok bool, detail string) {
		n++
		r.Add("BITS.reader", pb, what, p.Position(fn.Pos()), ok, detail)
	}
	chk("rebuilt NAL header = NRI of payload[0] | type of payload[1]", hasValue(m, "0 $p[0].6-5 $p[1].4-0"), "no value is payload[0]&0x60 | payload[1]&0x1F")
	chk("end test reads the E bit (payload[1] bit 6)", len(branchesOn(m, "$p[1].6")) == 1, "no single branch on payload[1].6")
	chk("start test reads the S bit (payload[1] bit 7)", len(branchesOn(m, "$p[1].7")) >= 1, "no branch on payload[1].7")
	types := cmpConsts(m, "0 0 0 $p[0].4-0")
	okT := false
	for _, t := range types {
		if t == 24 {
			okT = true
		}
	}
	chk("unit type = payload[0] bits 4..0, compared with STAP-A 24 and FU-A 28", okT && contains(types, 28), "type constants compared: "+u64s(types))
	n += resultForms(c, "BITS.reader", "codecs.(*H264Packet).IsPartitionHead", "$p[1].7")
	// IsPartitionHead type test
	if f := p.Func("codecs.(*H264Packet).IsPartitionHead"); f != nil {
		mh := bits.Run(p, f)
		ts := cmpConsts(mh, "0 0 0 $p[0].4-0")
		n++
		r.Add("BITS.reader", "codecs.(*H264Packet).IsPartitionHead", "FU types 28/29 tested on payload[0] bits 4..0", p.Position(f.Pos()),
			len(ts) == 2 && ts[0] == 28 && ts[1] == 29, "type constants compared on the masked byte: "+u64s(ts))
	}
	minLenRule(c, []minLenRow{{fn: "codecs.(*H264Packet).parseBody", want: []int{1, 2}, why: "a one-byte NAL unit; STAP-A/FU-A need the 2 header octets and an FU payload may be empty (RFC 6184 5.8)"}})
	// payloader dispatch on the unit type: only equalities, and only with AUD(9), filler(12), SPS(7), PPS(8)
	// (RFC 6184 packetization: AUD and filler data may be dropped, nothing else)
	if pf := p.Func("codecs.(*H264Payloader).Payload"); pf != nil {
		for _, anon := range pf.AnonFuncs {
			if len(anon.Params) != 1 {
				continue
			}
			ma := bits.Run(p, anon)
			var eq []uint64
			var other []string
			seen := map[uint64]bool{}
			for _, ci := range ma.Cmps {
				if !vecMatches(ci.Vec, "0 0 0 $p[0].4-0") {
					continue
				}
				if ci.Op == token.EQL || ci.Op == token.NEQ {
					if !seen[ci.Const] {
						seen[ci.Const] = true
						eq = append(eq, ci.Const)
					}
				} else {
					other = append(other, fmt.Sprintf("%s %d", ci.Op, ci.Const))
				}
			}
			sort.Slice(eq, func(i, j int) bool { return eq[i] < eq[j] })
			sort.Strings(other)
			n++
			r.Add("BITS.reader", "codecs.(*H264Payloader).Payload", "unit-type dispatch of the payloader: equality tests with {7,8,9,12} only (dropped types: AUD 9, filler 12)",
				p.Position(anon.Pos()), len(other) == 0 && len(eq) == 4 && eq[0] == 7 && eq[1] == 8 && eq[2] == 9 && eq[3] == 12,
				"type tests: == "+u64s(eq)+" ; range tests: "+stringsJoin(other))
		}
	}
	// nothing is emitted for an access unit delimiter or filler unit, whatever else is pending: on every
	// path of the per-unit callback that reaches an append of a fragment, the type has been compared with
	// 9 and with 12 and found different (the drop test comes before the STAP-A flush of held parameter sets)
	if pf := p.Func("codecs.(*H264Payloader).Payload"); pf != nil {
		for _, anon := range pf.AnonFuncs {
			if len(anon.Params) != 1 {
				continue
			}
			ma := bits.Run(p, anon)
			typeConst := func(cond ssa.Value) (uint64, bool, bool) { // const, equality?, is a type test
				ci, ok := ma.Cmps[cond]
				if !ok || !vecMatches(ci.Vec, "0 0 0 $p[0].4-0") {
					return 0, false, false
				}
				return ci.Const, ci.Op == token.EQL, ci.Op == token.EQL || ci.Op == token.NEQ
			}
			bad := ""
			type st struct{ not9, not12 bool }
			seen := map[string]bool{}
			var walk func(b, from *ssa.BasicBlock, s st)
			walk = func(b, from *ssa.BasicBlock, s st) {
				fi := -1
				if from != nil {
					fi = from.Index
				}
				key := fmt.Sprintf("%d|%d|%v|%v", b.Index, fi, s.not9, s.not12)
				if seen[key] || bad != "" {
					return
				}
				seen[key] = true
				for _, in := range b.Instrs {
					switch x := in.(type) {
					case *ssa.Call:
						if core.BuiltinName(x) == "append" && len(x.Call.Args) == 2 {
							if isSliceOfSlices(x.Call.Args[0].Type()) && !(s.not9 && s.not12) {
								bad = p.Position(x.Pos())
								return
							}
						}
					case *ssa.If:
						// `a || b` in a case is built as a phi of the constant true and b: resolve it for the edge taken
						cond, constKnown, constVal := condVia(x.Cond, from)
						k, isEq, isType := typeConst(cond)
						for i, succ := range b.Succs {
							if constKnown && (i == 0) != constVal {
								continue
							}
							ns := s
							if !constKnown && isType && (k == 9 || k == 12) {
								differs := (i == 1) == isEq // false edge of ==, true edge of !=
								if differs {
									if k == 9 {
										ns.not9 = true
									} else {
										ns.not12 = true
									}
								}
							}
							walk(succ, b, ns)
						}
						return
					case *ssa.Jump:
						walk(b.Succs[0], b, s)
						return
					}
				}
			}
			if os.Getenv("RTPCHECK_DEBUG") == "drop" {
				anon.WriteTo(os.Stdout)
			}
			walk(anon.Blocks[0], nil, st{})
			n++
			r.Add("STRUCT.drop", "codecs.(*H264Payloader).Payload", "no fragment is appended before the unit type has been found to be neither AUD (9) nor filler (12)", p.Position(anon.Pos()), bad == "",
				"the append at "+bad+" is reachable on a path that has not excluded the types 9 and 12")
		}
	}
	if !movedH264 {
		r.Floor("H264 layout rows", n, 7)
	}
	var entries []*ssa.Function
	for _, nme := range []string{"codecs.(*H264Payloader).Payload", "codecs.(*H264Packet).Unmarshal", "codecs.(*H264Packet).IsPartitionHead"} {
		if f := p.Func(nme); f != nil {
			entries = append(entries, f)
		}
	}
	boundsFor(c, "C10", entries)
	accFreshFor(c, 2, "codecs/h264_packet.go")
	c.R.Infof("CTR.copyfill: %d tail cop(ies) into a per-fragment buffer checked", c.copyFillSeen)
	r.Infof("CTR.twofrag: %d fragment loop(s) recognised and reached (a loop of another shape is not decided)", len(c.fragLoopsSeen))
	r.Infof("CTR.lenprefix: %d length-prefix/data pair(s) recognised and reached", len(c.lenPairsSeen))
	structC10(c)
}

// structC10: after the STAP-A carrying the held parameter sets has been built, *both* held sets
// are released (a set left behind would be re-sent with a later, different partner).
var structC10 = func(c *Ctx) {
	p, r := c.Prog, c.R
	fn := p.Func("codecs.(*H264Payloader).Payload")
	if fn == nil {
		return
	}
	// held: []byte fields of the receiver that are given a value (a copy of a parameter set);
	// released: fields stored nil. A function (Payload, a closure, a helper) that releases one held
	// field must release all of them: a set left behind would be re-sent with a later partner.
	held := map[string]bool{}
	clearIn := map[*ssa.Function]map[string]bool{}
	seen := map[*ssa.Function]bool{}
	var visit func(f *ssa.Function)
	visit = func(f *ssa.Function) {
		if f == nil || seen[f] || len(f.Blocks) == 0 {
			return
		}
		seen[f] = true
		for _, b := range f.Blocks {
			for _, in := range b.Instrs {
				if call, ok := in.(ssa.CallInstruction); ok {
					if g := call.Common().StaticCallee(); g != nil && g.Pkg == fn.Pkg {
						visit(g)
					}
				}
				st, ok := in.(*ssa.Store)
				if !ok {
					continue
				}
				fa, ok := st.Addr.(*ssa.FieldAddr)
				if !ok {
					continue
				}
				if sl, isSl := fa.Type().Underlying().(*types.Pointer).Elem().Underlying().(*types.Slice); !isSl {
					continue
				} else if b, isB := sl.Elem().Underlying().(*types.Basic); !isB || b.Kind() != types.Uint8 {
					continue
				}
				if _, isRecv := fa.X.Type().Underlying().(*types.Pointer); !isRecv || !strings.Contains(fa.X.Type().String(), "H264Payloader") {
					continue
				}
				name := core.FieldName(fa)
				if core.IsNilConst(st.Val) {
					if clearIn[f] == nil {
						clearIn[f] = map[string]bool{}
					}
					clearIn[f][name] = true
				} else {
					held[name] = true
				}
			}
		}
		for _, a := range f.AnonFuncs {
			visit(a)
		}
	}
	visit(fn)
	var names []string
	for k := range held {
		names = append(names, k)
	}
	sortStrings(names)
	ok := len(names) >= 2
	released := map[string]bool{}
	detail := fmt.Sprintf("held fields %v", names)
	for f, cl := range clearIn {
		any := false
		for _, nme := range names {
			if cl[nme] {
				any = true
				released[nme] = true
			}
		}
		if !any {
			continue
		}
		for _, nme := range names {
			if !cl[nme] {
				ok = false
				detail += fmt.Sprintf("; %s releases some held fields but not %s", core.FuncName(f), nme)
			}
		}
	}
	for _, nme := range names {
		if !released[nme] {
			ok = false
			detail += "; " + nme + " is never released"
		}
	}
	r.Add("STRUCT.release", core.FuncName(fn), "held SPS and PPS are both released after the STAP-A", p.Position(fn.Pos()), ok, detail)
}

func first(s []string, i int) string {
	if i < len(s) {
		return s[i]
	}
	return ""
}

func contains(xs []uint64, v uint64) bool {
	for _, x := range xs {
		if x == v {
			return true
		}
	}
	return false
}

// C11 — VP8 packetization is lossless and its descriptor decodes per RFC 7741.
func c11(c *Ctx) {
	p, r := c.Prog, c.R
	r.Explain = "BITS: descriptor bytes written by VP8Payloader and every field decoded by VP8Packet.Unmarshal (per store, " +
		"relative to its cursor byte) agree with the RFC 7741 4.2 table; IsPartitionHead reads the S bit; picture-id form " +
		"switch and wrap constants. Concatenation equality and field order over all flag combinations are not decided."
	n := fragmentLayout(c, "codecs.(*VP8Payloader).Payload", vp8Desc, "VP8 descriptor", "", 1)
	if n < 0 {
		n = 3 // not decided (moved into a helper): the floor below counts the other rows
	}
	n += storeForms(c, "BITS.reader", "codecs.(*VP8Packet).Unmarshal", [][2]string{
		{"X", "0x7 $p[@a].7"}, {"N", "0x7 $p[@a].5"}, {"S", "0x7 $p[@a].4"}, {"PID", "0x5 $p[@a].2-0"},
		{"--", ""},
		{"I", "0x7 $p[@b].7"}, {"L", "0x7 $p[@b].6"}, {"T", "0x7 $p[@b].5"}, {"K", "0x7 $p[@b].4"},
		{"--", ""},
		{"PictureID", "0 $p[@c].6-0 $p[@c+1].7-0 | 0x8 _ $p[@c].6-0"},
		{"--", ""},
		{"TL0PICIDX", "$p[@d].7-0"},
		{"--", ""},
		{"TID", "0x6 $p[@e].7-6"}, {"Y", "0x7 $p[@e].5"}, {"KEYIDX", "0 0 0 $p[@e].4-0"},
	})
	n += resultForms(c, "BITS.reader", "codecs.(*VP8Packet).IsPartitionHead", "$p[0].4")
	// M bit test and picture id form switch
	if fn := p.Func("codecs.(*VP8Packet).Unmarshal"); fn != nil {
		m := bits.Run(p, fn)
		n++
		r.Add("BITS.reader", "codecs.(*VP8Packet).Unmarshal", "15-bit form selected by the M bit (bit 7 of the picture-id byte)", p.Position(fn.Pos()),
			len(branchesOn(m, "$p[@c].7")) >= 1, "no branch on bit 7 of a payload byte")
	}
	if fn := p.Func("codecs.(*VP8Payloader).Payload"); fn != nil {
		m := bits.Run(p, fn)
		ok := false
		var seen []string
		for _, ci := range cmpsWithCallees(p, fn) {
			if vecMatches(ci.Vec, "recv.pictureID.15-0") && ci.Const != 0 {
				seen = append(seen, ci.Op.String()+" "+u64s([]uint64{ci.Const}))
				if (ci.Op.String() == "<" && ci.Const == 128) || (ci.Op.String() == "<=" && ci.Const == 127) || (ci.Op.String() == ">=" && ci.Const == 128) || (ci.Op.String() == ">" && ci.Const == 127) {
					ok = true
				} else {
					ok = false
					break
				}
			}
		}
		n++
		r.Add("STRUCT.const", "codecs.(*VP8Payloader).Payload", "7-bit picture id form exactly below 128", p.Position(fn.Pos()), ok, "comparisons of pictureID with constants: "+stringsJoin(seen))
		// the picture id octets (RFC 7741 4.2): M=0 + 7 bits; M=1 + bits 14..8, then bits 7..0. The values are looked
		// for among everything the payloader (and the helpers it was split into) computes.
		ms := []*bits.Machine{m}
		for _, h := range newHelpers(fn) {
			ms = append(ms, bits.Run(p, h))
		}
		for _, row := range [][2]string{
			{"7-bit form: octet = 0 pictureID.6-0", "0 recv.pictureID.6-0"},
			{"15-bit form: first octet = 1 pictureID.14-8", "1 recv.pictureID.14-8"},
			{"15-bit form: second octet = pictureID.7-0", "recv.pictureID.7-0"},
		} {
			found := false
			for _, mm := range ms {
				if hasValue(mm, row[1]) {
					found = true
				}
			}
			n++
			addOrUndecided(c, "BITS.frag", "codecs.(*VP8Payloader).Payload", "picture id "+row[0], p.Position(fn.Pos()), found, "no value computed by the payloader is "+row[1], fn)
		}
		// wrap mask 0x7FFF on the incremented id
		okw := false
		for _, st := range m.Stores {
			if st.Key == "recv.pictureID" && len(st.Val) == 16 && st.Val[15].K == bits.Zero {
				okw = true
			}
		}
		n++
		r.Add("STRUCT.const", "codecs.(*VP8Payloader).Payload", "picture id kept to 15 bits after increment", p.Position(fn.Pos()), okw, "no store to pictureID has bit 15 cleared")
	}
	r.Floor("VP8 layout rows", n, 14)
	np := presenceRule(c, "codecs.(*VP8Packet).Unmarshal", []presRow{
		{"X", []string{"I", "L", "T", "K"}}, {"I", []string{"PictureID"}}, {"L", []string{"TL0PICIDX"}},
		{"T", []string{"TID", "Y"}}, {"K", []string{"KEYIDX"}}})
	minLenRule(c, []minLenRow{{fn: "codecs.(*VP8Packet).Unmarshal", want: []int{1, 2, 3, 4, 5, 6}, why: "RFC 7741 4.2: 1 mandatory octet plus X, I(+M), L, T/K octets; the VP8 payload itself may be empty"}})
	r.Floor("VP8 presence rows", np, 9)
	var entries []*ssa.Function
	for _, nme := range []string{"codecs.(*VP8Payloader).Payload", "codecs.(*VP8Packet).Unmarshal", "codecs.(*VP8Packet).IsPartitionHead"} {
		if f := p.Func(nme); f != nil {
			entries = append(entries, f)
		}
	}
	boundsFor(c, "C11", entries)
	accFreshFor(c, 1, "codecs/vp8_packet.go")
	c.R.Infof("CTR.copyfill: %d tail cop(ies) into a per-fragment buffer checked", c.copyFillSeen)
}

func stringsJoin(s []string) string {
	out := ""
	for i, x := range s {
		if i > 0 {
			out += ", "
		}
		out += x
	}
	return out
}

// C12 — VP9 packetization is lossless and its descriptor decodes per the VP9 RTP spec.
func c12(c *Ctx) {
	p, r := c.Prog, c.R
	r.Explain = "BITS: descriptor bytes written by both VP9Payloader modes and the fields decoded by VP9Packet (flag byte, " +
		"picture id forms, layer indices, TL0PICIDX, SS header) agree with the VP9 RTP payload 4.2 table; picture-id mask and " +
		"wrap; BOUNDS: descriptor and uncompressed-header parsers never read outside the input. Concatenation equality and " +
		"the SS width/height values are not decided. BITS.vp9hdr: the uncompressed-header parser against the syntax table for twenty predicate combinations (case-split abstract interpretation)."
	n := fragmentLayout(c, "codecs.(*VP9Payloader).payloadFlexible", vp9Flex, "VP9 flexible descriptor", "recv.", 1)
	if n < 0 {
		n = 3
	}
	nf := append([]string{}, vp9NonFlex...)
	nf[0] = "1 $h.NonKeyFrame.0 0 0 _ _ _ 1"
	if k := fragmentLayoutMixed(c, "codecs.(*VP9Payloader).payloadNonFlexible", nf, "VP9 non-flexible descriptor"); k >= 0 {
		n += k
	} else {
		n += 4
	}
	flags := [][2]string{}
	for i, f := range []string{"I", "P", "L", "F", "B", "E", "V", "Z"} {
		flags = append(flags, [2]string{f, "$p[0]." + string(rune('7'-i))})
	}
	n += storeForms(c, "BITS.reader", "codecs.(*VP9Packet).Unmarshal", flags)
	n += storeForms(c, "BITS.reader", "codecs.(*VP9Packet).parsePictureID", [][2]string{
		{"PictureID", "0x9 $p[@c].6-0 | 0 $p[@c].6-0 $p[@c+1].7-0"}})
	n += storeForms(c, "BITS.reader", "codecs.(*VP9Packet).parseLayerInfoCommon", [][2]string{
		{"TID", "0x5 $p[@c].7-5"}, {"U", "$p[@c].4"}, {"SID", "0x5 $p[@c].3-1"}, {"D", "$p[@c].0"}})
	n += storeForms(c, "BITS.reader", "codecs.(*VP9Packet).parseLayerInfoNonFlexibleMode", [][2]string{{"TL0PICIDX", "$p[@c].7-0"}})
	n += storeForms(c, "BITS.reader", "codecs.(*VP9Packet).parseSSData", [][2]string{
		{"NS", "0x5 $p[@c].7-5"}, {"Y", "$p[@c].4"}, {"G", "$p[@c].3"}, {"--", ""}, {"NG", "$p[@d].7-0"}})
	n += resultForms(c, "BITS.reader", "codecs.(*VP9Packet).IsPartitionHead", "$p[0].3")
	if fn := p.Func("codecs.(*VP9Packet).parsePictureID"); fn != nil {
		m := bits.Run(p, fn)
		n++
		r.Add("BITS.reader", "codecs.(*VP9Packet).parsePictureID", "15-bit form selected by the M bit", p.Position(fn.Pos()), len(branchesOn(m, "$p[@c].7")) == 1, "no single branch on bit 7 of the picture-id byte")
	}
	if fn := p.Func("codecs.(*VP9Payloader).Payload"); fn != nil {
		m := bits.Run(p, fn)
		okInit, okWrap, okZero := true, false, false
		nStores := 0
		for _, st := range m.Stores {
			if st.Key != "recv.pictureID" {
				continue
			}
			nStores++
			if v, isC := st.Val.ConstVal(); isC && v == 0 {
				okZero = true
				continue
			}
			if len(st.Val) == 16 && st.Val[15].K != bits.Zero {
				// the incremented value: must be followed by the wrap test
				if _, isAdd := st.Instr.Val.(*ssa.BinOp); !isAdd {
					okInit = false
				}
			}
		}
		for _, ci := range cmpsWithCallees(p, fn) {
			if (ci.Op.String() == ">=" && ci.Const == 0x8000) || (ci.Op.String() == ">" && ci.Const == 0x7FFF) {
				okWrap = true
			}
		}
		n++
		r.Add("STRUCT.const", "codecs.(*VP9Payloader).Payload", "initial picture id masked to 15 bits; increment wraps to 0 at 0x8000", p.Position(fn.Pos()),
			okInit && okWrap && okZero && nStores >= 3, "stores to pictureID / wrap comparison not as specified")
	}
	r.Floor("VP9 layout rows", n, 20)
	np := presenceRule(c, "codecs.(*VP9Packet).Unmarshal", []presRow{
		{"I", []string{"PictureID"}}, {"L", []string{"TID", "U", "SID", "D"}}, {"F&P", []string{"PDiff"}}, {"V", []string{"NS", "Y", "G"}}})
	np += presenceRule(c, "codecs.(*VP9Packet).parseLayerInfo", []presRow{{"!F", []string{"TL0PICIDX"}}})
	np += presenceRule(c, "codecs.(*VP9Packet).parseSSData", []presRow{{"Y", []string{"Width", "Height"}}, {"G", []string{"NG"}}})
	minLenRule(c, []minLenRow{
		{fn: "codecs.(*VP9Packet).Unmarshal", want: []int{1}, minOnly: true, why: "1 mandatory descriptor octet"},
		{fn: "codecs/vp9.(*Header).Unmarshal", want: []int{1}, minOnly: true, why: "show_existing_frame header fits one octet"}})
	r.Floor("VP9 presence rows", np, 13)
	colorConfigScript(c)
	r.Floor("VP9 uncompressed header cases (BITS.vp9hdr)", vp9HeaderScript(c), 20)
	var entries []*ssa.Function
	for _, nme := range []string{"codecs.(*VP9Payloader).Payload", "codecs.(*VP9Packet).Unmarshal", "codecs.(*VP9Packet).IsPartitionHead", "codecs/vp9.(*Header).Unmarshal"} {
		if f := p.Func(nme); f != nil {
			entries = append(entries, f)
		} else {
			missingAnchor(r, nme)
		}
	}
	boundsFor(c, "C12", entries)
	vp9FieldOrder(c)
	accFreshFor(c, 4, "codecs/vp9_packet.go", "codecs/vp9/")
	c.R.Infof("CTR.copyfill: %d tail cop(ies) into a per-fragment buffer checked", c.copyFillSeen)
}

// fragmentLayoutMixed: rows whose sources use different prefixes (recv. for pictureID, $h for the header).
func fragmentLayoutMixed(c *Ctx, fnName string, table []string, what string) int {
	rows := make([]string, len(table))
	for i, t := range table {
		rows[i] = t
	}
	// qualify pictureID with recv.
	for i := range rows {
		rows[i] = replaceWord(rows[i], "pictureID", "recv.pictureID")
	}
	return fragmentLayout(c, fnName, rows, what, "", 1)
}

func replaceWord(s, old, new string) string {
	out := ""
	for i := 0; i < len(s); {
		if len(s)-i >= len(old) && s[i:i+len(old)] == old && (i == 0 || s[i-1] == ' ') {
			out += new
			i += len(old)
			continue
		}
		out += string(s[i])
		i++
	}
	return out
}

// vp9FieldOrder: the optional parts of the VP9 payload descriptor are decoded in wire order (VP9 RTP payload
// format 4.2): picture id, layer indices, reference indices (P_DIFF), scalability structure. Each part is
// decoded by a helper of VP9Packet; on every path the call of an earlier part is not reachable from the call
// of a later one. Helpers that no longer exist under these names are not looked for (not decided).
func vp9FieldOrder(c *Ctx) {
	p, r := c.Prog, c.R
	fn := p.Func("codecs.(*VP9Packet).Unmarshal")
	if fn == nil {
		return
	}
	order := []string{"parsePictureID", "parseLayerInfo", "parseRefIndices", "parseSSData"}
	at := map[string]*ssa.Call{}
	for _, b := range fn.Blocks {
		for _, in := range b.Instrs {
			if call, ok := in.(*ssa.Call); ok {
				if g := call.Call.StaticCallee(); g != nil {
					for _, nm := range order {
						if g.Name() == nm {
							at[nm] = call
						}
					}
				}
			}
		}
	}
	var present []string
	for _, nm := range order {
		if at[nm] != nil {
			present = append(present, nm)
		}
	}
	if len(present) < 2 {
		r.Infof("STRUCT.order: fewer than two of the descriptor part decoders are called from VP9Packet.Unmarshal under their pinned names: not decided")
		return
	}
	for i := 0; i+1 < len(present); i++ {
		a, b := at[present[i]], at[present[i+1]]
		ok := true
		if a.Block() == b.Block() {
			ok = core.Precedes(a, b)
		} else if core.Reachable(b.Block())[a.Block()] {
			ok = false
		}
		r.Add("STRUCT.order", "codecs.(*VP9Packet).Unmarshal", present[i]+" is decoded before "+present[i+1]+" (wire order of the descriptor)", p.Position(a.Pos()), ok,
			"the call of "+present[i]+" can run after the call of "+present[i+1])
	}
}
