package props

import (
	"fmt"
	"time"

	"golang.org/x/tools/go/ssa"

	"rtpcheck/bounds"
	"rtpcheck/core"
)

// panicKinds are the obligation kinds whose failure means "may panic".
var kindNames = map[string]string{
	"IDX": "index in range", "SLC": "slice bounds in range", "MK": "make length valid", "SHF": "shift count non-negative",
	"DIV": "divisor non-zero", "NIL": "pointer non-nil", "PRE": "stdlib precondition", "ASRT": "assertion/panic unreachable",
	"EXT": "callee modelled", "CTR": "contract",
}

// boundsRun analyses the entries and reports every aggregated obligation under rule BOUNDS.<kind>.
func boundsRun(c *Ctx, entries []*ssa.Function, hooks *bounds.Hooks) int {
	p, r := c.Prog, c.R
	cfg := bounds.Config{K: 64, MaxDepth: 4}
	if c.Tier == "thorough" {
		cfg = bounds.Config{K: 128, MaxDepth: 6}
	}
	t0 := time.Now()
	eng := bounds.New(p, cfg, hooks)
	seen := map[*ssa.Function]bool{}
	for _, fn := range entries {
		if fn == nil || seen[fn] {
			continue
		}
		seen[fn] = true
		t1 := time.Now()
		e0, _, _ := eng.Stats()
		eng.AnalyzeEntry(fn)
		e1, _, _ := eng.Stats()
		if dt := time.Since(t1).Seconds(); dt > 0.5 {
			r.Infof("BOUNDS entry %s: %.1fs, %d entailment queries", core.FuncName(fn), dt, e1-e0)
		}
	}
	n := 0
	for _, o := range eng.Obligations() {
		n++
		text := p.TextAt(o.Pos, o.Instr.String())
		if o.Text != "" {
			text = o.Text + ": " + text
		}
		r.Add("BOUNDS."+o.Kind, core.FuncName(o.Fn), text, p.Position(o.Pos), o.OK,
			fmt.Sprintf("%s not entailed (%d context(s)): %s", kindNames[o.Kind], o.Contexts, o.Detail))
	}
	for f := range eng.Funcs() {
		r.FuncsSeen[core.FuncName(f)] = true
	}
	en, fe, st := eng.Stats()
	r.Infof("BOUNDS: %d entries, %d functions, %d obligations, %d entailment queries, %d feasibility queries, %d instruction steps, %.1fs (K=%d depth=%d)",
		len(seen), len(eng.Funcs()), n, en, fe, st, time.Since(t0).Seconds(), cfg.K, cfg.MaxDepth)
	return n
}

// boundsFor runs the BOUNDS engine over the given entry points with the property's contracts.
var boundsFor = func(c *Ctx, prop string, entries []*ssa.Function) {
	boundsRun(c, entries, contractsFor(c, prop))
}

// contractsFor returns the contract hooks of a property (nil = panic obligations only).
func contractsFor(c *Ctx, prop string) *bounds.Hooks { return nil }
