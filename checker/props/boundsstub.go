package props

import (
	"fmt"
	"go/token"
	"os"
	"sort"
	"strings"
	"sync"
	"time"

	"golang.org/x/tools/go/ssa"

	"rtpcheck/bounds"
	"rtpcheck/core"
)

// panicKinds are the obligation kinds whose failure means "may panic".
var kindNames = map[string]string{
	"IDX": "index in range", "SLC": "slice bounds in range", "MK": "make length valid", "SHF": "shift count non-negative",
	"DIV": "divisor non-zero", "NIL": "pointer non-nil", "PRE": "stdlib precondition", "ASRT": "assertion/panic unreachable",
	"EXT": "callee modelled", "CTR": "contract", "WRAP": "no narrow-integer wrap-around",
}

// boundsRun analyses the entries (one engine per entry, in parallel) and reports every
// aggregated obligation under rule BOUNDS.<kind>.
func boundsRun(c *Ctx, entries []*ssa.Function, hooks *bounds.Hooks) int {
	if c.Tier == "thorough" && !c.secondPass {
		// thorough = the quick configuration plus a higher-precision one; both are sound, so an
		// obligation counts as discharged when either run discharges it (precision is not
		// monotone in the disjunct cap because different merges happen)
		c.thoroughOK = map[string]bool{}
		c.secondPass, c.collectOnly = true, true
		c.cfgOverride = &bounds.Config{K: 128, MaxDepth: 9, RetCap: 16}
		boundsRun(c, entries, hooks)
		c.collectOnly = false
		c.cfgOverride = &bounds.Config{K: 64, MaxDepth: 7, RetCap: 8}
		n := boundsRun(c, entries, hooks)
		c.secondPass, c.cfgOverride = false, nil
		return n
	}
	p, r := c.Prog, c.R
	cfg := bounds.Config{K: 64, MaxDepth: 7, RetCap: 8}
	if c.cfgOverride != nil {
		cfg = *c.cfgOverride
	}
	t0 := time.Now()
	var uniq []*ssa.Function
	seen := map[*ssa.Function]bool{}
	for _, fn := range entries {
		if fn == nil || seen[fn] {
			continue
		}
		seen[fn] = true
		if only := os.Getenv("RTPCHECK_ONLY"); only != "" && !strings.Contains(core.FuncName(fn), only) {
			continue
		}
		if skip := os.Getenv("RTPCHECK_SKIP"); skip != "" && strings.Contains(core.FuncName(fn), skip) {
			continue // self-test speed-up only (selftest/guardsweep.sh); never set by the registered commands
		}
		uniq = append(uniq, fn)
	}
	type result struct {
		eng  *bounds.Engine
		dt   float64
		fail string
	}
	results := make([]result, len(uniq))
	sem := make(chan struct{}, 12)
	var wg sync.WaitGroup
	for i, fn := range uniq {
		wg.Add(1)
		go func(i int, fn *ssa.Function) {
			defer wg.Done()
			sem <- struct{}{}
			defer func() { <-sem }()
			defer func() {
				if x := recover(); x != nil {
					results[i].fail = fmt.Sprintf("BOUNDS panic in %s: %v", core.FuncName(fn), x)
				}
			}()
			t1 := time.Now()
			ecfg := cfg
			if k, ok := entryK[core.FuncName(fn)]; ok && c.Tier != "thorough" {
				ecfg.K = k
			}
			if ks := os.Getenv("RTPCHECK_K"); ks != "" {
				fmt.Sscan(ks, &ecfg.K)
			}
			if lc, ok := entryLoopCap[core.FuncName(fn)]; ok {
				ecfg.LoopEntryCap = lc
			}
			if rc, ok := entryRetCap[core.FuncName(fn)]; ok && rc > ecfg.RetCap {
				ecfg.RetCap = rc
			}
			if ks := os.Getenv("RTPCHECK_LOOPCAP"); ks != "" {
				fmt.Sscan(ks, &ecfg.LoopEntryCap)
			}
			if ks := os.Getenv("RTPCHECK_RETCAP"); ks != "" {
				fmt.Sscan(ks, &ecfg.RetCap)
			}
			if c.lemmas != nil && c.lemmaEntries[core.FuncName(fn)] {
				ecfg.Lemmas = c.lemmas // only where the lemma is needed: elsewhere the callee is expanded as before
			}
			ecfg.Modular = c.modular
			eng := bounds.New(p, ecfg, hooks)
			eng.AnalyzeEntry(fn)
			results[i] = result{eng: eng, dt: time.Since(t1).Seconds()}
		}(i, fn)
	}
	wg.Wait()
	// aggregate obligations across engines: an instruction is discharged only if every engine
	// (context) discharged it
	type agg struct {
		o       *bounds.Oblig
		failVia []string // entries in whose context the obligation is not discharged
		details map[string]string
		fails   map[string]map[int]bool // per entry: sub-goals not entailed
	}
	merged := map[string]*agg{}
	var order []string
	totalEn, totalFe, totalSt, nfuncs := 0, 0, 0, map[*ssa.Function]bool{}
	for i, res := range results {
		if res.fail != "" {
			r.Fatalf("%s", res.fail)
			continue
		}
		if res.eng == nil {
			r.Fatalf("BOUNDS: no result for %s", core.FuncName(uniq[i]))
			continue
		}
		if res.dt > 2 {
			r.Infof("BOUNDS entry %s: %.1fs", core.FuncName(uniq[i]), res.dt)
		}
		for _, o := range res.eng.Obligations() {
			k := fmt.Sprintf("%p|%s|%s", o.Instr, o.Kind, o.Text)
			a := merged[k]
			if a == nil {
				cp := *o
				cp.OK = true
				a = &agg{o: &cp, details: map[string]string{}, fails: map[string]map[int]bool{}}
				a.o.Contexts = 0
				merged[k] = a
				order = append(order, k)
			}
			a.o.Contexts += o.Contexts
			if !o.OK {
				via := core.FuncName(uniq[i])
				a.failVia = append(a.failVia, via)
				a.details[via] = o.Detail
				a.fails[via] = o.Fails
			}
		}
		for f := range res.eng.Funcs() {
			nfuncs[f] = true
			r.FuncsSeen[core.FuncName(f)] = true
		}
		for l := range res.eng.LemmasUsed() {
			if c.lemmasUsed == nil {
				c.lemmasUsed = map[string]bool{}
			}
			c.lemmasUsed[l] = true
		}
		en, fe, st := res.eng.Stats()
		totalEn, totalFe, totalSt = totalEn+en, totalFe+fe, totalSt+st
	}
	sort.SliceStable(order, func(i, j int) bool {
		a, b := merged[order[i]].o, merged[order[j]].o
		if a.Fn != b.Fn {
			return core.FuncName(a.Fn) < core.FuncName(b.Fn)
		}
		return a.Pos < b.Pos
	})
	n := 0
	type pendOb struct{ rule, fn, text, pos, detail, fam string }
	var pend []pendOb
	famUsed := map[string]int{}
	for _, k := range order {
		a := merged[k]
		o := a.o
		text := p.TextAt(o.Pos, o.Instr.String())
		if o.Text != "" {
			text = o.Text + ": " + text
		}
		if o.NoSrc {
			text = o.Text
		}
		fname := core.FuncName(o.Fn)
		if o.Kind == "WRAP" && !c.wrapScope[fname] {
			if os.Getenv("RTPCHECK_WRAPSHIFTS") == "" {
				continue // wrap-around is only a finding where the property's decoders must not wrap
			}
			if bo, ok := o.Instr.(*ssa.BinOp); !ok || bo.Op != token.SHL { // experiment: shifts everywhere
				continue
			}
		}
		if o.Kind == "WRAP" && c.wrapShiftOnly[fname] {
			if bo, ok := o.Instr.(*ssa.BinOp); !ok || bo.Op != token.SHL {
				continue // counters (donl++) wrap by design; only shifts that push header bits out are findings here
			}
		}
		if c.collectOnly {
			// first (high-precision) pass of the thorough tier: remember what it discharged
			failed := map[string]bool{}
			for _, via := range a.failVia {
				failed[via] = true
			}
			for _, fn := range uniq {
				if !failed[core.FuncName(fn)] {
					c.thoroughOK[k+"|"+core.FuncName(fn)] = true
				}
			}
			continue
		}
		if c.thoroughOK != nil {
			var still []string
			for _, via := range a.failVia {
				if !c.thoroughOK[k+"|"+via] {
					still = append(still, via)
				}
			}
			a.failVia = still
		}
		if len(a.failVia) == 0 {
			n++
			r.Add("BOUNDS."+o.Kind, fname, text, p.Position(o.Pos), true, "")
			continue
		}
		// not discharged in some entry context: one obligation per such entry, so that a context in
		// which the obligation genuinely needs a non-linear argument does not mask the others
		sort.Strings(a.failVia)
		for _, via := range a.failVia {
			n++
			t := text + partSuffix(o.Kind, a.fails[via])
			if via != fname {
				t += " [via " + via + "]"
			}
			rule := "BOUNDS." + o.Kind
			cons := r.Construct(rule, fname, t)
			key := rule + "|" + fname + "|" + cons
			detail := fmt.Sprintf("%s not entailed: %s", kindNames[o.Kind], a.details[via])
			if _, exact := r.AssumedKeys()[key]; exact {
				r.AddRaw(rule, fname, cons, p.Position(o.Pos), -1, detail, "")
				famUsed[familyOf(rule, via, t)] += familyWeight(rule, t)
				continue
			}
			if c.undecidedCTR != nil && rule == "BOUNDS.CTR" {
				if why := c.undecidedCTR(fname, t); why != "" {
					r.Infof("%s %s: %s: not decided — %s", rule, fname, t, why)
					continue
				}
			}
			pend = append(pend, pendOb{rule, fname, cons, p.Position(o.Pos), detail, familyOf(rule, via, t)})
		}
	}
	// Obligations that are not discharged and whose exact key is not in the assumed table: a
	// behaviour-preserving edit (an expression hoisted into a local, a loop moved into a helper)
	// re-words an obligation that was argued by hand. They are accepted as long as their family
	// (kind, entry context, failing sub-goals) does not contain more undischarged obligations than the
	// assumed table lists for it; a weakened guard adds a new undischarged obligation (or a new failing
	// sub-goal) and exceeds the budget.
	budget, famReason := familyBudgets(r.AssumedKeys())
	byFam := map[string][]pendOb{}
	var famOrder []string
	for _, po := range pend {
		if _, ok := byFam[po.fam]; !ok {
			famOrder = append(famOrder, po.fam)
		}
		byFam[po.fam] = append(byFam[po.fam], po)
	}
	for _, fam := range famOrder {
		pos := byFam[fam]
		need := 0
		for _, po := range pos {
			need += familyWeight(po.rule, po.text)
		}
		within := famUsed[fam]+need <= budget[fam]
		for _, po := range pos {
			if within {
				r.AddRaw(po.rule, po.fn, po.text, po.pos, int(core.Assumed), po.detail,
					"same family as "+fmt.Sprint(budget[fam])+" obligation(s) of the assumed table (kind, entry context and failing sub-goals agree; the wording differs from the pinned tree): "+famReason[fam])
			} else {
				r.AddRaw(po.rule, po.fn, po.text, po.pos, -1, po.detail, "")
			}
		}
	}
	if c.collectOnly {
		return 0
	}
	r.Infof("BOUNDS: %d entries, %d functions, %d obligations, %d entailment queries, %d feasibility queries, %d instruction steps, %.1fs wall (K=%d depth=%d)",
		len(uniq), len(nfuncs), n, totalEn, totalFe, totalSt, time.Since(t0).Seconds(), cfg.K, cfg.MaxDepth)
	return n
}

// familyOf names the family of an undischarged obligation: rule, entry context and failing sub-goals.
func familyOf(rule, via, text string) string {
	sub := ""
	if i := strings.Index(text, " {"); i >= 0 {
		if j := strings.Index(text[i:], "}"); j >= 0 {
			sub = text[i+1 : i+j+1]
		}
	}
	// "the access stays below the end of the buffer" is one family however the access is written: an index
	// (one octet), a slice whose upper end must fit, or the length precondition of a fixed-width big-endian
	// access (weighted by its width, see familyWeight): PutUint16(b[i:], x) and b[i], b[i+1] = ... are the same
	// two octets
	if rule == "BOUNDS.PRE" || rule == "BOUNDS.IDX" && sub == "{index<len}" || rule == "BOUNDS.SLC" && sub == "{high<=max}" {
		return "BOUNDS.UB|" + via + "|"
	}
	if rule == "BOUNDS.CTR" {
		// contracts are distinguished by their name (the text before the colon)
		if i := strings.Index(text, ":"); i >= 0 {
			sub = text[:i]
		}
	}
	return rule + "|" + via + "|" + sub
}

// familyWeight: the number of octets whose access an undischarged upper-bound obligation stands for.
func familyWeight(rule, text string) int {
	if rule != "BOUNDS.PRE" {
		return 1
	}
	switch {
	case strings.Contains(text, "Uint16"):
		return 2
	case strings.Contains(text, "Uint32"):
		return 4
	case strings.Contains(text, "Uint64"):
		return 8
	}
	return 1
}

// familyBudgets counts the assumed-table keys per family and keeps one reason per family.
func familyBudgets(assumed map[string]string) (map[string]int, map[string]string) {
	budget, reason := map[string]int{}, map[string]string{}
	for k, why := range assumed {
		parts := strings.SplitN(k, "|", 3)
		if len(parts) != 3 || !strings.HasPrefix(parts[0], "BOUNDS.") {
			continue
		}
		via := parts[1]
		if i := strings.Index(parts[2], " [via "); i >= 0 {
			rest := parts[2][i+6:]
			if j := strings.Index(rest, "]"); j >= 0 {
				via = rest[:j]
			}
		}
		fam := familyOf(parts[0], via, parts[2])
		budget[fam] += familyWeight(parts[0], parts[2])
		if _, ok := reason[fam]; !ok || why < reason[fam] {
			reason[fam] = why
		}
	}
	return budget, reason
}

// partNames: the sub-goals of the multi-goal obligation kinds, in the order the interpreter builds them.
var partNames = map[string][]string{
	"IDX": {"index>=0", "index<len"},
	"SLC": {"low>=0", "low<=high", "high<=max", "max<=cap"},
	"MK":  {"len>=0", "len<=cap"},
}

// partSuffix names the sub-goals that are not entailed: part of the key of an undischarged obligation.
func partSuffix(kind string, fails map[int]bool) string {
	names := partNames[kind]
	if len(names) == 0 || len(fails) == 0 {
		return ""
	}
	var parts []string
	for i, nm := range names {
		if fails[i] {
			parts = append(parts, nm)
		}
	}
	if len(parts) == 0 {
		return ""
	}
	return " {" + strings.Join(parts, ", ") + "}"
}

// entryK lowers the disjunct cap for entries whose path count makes K=64 too slow for the quick
// tier (their hard obligations are non-linear and listed in the assumed table either way; the
// thorough tier uses the full precision).
var entryK = map[string]int{"codecs.(*AV1Payloader).Payload": 16}

// entryLoopCap: entries whose loops are analysed from a coarser entry state (bounds.Config.LoopEntryCap): the
// fragment loop of the AV1 helper is entered on some sixty paths and splits four ways itself; nothing in its
// body depends on which of those paths was taken.
// entryRetCap: entries in which the outcomes of small helpers (a two-way clamp, the three returns of a size
// computation) must stay apart after the call: merged, "r = min(a, b)" is only "r <= a, r <= b".
// The header marshallers: MarshalSize's outcomes (no extension block; one per profile arm, with and without
// elements) carry "size >= 16 + 4*CSRC when the extension flag is set"; merged with the no-extension outcome
// that bound is lost.
var entryRetCap = map[string]int{"codecs.(*AV1Payloader).appendOBUPayload": 16,
	// the validation of SetExtension and the field decoders of VP8Packet.Unmarshal, once they are split into helpers
	// with several outcomes each: what the accepted outcome of one helper says (the profile in force; the cursor is
	// inside the payload) is needed after the next helper has returned
	"rtp.(*Header).SetExtension": 16, "codecs.(*VP8Packet).Unmarshal": 32,
	"rtp.(Header).MarshalTo": 16, "rtp.(Header).Marshal": 16, "rtp.(*Packet).MarshalTo": 16, "rtp.(*Packet).Marshal": 16, "rtp.(Packet).Marshal": 16, "rtp.(Packet).MarshalTo": 16}

var entryLoopCap = map[string]int{"codecs.(*AV1Payloader).appendOBUPayload": 4}

// boundsFor runs the BOUNDS engine over the given entry points with the property's contracts.
var boundsFor = func(c *Ctx, prop string, entries []*ssa.Function) {
	boundsRun(c, entries, contractsFor(c, prop))
}

// contractsFor returns the contract hooks of a property (nil = panic obligations only).
func contractsFor(c *Ctx, prop string) *bounds.Hooks {
	switch prop {
	case "C04":
		return c04Hooks(c)
	case "C05":
		return c05Hooks(c)
	case "C08":
		return c08Hooks(c)
	case "C10", "C14":
		c.fragLoopsSeen = map[*ssa.BasicBlock]bool{}
		c.lenPairsSeen = map[ssa.Instruction]bool{}
		if prop == "C10" {
			return mergeHooks(twoFragHooks(c, c.fragLoopsSeen), lenPrefixHooks(c, c.lenPairsSeen), stapAOptionHooks(c, &c.stapASeen), copyFillHooks(c, &c.copyFillSeen))
		}
		return mergeHooks(twoFragHooks(c, c.fragLoopsSeen), lenPrefixHooks(c, c.lenPairsSeen), copyFillHooks(c, &c.copyFillSeen))
	case "C11", "C12":
		return copyFillHooks(c, &c.copyFillSeen)
	case "C17":
		return c17Hooks(c, &c.c17Seen)
	case "C16":
		return opusCountHooks(c)
	case "C13":
		c.lenPairsSeen = map[ssa.Instruction]bool{}
		return mergeHooks(lenPrefixHooks(c, c.lenPairsSeen), wClosedHooks(c, &c.wClosedSeen), carryNilHooks(c, "codecs.(*AV1Payloader).Payload", &c.carryNilSeen), yzFlagHooks(c, &c.yzSeen))
	}
	return nil
}
