package props

import "golang.org/x/tools/go/ssa"

// boundsFor runs the BOUNDS engine over the given entry points (filled in by bounds.go).
var boundsFor = func(c *Ctx, prop string, entries []*ssa.Function) {}
