package props

import (
	"fmt"
	"go/ast"
	"go/token"
	"go/types"
	"strings"

	"rtpcheck/core"
)

// STRUCT.lostupdate — an assignment to a by-value parameter that nothing reads afterwards. The
// assembler keeps "this is the first element of the packet" in a flag that a helper clears; when
// the flag is handed over by value instead of by pointer the helper's `flag = false` changes only
// its own copy and the caller's loop never sees it. The compiler's SSA drops such a store without a
// trace, so the rule works on the syntax tree with type information: for every function of the
// given packages, an assignment `p = ...` to a parameter p (not through a pointer, not a compound
// assignment) is reported unless p is read at a later source position in the function, or the
// assignment is inside a loop that also reads p. Expected count on the tree: zero.
func lostUpdateRule(c *Ctx, pkgSuffixes ...string) int {
	p, r := c.Prog, c.R
	examined := 0
	for _, pkg := range p.Pkgs {
		match := false
		for _, sfx := range pkgSuffixes {
			if strings.HasSuffix(pkg.PkgPath, sfx) {
				match = true
			}
		}
		if !match || pkg.TypesInfo == nil {
			continue
		}
		for _, file := range pkg.Syntax {
			if strings.HasSuffix(p.Fset.Position(file.Pos()).Filename, "_test.go") {
				continue
			}
			for _, decl := range file.Decls {
				fd, ok := decl.(*ast.FuncDecl)
				if !ok || fd.Body == nil {
					continue
				}
				params := map[types.Object]bool{}
				if fd.Type.Params != nil {
					for _, fl := range fd.Type.Params.List {
						for _, nm := range fl.Names {
							if o := pkg.TypesInfo.Defs[nm]; o != nil {
								params[o] = true
							}
						}
					}
				}
				if len(params) == 0 {
					continue
				}
				// reads of each parameter (identifier uses that are not the left side of a plain assignment)
				type use struct {
					pos  token.Pos
					loop ast.Node
				}
				reads := map[types.Object][]use{}
				var assigns []struct {
					obj  types.Object
					stmt *ast.AssignStmt
					loop ast.Node
				}
				var loops []ast.Node
				lhsIdent := map[*ast.Ident]bool{}
				ast.Inspect(fd.Body, func(n ast.Node) bool {
					if as, ok := n.(*ast.AssignStmt); ok && as.Tok == token.ASSIGN {
						for _, l := range as.Lhs {
							if id, ok := l.(*ast.Ident); ok {
								lhsIdent[id] = true
							}
						}
					}
					return true
				})
				var visit func(n ast.Node)
				visit = func(n ast.Node) {
					if n == nil {
						return
					}
					switch x := n.(type) {
					case *ast.ForStmt, *ast.RangeStmt:
						loops = append(loops, n)
						defer func() { loops = loops[:len(loops)-1] }()
					case *ast.FuncLit:
						_ = x
					}
					var cur ast.Node
					if len(loops) > 0 {
						cur = loops[0] // outermost enclosing loop
					}
					switch x := n.(type) {
					case *ast.AssignStmt:
						if x.Tok == token.ASSIGN {
							for _, l := range x.Lhs {
								if id, ok := l.(*ast.Ident); ok {
									if o := pkg.TypesInfo.Uses[id]; o != nil && params[o] {
										assigns = append(assigns, struct {
											obj  types.Object
											stmt *ast.AssignStmt
											loop ast.Node
										}{o, x, cur})
									}
								}
							}
						}
					case *ast.Ident:
						if !lhsIdent[x] {
							if o := pkg.TypesInfo.Uses[x]; o != nil && params[o] {
								reads[o] = append(reads[o], use{x.Pos(), cur})
							}
						}
					}
					ast.Inspect(n, func(ch ast.Node) bool {
						if ch == n || ch == nil {
							return ch == n
						}
						visit(ch)
						return false
					})
				}
				visit(fd.Body)
				for _, a := range assigns {
					examined++
					used := false
					for _, u := range reads[a.obj] {
						if u.pos > a.stmt.End() || (a.loop != nil && u.loop == a.loop) {
							used = true
						}
					}
					fname := fd.Name.Name
					if fd.Recv != nil && len(fd.Recv.List) > 0 {
						fname = core.ShortPkg(pkg.PkgPath) + "." + types.ExprString(fd.Recv.List[0].Type) + "." + fd.Name.Name
					} else {
						fname = core.ShortPkg(pkg.PkgPath) + "." + fd.Name.Name
					}
					r.Add("STRUCT.lostupdate", fname, fmt.Sprintf("assignment to parameter %s is read afterwards", a.obj.Name()), p.Position(a.stmt.Pos()), used,
						"the parameter is passed by value and nothing reads it after this assignment: the update is lost (was it meant to go through a pointer?)")
				}
			}
		}
	}
	r.Infof("STRUCT.lostupdate: %d assignments to by-value parameters examined", examined)
	return examined
}
