package props

import (
	"fmt"
	"sort"
	"strings"

	"golang.org/x/tools/go/ssa"

	"rtpcheck/core"
	"rtpcheck/spec"
)

// Rules that look for a construct *in the body of one function* (a store of a certain shape, a loop that adds
// a constant, a branch on a header bit) lose their anchor when a refactoring moves that construct into a new
// unexported helper. The helpers every function called on the pinned tree are frozen in spec.PinnedCallees;
// a function that now calls an unexported function of the module that is not in its frozen list has been
// restructured. For such a function a construct rule first looks through the helpers (scopeOf); when the
// construct is still not found the row is reported as "not decided" instead of as a violation. Contract
// rules (BOUNDS.CTR, BITS tables evaluated by the machines, which follow calls) do not use this escape.

// directHelpers: unexported functions of the module that fn calls statically (closures excluded).
func directHelpers(fn *ssa.Function) []*ssa.Function {
	var out []*ssa.Function
	seen := map[*ssa.Function]bool{}
	for _, b := range fn.Blocks {
		for _, in := range b.Instrs {
			call, ok := in.(ssa.CallInstruction)
			if !ok {
				continue
			}
			g := call.Common().StaticCallee()
			if g == nil || seen[g] || g == fn || g.Parent() != nil || !core.InModule(g) || len(g.Blocks) == 0 {
				continue
			}
			nm := g.Name()
			if nm == "" || nm[0] < 'a' || nm[0] > 'z' {
				continue
			}
			seen[g] = true
			out = append(out, g)
		}
	}
	sort.Slice(out, func(i, j int) bool { return core.FuncName(out[i]) < core.FuncName(out[j]) })
	return out
}

// newHelpers: helpers of fn (transitively through new helpers) that fn did not call on the pinned tree.
func newHelpers(fn *ssa.Function) []*ssa.Function {
	var out []*ssa.Function
	seen := map[*ssa.Function]bool{fn: true}
	var visit func(f *ssa.Function, depth int)
	visit = func(f *ssa.Function, depth int) {
		pinned := map[string]bool{}
		for _, n := range spec.PinnedCallees[core.FuncName(f)] {
			pinned[n] = true
		}
		for _, g := range directHelpers(f) {
			if seen[g] || pinned[core.FuncName(g)] {
				continue
			}
			seen[g] = true
			out = append(out, g)
			if depth < 3 {
				visit(g, depth+1)
			}
		}
	}
	visit(fn, 0)
	return out
}

// scopeOf: fn followed by its new helpers.
func scopeOf(fn *ssa.Function) []*ssa.Function {
	return append([]*ssa.Function{fn}, newHelpers(fn)...)
}

// addOrUndecided records a construct rule row. A row that fails on a restructured function is reported as
// not decided (the text names the new helpers).
func addOrUndecided(c *Ctx, rule, fnName, what, pos string, ok bool, detail string, fns ...*ssa.Function) {
	if !ok {
		var names []string
		for _, fn := range fns {
			if fn == nil {
				continue
			}
			for _, g := range newHelpers(fn) {
				names = append(names, core.FuncName(g))
			}
		}
		if len(names) > 0 {
			c.R.Infof("%s %s: %s: not decided — construct not found (%s) and the function was restructured around new helper(s) %s", rule, fnName, what, detail, strings.Join(names, ", "))
			return
		}
	}
	c.R.Add(rule, fnName, what, pos, ok, detail)
}

// DumpCallees prints the table spec.PinnedCallees for the loaded tree.
func DumpCallees(p *core.Program) {
	var names []string
	for n := range p.Funcs {
		names = append(names, n)
	}
	sort.Strings(names)
	fmt.Println("package spec\n\n// PinnedCallees: the unexported functions of the module each function calls statically on the pinned tree\n// (generated: rtpcheck -dumpcallees).\nvar PinnedCallees = map[string][]string{")
	for _, n := range names {
		f := p.Funcs[n]
		if f == nil || len(f.Blocks) == 0 {
			continue
		}
		hs := directHelpers(f)
		if len(hs) == 0 {
			continue
		}
		var hn []string
		for _, g := range hs {
			hn = append(hn, fmt.Sprintf("%q", core.FuncName(g)))
		}
		fmt.Printf("\t%q: {%s},\n", n, strings.Join(hn, ", "))
	}
	fmt.Println("}")
}
