package props

import (
	"go/token"

	"golang.org/x/tools/go/ssa"

	"rtpcheck/core"
)

// STRUCT.capflow — what a decoder returns does not depend on the capacity of the receiver's buffers.
//
// A decoder that reuses the backing arrays of its receiver (h.CSRC[:n], h.Extensions[:0], the carried
// fragment buffer) may look at their capacity to decide whether to allocate, and at nothing else: the
// capacity is history (the largest packet seen so far), so a length, an offset or a decoded value computed
// from it makes decoding into a used receiver differ from decoding into a fresh one.
//
// Rule: in the given functions (and the module functions they call), the result of cap(x) is used only as an
// operand of a comparison or as the size argument of make.
func capFlowRule(c *Ctx, fns []*ssa.Function) int {
	p, r := c.Prog, c.R
	n := 0
	seen := map[*ssa.BasicBlock]bool{}
	for _, fn := range fns {
		if fn == nil {
			continue
		}
		for _, b := range blocksWithCallees(fn) {
			if seen[b] {
				continue
			}
			seen[b] = true
			for _, in := range b.Instrs {
				call, ok := in.(*ssa.Call)
				if !ok || core.BuiltinName(call) != "cap" || call.Referrers() == nil {
					continue
				}
				n++
				bad := ""
				var check func(v ssa.Value, depth int)
				check = func(v ssa.Value, depth int) {
					refs := v.Referrers()
					if refs == nil || depth > 3 {
						return
					}
					for _, ref := range *refs {
						switch u := ref.(type) {
						case *ssa.BinOp:
							switch u.Op {
							case token.LSS, token.GTR, token.LEQ, token.GEQ, token.EQL, token.NEQ:
							default:
								bad = p.Position(u.Pos())
							}
						case *ssa.MakeSlice, *ssa.DebugRef:
						case *ssa.Convert:
							check(u, depth+1)
						case *ssa.Slice:
							// x[:cap(x)] re-exposes spare capacity: content, not a length computed from it
						default:
							bad = p.Position(ref.Pos())
						}
					}
				}
				check(call, 0)
				r.Add("STRUCT.capflow", core.FuncName(b.Parent()), "cap("+p.TextAt(call.Call.Args[0].Pos(), call.Call.Args[0].Name())+") is used only to decide whether to allocate", p.Position(call.Pos()), bad == "",
					"the capacity of a reused buffer flows into arithmetic at "+bad+": the result depends on earlier calls")
			}
		}
	}
	return n
}
