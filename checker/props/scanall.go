package props

import (
	"fmt"
	"go/token"
	"go/types"

	"golang.org/x/tools/go/ssa"

	"rtpcheck/core"
)

// scanAllRule: "a value that stands for all elements is returned only after all elements were examined" (C19: the
// shared spatial-layer bitmask of the VLA encoder is only valid if every stream with active layers has it). In fn
// (one slice parameter), every return of a result that is not a constant must lie behind the exhaustion of an index
// that walks the whole parameter: with the exit edges of the tests `i < len(param)` (index from 0 in steps of 1;
// the `for range` form included) removed from the flow graph, no such return may be reachable from the entry. A
// `break`, a shortened bound (`len(param)-1`) or a later start lets a path through. Returns the number of returns
// checked; a function without a loop over its parameter is not decided.
func scanAllRule(c *Ctx, fnName, what string) int {
	p, r := c.Prog, c.R
	fn := p.Func(fnName)
	if fn == nil || len(fn.Blocks) == 0 {
		r.Infof("SCAN.all: %s is not a function of this tree: %s is not decided", fnName, what)
		return 0
	}
	var param ssa.Value
	for _, pa := range fn.Params {
		if _, ok := pa.Type().Underlying().(*types.Slice); ok {
			param = pa
		}
	}
	if param == nil {
		r.Infof("SCAN.all: %s has no slice parameter: %s is not decided", fnName, what)
		return 0
	}
	isLenParam := func(v ssa.Value) bool {
		call, ok := v.(*ssa.Call)
		if !ok {
			return false
		}
		bi, ok := call.Call.Value.(*ssa.Builtin)
		return ok && bi.Name() == "len" && len(call.Call.Args) == 1 && call.Call.Args[0] == param
	}
	isConst := func(v ssa.Value, k int64) bool {
		cst, ok := v.(*ssa.Const)
		if !ok || cst.Value == nil {
			return false
		}
		return cst.Int64() == k
	}
	// full index: phi {0, phi+1} compared as `phi < len`, or the range form phi {-1, phi+1} compared as `phi+1 < len`
	fullIndex := func(x ssa.Value) bool {
		plus1 := func(v ssa.Value, ph *ssa.Phi) bool {
			b, ok := v.(*ssa.BinOp)
			return ok && b.Op == token.ADD && b.X == ph && isConst(b.Y, 1)
		}
		check := func(ph *ssa.Phi, init int64) bool {
			// one edge per way into the loop head: the start value from outside, index+1 from every back edge
			ni, ns := 0, 0
			for _, e := range ph.Edges {
				switch {
				case isConst(e, init):
					ni++
				case plus1(e, ph):
					ns++
				default:
					return false
				}
			}
			return ni == 1 && ns >= 1
		}
		if ph, ok := x.(*ssa.Phi); ok {
			return check(ph, 0)
		}
		if b, ok := x.(*ssa.BinOp); ok && b.Op == token.ADD && isConst(b.Y, 1) {
			if ph, ok := b.X.(*ssa.Phi); ok {
				return check(ph, -1) && plus1(b, ph)
			}
		}
		return false
	}
	type edge struct{ from, to *ssa.BasicBlock }
	cut := map[edge]bool{}
	for _, b := range fn.Blocks {
		if len(b.Instrs) == 0 {
			continue
		}
		br, ok := b.Instrs[len(b.Instrs)-1].(*ssa.If)
		if !ok {
			continue
		}
		cmp, ok := br.Cond.(*ssa.BinOp)
		if !ok {
			continue
		}
		switch {
		case cmp.Op == token.LSS && isLenParam(cmp.Y) && fullIndex(cmp.X): // i < len: exhausted on the false edge
			cut[edge{b, b.Succs[1]}] = true
		case cmp.Op == token.GEQ && isLenParam(cmp.Y) && fullIndex(cmp.X): // i >= len: exhausted on the true edge
			cut[edge{b, b.Succs[0]}] = true
		case cmp.Op == token.GTR && isLenParam(cmp.X) && fullIndex(cmp.Y): // len > i
			cut[edge{b, b.Succs[1]}] = true
		case cmp.Op == token.LEQ && isLenParam(cmp.X) && fullIndex(cmp.Y): // len <= i
			cut[edge{b, b.Succs[0]}] = true
		}
	}
	if len(cut) == 0 {
		// a walk with a shortened bound or a later start is the very thing the rule is after: it is only "not decided"
		// when there is no loop at all
		// ... unless an ascending index is tested against a bound derived from len(param) (`len(param)-1`) or starts
		// later than 0: then the walk is there and is short
		short := false
		for _, b := range fn.Blocks {
			for _, in := range b.Instrs {
				cmp, ok := in.(*ssa.BinOp)
				if !ok || cmp.Op != token.LSS {
					continue
				}
				ph, ok := cmp.X.(*ssa.Phi)
				if !ok {
					continue
				}
				asc := false
				for _, e := range ph.Edges {
					if bo, ok := e.(*ssa.BinOp); ok && bo.Op == token.ADD && bo.X == ph && isConst(bo.Y, 1) {
						asc = true
					}
				}
				derived := isLenParam(cmp.Y)
				if bo, ok := cmp.Y.(*ssa.BinOp); ok && bo.Op == token.SUB && isLenParam(bo.X) {
					derived = true
				}
				if asc && derived {
					short = true
				}
			}
		}
		if !short {
			r.Infof("SCAN.all: %s has no test `i < len(%s)` on an ascending index: %s is not decided", fnName, param.Name(), what)
			return 0
		}
	}
	reach := map[*ssa.BasicBlock]bool{}
	var walk func(b *ssa.BasicBlock)
	walk = func(b *ssa.BasicBlock) {
		if reach[b] {
			return
		}
		reach[b] = true
		for _, s := range b.Succs {
			if !cut[edge{b, s}] {
				walk(s)
			}
		}
	}
	walk(fn.Blocks[0])
	n := 0
	for _, b := range fn.Blocks {
		if len(b.Instrs) == 0 {
			continue
		}
		ret, ok := b.Instrs[len(b.Instrs)-1].(*ssa.Return)
		if !ok || len(ret.Results) != 1 {
			continue
		}
		if _, isC := ret.Results[0].(*ssa.Const); isC {
			continue
		}
		n++
		r.Add("SCAN.all", core.FuncName(fn), fmt.Sprintf("%s: a non-constant result is returned only after the index has run over all of %s", what, param.Name()),
			p.Position(ret.Pos()), !reach[b], fmt.Sprintf("the return in block %d is reachable without the test `i < len(%s)` (i from 0 in steps of 1) having failed", b.Index, param.Name()))
	}
	return n
}
