package props

import (
	"go/token"

	"golang.org/x/tools/go/ssa"

	"rtpcheck/core"
)

// STRUCT.emitorder — units held back for aggregation are emitted before a later unit is.
//
// The H265 payloader is built from closures over two lists of fragments: the result list and a buffer of
// small units waiting to be aggregated, which one closure (the flush) turns into packets of the result list
// and empties. The per-unit callback may append packets of the *current* unit to the result list itself (the
// FU fragments of a large unit). Such an append must be dominated by a call of the flush closure: otherwise
// units that came earlier in the access unit leave the payloader after the fragments of a later one.
//
// The lists and the flush closure are recognised by what they do (the captured [][]byte variable that the
// function returns; a closure that stores both into it and into another captured [][]byte variable). A
// payloader that is not built this way is not decided.
func emitOrderRule(c *Ctx, fnName string) int {
	p, r := c.Prog, c.R
	fn := p.Func(fnName)
	if fn == nil {
		return 0
	}
	// the captured variable that is returned
	var result *ssa.Alloc
	for _, b := range fn.Blocks {
		if len(b.Instrs) == 0 {
			continue
		}
		if ret, ok := b.Instrs[len(b.Instrs)-1].(*ssa.Return); ok && len(ret.Results) == 1 {
			if ld, ok := ret.Results[0].(*ssa.UnOp); ok && ld.Op == token.MUL {
				if a, ok := ld.X.(*ssa.Alloc); ok {
					result = a
				}
			}
		}
	}
	if result == nil {
		return 0
	}
	closureVar := map[string]*ssa.Function{}
	for _, b := range fn.Blocks {
		for _, in := range b.Instrs {
			if st, ok := in.(*ssa.Store); ok {
				if mc, ok := st.Val.(*ssa.MakeClosure); ok {
					if a, ok := st.Addr.(*ssa.Alloc); ok {
						if g, ok := mc.Fn.(*ssa.Function); ok {
							closureVar[a.Comment] = g
						}
					}
				}
			}
		}
	}
	writesDirect := func(g *ssa.Function) map[string]bool {
		out := map[string]bool{}
		for _, b := range g.Blocks {
			for _, in := range b.Instrs {
				if st, ok := in.(*ssa.Store); ok {
					if fv, ok := st.Addr.(*ssa.FreeVar); ok && isFragListType(st.Val.Type()) {
						out[fv.Name()] = true
					}
				}
			}
		}
		return out
	}
	flushName := ""
	for name, g := range closureVar {
		w := writesDirect(g)
		if w[result.Comment] && len(w) >= 2 {
			flushName = name
		}
	}
	if flushName == "" {
		return 0
	}
	n := 0
	for _, g := range fn.AnonFuncs {
		if g == closureVar[flushName] {
			continue
		}
		// calls of the flush closure in g
		var flushCalls []*ssa.Call
		for _, b := range g.Blocks {
			for _, in := range b.Instrs {
				if call, ok := in.(*ssa.Call); ok {
					if ld, ok := call.Call.Value.(*ssa.UnOp); ok && ld.Op == token.MUL {
						if fv, ok := ld.X.(*ssa.FreeVar); ok && fv.Name() == flushName {
							flushCalls = append(flushCalls, call)
						}
					}
				}
			}
		}
		for _, b := range g.Blocks {
			for _, in := range b.Instrs {
				st, ok := in.(*ssa.Store)
				if !ok {
					continue
				}
				fv, ok := st.Addr.(*ssa.FreeVar)
				if !ok || fv.Name() != result.Comment {
					continue
				}
				n++
				dominated := false
				for _, fc := range flushCalls {
					if fc.Block() == b {
						if core.Precedes(fc, st) {
							dominated = true
						}
					} else if fc.Block().Dominates(b) {
						dominated = true
					}
				}
				r.Add("STRUCT.emitorder", core.FuncName(g), "a packet of the current unit is appended to the result only after the units held back for aggregation were flushed", p.Position(st.Pos()), dominated,
					"no call of "+flushName+"() dominates this append: buffered units can leave the payloader after this one")
			}
		}
	}
	return n
}
