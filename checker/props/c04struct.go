package props

import (
	"fmt"
	"go/token"

	"golang.org/x/tools/go/ssa"

	"rtpcheck/bounds"
	"rtpcheck/core"
	"rtpcheck/lin"
)

// bufWrites lists the instructions of fn that write into parameter `buf` (stores through an
// index, copy destinations, PutUintN destinations).
func bufWrites(fn *ssa.Function, buf ssa.Value) []ssa.Instruction {
	rootIsBuf := func(v ssa.Value) bool {
		for i := 0; i < 6; i++ {
			switch x := v.(type) {
			case *ssa.Slice:
				v = x.X
				continue
			case *ssa.IndexAddr:
				v = x.X
				continue
			}
			break
		}
		return v == buf
	}
	var out []ssa.Instruction
	for _, b := range fn.Blocks {
		for _, in := range b.Instrs {
			switch x := in.(type) {
			case *ssa.Store:
				if _, ok := x.Addr.(*ssa.IndexAddr); ok && rootIsBuf(x.Addr) {
					out = append(out, x)
				}
			case *ssa.Call:
				switch {
				case core.BuiltinName(x) == "copy" && rootIsBuf(x.Call.Args[0]):
					out = append(out, x)
				case len(x.Call.Args) >= 2 && (core.CalleeFullName(x) == "(encoding/binary.bigEndian).PutUint16" || core.CalleeFullName(x) == "(encoding/binary.bigEndian).PutUint32") && rootIsBuf(x.Call.Args[1]):
					out = append(out, x)
				}
			}
		}
	}
	return out
}

// sizeGuard finds `if X > len(buf) { return ..., err }` and returns the If.
func sizeGuard(fn *ssa.Function, buf ssa.Value) *ssa.If {
	for _, b := range fn.Blocks {
		if len(b.Instrs) == 0 {
			continue
		}
		iff, ok := b.Instrs[len(b.Instrs)-1].(*ssa.If)
		if !ok {
			continue
		}
		cmp, ok := iff.Cond.(*ssa.BinOp)
		if !ok {
			continue
		}
		isLen := func(v ssa.Value) bool {
			call, ok := v.(*ssa.Call)
			return ok && core.BuiltinName(call) == "len" && call.Call.Args[0] == buf
		}
		if (cmp.Op == token.GTR && isLen(cmp.Y)) || (cmp.Op == token.LSS && isLen(cmp.X)) {
			// true successor must return a non-nil error
			t := b.Succs[0]
			if len(t.Instrs) > 0 {
				if ret, ok := t.Instrs[len(t.Instrs)-1].(*ssa.Return); ok && len(ret.Results) == 2 && !core.IsNilConst(ret.Results[1]) {
					return iff
				}
			}
		}
	}
	return nil
}

func c04Struct(c *Ctx) {
	p, r := c.Prog, c.R
	n := 0
	for _, name := range []string{"rtp.(Header).MarshalTo", "rtp.(*Packet).MarshalTo"} {
		fn := p.Func(name)
		if fn == nil {
			missingAnchor(r, name)
			continue
		}
		var buf ssa.Value
		for _, prm := range fn.Params {
			if prm.Name() == "buf" {
				buf = prm
			}
		}
		if buf == nil {
			r.Fatalf("%s: parameter buf not found", name)
			continue
		}
		g := sizeGuard(fn, buf)
		n++
		r.Add("STRUCT.guard", name, "short destination is rejected by `size > len(buf)` before any write", p.Position(fn.Pos()), g != nil, "no guard comparing the required size with len(buf) that returns an error")
		ws := bufWrites(fn, buf)
		for _, w := range ws {
			ok := g != nil && core.EdgeDominates(g.Block(), g.Block().Succs[1], w.Block())
			n++
			r.Add("STRUCT.guard", name, "write dominated by the size guard: "+p.TextAt(w.Pos(), w.String()), p.Position(w.Pos()), ok, "this write to buf can execute without the size check having passed")
		}
		// writes made by new helpers that are handed the buffer: the call must be dominated by the guard
		helperWs := map[*ssa.Function][]ssa.Instruction{}
		helperBuf := map[*ssa.Function]ssa.Value{}
		isNew := map[*ssa.Function]bool{}
		for _, h := range newHelpers(fn) {
			isNew[h] = true
		}
		var visitCalls func(f *ssa.Function, fbuf ssa.Value, at ssa.Instruction, depth int)
		visitCalls = func(f *ssa.Function, fbuf ssa.Value, at ssa.Instruction, depth int) {
			for _, b := range f.Blocks {
				for _, in := range b.Instrs {
					call, isCall := in.(*ssa.Call)
					if !isCall {
						continue
					}
					h := call.Call.StaticCallee()
					if h == nil || !isNew[h] {
						continue
					}
					for i, a := range call.Call.Args {
						root := a
						for k := 0; k < 6; k++ {
							if sl, ok := root.(*ssa.Slice); ok {
								root = sl.X
							}
						}
						if root != fbuf || i >= len(h.Params) {
							continue
						}
						site := at
						if site == nil {
							site = call
						}
						if _, done := helperBuf[h]; !done {
							helperBuf[h] = h.Params[i]
							helperWs[h] = bufWrites(h, h.Params[i])
						}
						for _, w := range helperWs[h] {
							ok := g != nil && core.EdgeDominates(g.Block(), g.Block().Succs[1], site.Block())
							n++
							r.Add("STRUCT.guard", name, "write dominated by the size guard: "+p.TextAt(w.Pos(), w.String())+" (in "+core.FuncName(h)+")", p.Position(w.Pos()), ok, "this write to buf (call at "+p.Position(site.Pos())+") can execute without the size check having passed")
						}
						if depth < 2 {
							visitCalls(h, h.Params[i], site, depth+1)
						}
					}
				}
			}
		}
		visitCalls(fn, buf, nil, 0)
		rmwSets := [][]ssa.Instruction{ws}
		for _, h := range newHelpers(fn) {
			if len(helperWs[h]) > 0 {
				rmwSets = append(rmwSets, helperWs[h])
			}
		}
		// read-modify-write needs a dominating plain store of the same byte
		for _, ws := range rmwSets {
			for _, w := range ws {
				st, ok := w.(*ssa.Store)
				if !ok {
					continue
				}
				or, ok := st.Val.(*ssa.BinOp)
				if !ok || or.Op != token.OR {
					continue
				}
				ld, ok := or.X.(*ssa.UnOp)
				if !ok {
					continue
				}
				r1, p1 := core.AddrKey(ld.X)
				r2, p2 := core.AddrKey(st.Addr)
				if r1 != r2 || p1 != p2 {
					continue
				}
				plain := false
				for _, w2 := range ws {
					s2, ok := w2.(*ssa.Store)
					if !ok || s2 == st {
						continue
					}
					if _, isOr := s2.Val.(*ssa.BinOp); isOr {
						if bo := s2.Val.(*ssa.BinOp); bo.Op == token.OR {
							if l2, ok := bo.X.(*ssa.UnOp); ok {
								ra, pa := core.AddrKey(l2.X)
								if ra == r2 && pa == p2 {
									continue // another |= of the same byte
								}
							}
						}
					}
					ra, pa := core.AddrKey(s2.Addr)
					if ra == r2 && pa == p2 && core.Precedes(s2, st) {
						plain = true
					}
				}
				n++
				r.Add("STRUCT.rmw", name, "|= on "+p.TextAt(st.Pos(), "buf[k]")+" follows a plain store of that byte", p.Position(st.Pos()), plain, "the byte is or-ed into without having been assigned: the result depends on the previous buffer contents")
			}
		}
		// a write inside a loop goes to a position that moves with the loop: a destination that is the same in every
		// iteration (while the value written changes) overwrites one slot again and again and leaves the others alone
		for _, w := range ws {
			if !inAnyLoop(w.Block()) {
				continue
			}
			var at ssa.Value
			switch x := w.(type) {
			case *ssa.Store:
				if ia, ok := x.Addr.(*ssa.IndexAddr); ok {
					at = ia.Index
				}
			case *ssa.Call:
				dst := x.Call.Args[0]
				if core.BuiltinName(x) != "copy" && len(x.Call.Args) > 1 {
					dst = x.Call.Args[1]
				}
				if sl, ok := dst.(*ssa.Slice); ok {
					at = sl.Low
				}
			}
			if at == nil {
				continue // buf[:k] or the whole buffer: position 0 by construction, not a cursor
			}
			variant := false
			var dep func(v ssa.Value, depth int)
			seenV := map[ssa.Value]bool{}
			dep = func(v ssa.Value, depth int) {
				if variant || seenV[v] || depth > 8 {
					return
				}
				seenV[v] = true
				switch y := v.(type) {
				case *ssa.Phi:
					if inAnyLoop(y.Block()) {
						variant = true
					}
				case *ssa.BinOp:
					dep(y.X, depth+1)
					dep(y.Y, depth+1)
				case *ssa.Convert:
					dep(y.X, depth+1)
				case *ssa.UnOp:
					if inAnyLoop(y.Block()) && y.Op == token.MUL {
						variant = true // re-read from memory inside the loop (a cursor kept in a cell)
					}
				case *ssa.Call:
					if inAnyLoop(y.Block()) {
						variant = true
					}
				case *ssa.Extract:
					variant = variant || inAnyLoop(y.Block())
				}
			}
			dep(at, 0)
			n++
			r.Add("STRUCT.loopdest", name, "write inside a loop goes to a position that advances with the loop: "+p.TextAt(w.Pos(), w.String()), p.Position(w.Pos()), variant,
				"the destination offset is the same in every iteration")
		}
		// zero fill: padding bytes are written explicitly
		zeroLoop := false
		allWs := ws
		for _, hw := range helperWs {
			allWs = append(allWs[:len(allWs):len(allWs)], hw...)
		}
		for _, w := range allWs {
			if st, ok := w.(*ssa.Store); ok && inAnyLoop(st.Block()) {
				if k, isC := core.ConstInt(st.Val); isC && k == 0 {
					zeroLoop = true
				}
			}
		}
		if !zeroLoop {
			// the fill may live in a helper that receives the buffer
			for _, b := range blocksWithCallees(fn) {
				// only unexported helpers: Header.MarshalTo and the like are checked on their own
				if b.Parent() != fn && token.IsExported(b.Parent().Name()) {
					continue
				}
				for _, in := range b.Instrs {
					st, ok := in.(*ssa.Store)
					if !ok || !inAnyLoop(b) {
						continue
					}
					if _, isIdx := st.Addr.(*ssa.IndexAddr); !isIdx {
						continue
					}
					if k, isC := core.ConstInt(st.Val); isC && k == 0 {
						zeroLoop = true
					}
				}
			}
		}
		n++
		r.Add("STRUCT.zero", name, "padding octets are written as zero in a loop", p.Position(fn.Pos()), zeroLoop, "no loop storing 0 into buf: padding keeps the previous buffer contents")
	}
	r.Floor("C04 structural rule instances", n, 16)
}

// ---- C05 ----------------------------------------------------------------------------------------------

func c05Struct(c *Ctx) {
	p, r := c.Prog, c.R
	n := 0
	// effect-before-error
	for _, name := range []string{"rtp.(*Header).SetExtension", "rtp.(*Header).DelExtension"} {
		fn := p.Func(name)
		if fn == nil {
			missingAnchor(r, name)
			continue
		}
		recv := fn.Params[0]
		var errBlocks []*ssa.BasicBlock
		for _, b := range fn.Blocks {
			if len(b.Instrs) == 0 {
				continue
			}
			if ret, ok := b.Instrs[len(b.Instrs)-1].(*ssa.Return); ok && len(ret.Results) == 1 && !core.IsNilConst(core.Resolve(ret.Results[0])) {
				errBlocks = append(errBlocks, b)
			}
		}
		for _, b := range fn.Blocks {
			for _, in := range b.Instrs {
				st, ok := in.(*ssa.Store)
				if !ok {
					continue
				}
				root, path := core.AddrKey(st.Addr)
				if root != ssa.Value(recv) {
					continue
				}
				bad := ""
				reach := core.Reachable(b)
				for _, eb := range errBlocks {
					if reach[eb] {
						bad = p.Position(eb.Instrs[len(eb.Instrs)-1].Pos())
					}
				}
				n++
				r.Add("STRUCT.effect", name, "store to h"+path+" cannot be followed by an error return", p.Position(st.Pos()), bad == "",
					"after this store the error return at "+bad+" is still reachable: a failed call changes the header")
			}
		}
		n++
		r.Add("STRUCT.effect", name, "has error returns", p.Position(fn.Pos()), len(errBlocks) >= 1, "")
	}
	n += delOrderRule(c)
	r.Floor("C05 effect rule instances", n, 4)
}

// c05Hooks: validation dominance with range entailment at every insertion into h.Extensions.
func c05Hooks(c *Ctx) *bounds.Hooks {
	p := c.Prog
	se := p.Func("rtp.(*Header).SetExtension")
	if se == nil {
		return nil
	}
	recv, id, payload := se.Params[0], se.Params[1], se.Params[2]
	return &bounds.Hooks{AtInstr: func(h *bounds.Helper, fn *ssa.Function, in ssa.Instruction, d *bounds.Disjunct) {
		if fn != se || h.Depth() != 0 {
			return
		}
		st, ok := in.(*ssa.Store)
		if !ok {
			return
		}
		root, path := core.AddrKey(st.Addr)
		isInsert := root == ssa.Value(recv) && path == ".Extensions"
		if fa, ok := st.Addr.(*ssa.FieldAddr); ok && core.FieldName(fa) == "payload" {
			if _, isIdx := fa.X.(*ssa.IndexAddr); isIdx {
				isInsert = true // replacing the value of an existing element
			}
		}
		if !isInsert {
			return
		}
		prof := d.MemInt(recv, ".ExtensionProfile")
		if prof == nil {
			h.Oblige("insertion: extension profile known on this path", false, "the profile in force is not determined where the element is stored")
			return
		}
		idl, ln := d.Int(id), d.Len(payload)
		eq := func(k int64) bool { return d.Entails(lin.EQ(prof, lin.Const(k))...) }
		ne := func(k int64) bool { return !d.Satisfiable(lin.EQ(prof, lin.Const(k))...) }
		switch {
		case eq(0xBEDE):
			okv := d.Entails(lin.GE(idl, lin.Const(1)), lin.LE(idl, lin.Const(14)), lin.GE(ln, lin.Const(1)), lin.LE(ln, lin.Const(16)))
			h.Oblige("insertion under the one-byte profile: id in 1..14 and 1..16 value bytes", okv, "a one-byte element outside RFC 8285 4.2 can be stored: "+d.Describe(lin.GE(ln, lin.Const(1))))
		case eq(0x1000):
			okv := d.Entails(lin.GE(idl, lin.Const(1)), lin.LE(ln, lin.Const(255)))
			h.Oblige("insertion under the two-byte profile: id in 1..255 and at most 255 value bytes", okv, "a two-byte element outside RFC 8285 4.3 can be stored")
		case ne(0xBEDE) && ne(0x1000):
			okv := d.Entails(lin.EQ(idl, lin.Const(0))...)
			h.Oblige("insertion under a legacy profile: id = 0", okv, "a legacy (RFC 3550) extension with a non-zero id can be stored")
		default:
			h.Oblige("insertion: extension profile known on this path", false, "the profile in force is not determined where the element is stored")
		}
	}}
}

var _ = fmt.Sprintf

// delOrderRule: DelExtension removes element i by shifting the tail down:
// h.Extensions = append(h.Extensions[:i], h.Extensions[i+1:]...), which keeps first-insertion order.
func delOrderRule(c *Ctx) int {
	p, r := c.Prog, c.R
	fn := p.Func("rtp.(*Header).DelExtension")
	if fn == nil {
		r.Fatalf("anchor DelExtension missing")
		return 0
	}
	ok := false
	nStores := 0
	for _, b := range fn.Blocks {
		for _, in := range b.Instrs {
			st, isSt := in.(*ssa.Store)
			if !isSt {
				continue
			}
			root, path := core.AddrKey(st.Addr)
			if root != ssa.Value(fn.Params[0]) || path != ".Extensions" {
				continue
			}
			nStores++
			call, isCall := st.Val.(*ssa.Call)
			if !isCall || core.BuiltinName(call) != "append" || len(call.Call.Args) != 2 {
				continue
			}
			head, ok1 := call.Call.Args[0].(*ssa.Slice)
			tail, ok2 := call.Call.Args[1].(*ssa.Slice)
			if !ok1 || !ok2 || head.Low != nil || head.High == nil || tail.Low == nil || tail.High != nil {
				continue
			}
			// tail.Low = head.High + 1
			if add, isAdd := tail.Low.(*ssa.BinOp); isAdd && add.Op == token.ADD && add.X == head.High {
				if k, isC := core.ConstInt(add.Y); isC && k == 1 && loadedField(head.X) == "Extensions" && loadedField(tail.X) == "Extensions" {
					ok = true
				}
			}
		}
	}
	r.Add("STRUCT.order", core.FuncName(fn), "removal shifts the tail down (append(ext[:i], ext[i+1:]...)): insertion order preserved", p.Position(fn.Pos()), ok && nStores == 1,
		fmt.Sprintf("%d stores to h.Extensions; none has the order-preserving shift form", nStores))
	return 1
}

// c04Hooks: Packet.MarshalTo never writes at or beyond the count it returns. The total is the
// left operand of the size guard `total > len(buf)`; a write into buf, or into a slice cut from it,
// at offset o is at absolute position (cap(buf) - cap(slice)) + o, since cutting a slice at its low
// end reduces the capacity by the amount skipped. Decided by entailment for every store; for Header.MarshalTo the
// same bound needs the MarshalSize/MarshalTo sum agreement and is covered by SIBLING.size instead.
func c04Hooks(c *Ctx) *bounds.Hooks {
	p := c.Prog
	fn := p.Func("rtp.(*Packet).MarshalTo")
	if fn == nil || len(fn.Params) < 2 {
		return nil
	}
	buf := fn.Params[1]
	var total ssa.Value
	for _, b := range fn.Blocks {
		for _, in := range b.Instrs {
			cmp, ok := in.(*ssa.BinOp)
			if !ok {
				continue
			}
			isLenBuf := func(v ssa.Value) bool {
				lc, ok := v.(*ssa.Call)
				return ok && core.BuiltinName(lc) == "len" && lc.Call.Args[0] == ssa.Value(buf)
			}
			switch {
			case cmp.Op == token.GTR && isLenBuf(cmp.Y):
				total = cmp.X
			case cmp.Op == token.LSS && isLenBuf(cmp.X):
				total = cmp.Y
			}
		}
	}
	if total == nil {
		return nil
	}
	return &bounds.Hooks{AtInstr: func(h *bounds.Helper, f *ssa.Function, in ssa.Instruction, d *bounds.Disjunct) {
		if f != fn || h.Depth() != 0 {
			return
		}
		st, ok := in.(*ssa.Store)
		if !ok {
			return
		}
		ia, ok := st.Addr.(*ssa.IndexAddr)
		if !ok {
			return
		}
		// the indexed slice must be cut from buf
		root := ia.X
		for {
			if sl, ok := root.(*ssa.Slice); ok {
				root = sl.X
				continue
			}
			break
		}
		if root != ssa.Value(buf) || !d.Has(total) {
			return
		}
		cb, cs, idx, tot := d.Cap(buf), d.Cap(ia.X), d.Int(ia.Index), d.Int(total)
		if cb == nil || cs == nil || idx == nil || tot == nil {
			return
		}
		abs := cb.Sub(cs).Add(idx)
		q := lin.LT(abs, tot)
		h.Oblige("write stays below the returned count", d.Entails(q), "a destination byte at or beyond header+payload+padding may be written: "+d.Describe(q))
	}}
}

// lenFieldRule: in Header.MarshalTo every success return that is reached after the extension
// profile has been written also has the 16-bit extension length written (by the function itself or
// by a helper it calls): an early return between the two leaves two destination octets with whatever
// the buffer held before.
func lenFieldRule(c *Ctx) int {
	p, r := c.Prog, c.R
	fn := p.Func("rtp.(Header).MarshalTo")
	if fn == nil {
		return 0
	}
	isPut16 := func(in ssa.Instruction) bool {
		call, ok := in.(*ssa.Call)
		return ok && core.CalleeFullName(call) == "(encoding/binary.bigEndian).PutUint16"
	}
	writesLen := func(in ssa.Instruction) bool {
		call, ok := in.(*ssa.Call)
		if !ok {
			return false
		}
		if isPut16(call) {
			return loadedField(call.Call.Args[2]) != "ExtensionProfile" && fieldOfValueName(call.Call.Args[2]) != "ExtensionProfile"
		}
		if g := call.Call.StaticCallee(); g != nil && core.InModule(g) && g.Pkg == fn.Pkg {
			for _, b := range blocksWithCallees(g) {
				for _, gi := range b.Instrs {
					if isPut16(gi) {
						return true
					}
				}
			}
		}
		return false
	}
	var profBlock *ssa.BasicBlock
	var profIdx int
	for _, b := range fn.Blocks {
		for i, in := range b.Instrs {
			if call, ok := in.(*ssa.Call); ok && isPut16(call) {
				if loadedField(call.Call.Args[2]) == "ExtensionProfile" || fieldOfValueName(call.Call.Args[2]) == "ExtensionProfile" {
					profBlock, profIdx = b, i
				}
			}
		}
	}
	if profBlock == nil {
		r.Infof("STRUCT.lenfield: profile write not recognised in Header.MarshalTo; rule not decided")
		return 0
	}
	bad := ""
	seen := map[*ssa.BasicBlock]bool{}
	var walk func(b *ssa.BasicBlock, from int)
	walk = func(b *ssa.BasicBlock, from int) {
		for i := from; i < len(b.Instrs); i++ {
			in := b.Instrs[i]
			if writesLen(in) {
				return
			}
			if ret, ok := in.(*ssa.Return); ok {
				if len(ret.Results) > 0 && core.IsNilConst(core.Resolve(ret.Results[len(ret.Results)-1])) && bad == "" {
					bad = p.Position(ret.Pos())
				}
				return
			}
		}
		for _, s := range b.Succs {
			if !seen[s] {
				seen[s] = true
				walk(s, 0)
			}
		}
	}
	walk(profBlock, profIdx+1)
	r.Add("STRUCT.lenfield", core.FuncName(fn), "the extension length field is written on every success path that wrote the profile", p.Position(fn.Pos()), bad == "",
		"the success return at "+bad+" is reachable after the profile write without the length field being written")
	return 1
}

// fieldOfValueName: v is a field read of a struct value (value receiver): its name.
func fieldOfValueName(v ssa.Value) string {
	if f, ok := v.(*ssa.Field); ok {
		return core.FieldOfValue(f)
	}
	return ""
}
