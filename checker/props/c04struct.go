package props

func c04Struct(c *Ctx) {}
func c05Struct(c *Ctx) {}
