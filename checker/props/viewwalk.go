package props

import (
	"fmt"
	"go/token"

	"golang.org/x/tools/go/ssa"

	"rtpcheck/bounds"
	"rtpcheck/core"
	"rtpcheck/lin"
)

// CTR.walk-exit — a walk over an extension block may give up ("not found", "that is all") only
// when the cursor has reached the end of the block, or at the reserved id 15 (RFC 8285 4.2), which
// is where Header.Unmarshal stops too. For every return that lies behind the element loop the path
// condition must entail cursor >= len(block) or id == 15. An extra early exit (a "truncated
// element" test that is off by one) makes a view drop a well-formed trailing element that
// Header.Unmarshal decodes. Only this contract is taken from the BOUNDS run of the views; their
// panic obligations on malformed blocks are outside C03 (well-formed blocks only).
func viewWalkExit(c *Ctx) int {
	p, r := c.Prog, c.R
	n := 0
	for _, t := range []string{"OneByteHeaderExtension", "TwoByteHeaderExtension"} {
		for _, mn := range []string{"GetIDs", "Get", "Set", "Del"} {
			name := "rtp.(*" + t + ")." + mn
			fn := p.Func(name)
			if fn == nil {
				missingAnchor(r, name)
				continue
			}
			// the element loop: header block ending in `if cursor < len(...)` with a phi cursor
			var cursor *ssa.Phi
			var limit ssa.Value
			var done *ssa.BasicBlock
			for _, b := range fn.Blocks {
				if len(b.Instrs) == 0 || !inAnyLoop(b) {
					continue
				}
				iff, ok := b.Instrs[len(b.Instrs)-1].(*ssa.If)
				if !ok {
					continue
				}
				cmp, ok := iff.Cond.(*ssa.BinOp)
				if !ok || cmp.Op != token.LSS {
					continue
				}
				ph, ok := cmp.X.(*ssa.Phi)
				if !ok || ph.Block() != b {
					continue
				}
				cursor, limit, done = ph, cmp.Y, b.Succs[1]
			}
			if cursor == nil {
				n++
				r.Add("CTR.walk-exit", name, "element loop `for cursor < len(block)` found", p.Position(fn.Pos()), false, "no loop header compares a cursor phi with a length")
				continue
			}
			var reserved []ssa.Value
			for _, b := range fn.Blocks {
				for _, in := range b.Instrs {
					if cmp, ok := in.(*ssa.BinOp); ok && cmp.Op == token.EQL {
						if k, isC := core.ConstInt(cmp.Y); isC && k == 15 {
							reserved = append(reserved, cmp.X)
						}
					}
				}
			}
			okAll, nRet := true, 0
			detail := ""
			hooks := &bounds.Hooks{AtReturn: func(h *bounds.Helper, f *ssa.Function, ret *ssa.Return, d *bounds.Disjunct) {
				if f != fn || !(done == ret.Block() || done.Dominates(ret.Block())) {
					return
				}
				nRet++
				cur, lim := d.Int(cursor), d.Int(limit)
				if cur != nil && lim != nil && d.Entails(lin.GE(cur, lim)) {
					return
				}
				for _, x := range reserved {
					if d.Has(x) {
						if v := d.Int(x); v != nil && d.Entails(lin.EQ(v, lin.Const(15))...) {
							return
						}
					}
				}
				if okAll {
					okAll = false
					detail = fmt.Sprintf("the return at %s is reachable with the cursor inside the block: %s", p.Position(ret.Pos()), d.Describe(lin.GE(cur, lim)))
				}
			}}
			eng := bounds.New(p, bounds.Config{K: 64, MaxDepth: 7, RetCap: 8}, hooks)
			eng.AnalyzeEntry(fn)
			n++
			r.Add("CTR.walk-exit", name, "the walk gives up only at the end of the block or at the reserved id", p.Position(fn.Pos()), okAll && nRet > 0, detail)
		}
	}
	return n
}
