package props

import (
	"strings"

	"golang.org/x/tools/go/ssa"
)

func init() { Registry["C19"] = c19 }

// C19 — Video Layers Allocation extension encodes per spec and round-trips.
func c19(c *Ctx) {
	p, r := c.Prog, c.R
	r.Explain = "BOUNDS: VLA.Unmarshal never panics and never reports more bytes than given (contract at every return); " +
		"RESET R1: decoded fields are defined on every success path (decode into a used VLA = fresh); " +
		"STRUCT: Marshal validation entails the specification's range table and dominates every write."
	um := p.Method("rtp", "VLA", "Unmarshal")
	ma := p.Method("rtp", "VLA", "Marshal")
	if um == nil || ma == nil {
		r.Fatalf("C19 anchors missing")
		return
	}
	n := resetR1(c, um, 0, nil)
	minLenRule(c, []minLenRow{{fn: "rtp.(*VLA).Unmarshal", want: []int{2}, minOnly: true, why: "header octet + #tl octet"}})
	r.Floor("decoded fields checked by RESET.R1", n, 3)
	// decoded and encoded quantities are 16-bit or wider on the wire: no computation on them may be done in
	// arithmetic narrower than int that can wrap (width/height minus one, stream and layer counts)
	c.wrapScope = map[string]bool{}
	for name := range p.Funcs {
		// decoding side only: the encoder packs validated nibbles with byte shifts
		if strings.HasPrefix(name, "rtp.(*VLA).") && strings.Contains(strings.ToLower(name), "unmarshal") {
			c.wrapScope[name] = true
		}
	}
	boundsFor(c, "C19", []*ssa.Function{um, ma})
	accFreshFor(c, 4, "vlaextension.go")
	r.Floor("VLA stream/spatial walks", vlaWalkRule(c), 8)
	if k := scanAllRule(c, "rtp.commonSLBMValues", "shared spatial-layer bitmask"); k > 0 {
		r.Infof("SCAN.all: %d return(s) of a scan result checked", k)
	}
	if k := vlaSizeRule(c); k == 0 {
		r.Infof("SIBLING.vlasize: no store into requiredLen whose value depends only on the stream count and the number of layers: not decided")
	}
}
