package props

import (
	"strings"

	"golang.org/x/tools/go/ssa"

	"rtpcheck/bounds"
	"rtpcheck/core"
	"rtpcheck/lin"
)

// extLenHooks: RFC 3550 5.3.1 — "the header extension contains a 16-bit length field that counts the
// number of 32-bit words in the extension, excluding the four-octet extension header".
//
// In Header.MarshalTo the profile is written with PutUint16 at some position p (the value is a load of
// h.ExtensionProfile) and the length field with PutUint16 at p+2. On every success return that passed
// both, the value v handed to the second call (before its conversion to uint16 — a block of more than
// 65535 words is outside the property's domain) must satisfy 4*v = n - (p+4), n being the returned
// header length. When the two writes are not found in the entry function itself (moved into a
// helper), the clause is reported as not decided.
func extLenHooks(c *Ctx, mt *ssa.Function, decided *int) *bounds.Hooks {
	var profPut, lenPut *ssa.Call
	var pos ssa.Value
	isPut := func(in ssa.Instruction) (*ssa.Call, bool) {
		cl, ok := in.(*ssa.Call)
		if !ok || len(cl.Call.Args) != 3 {
			return nil, false
		}
		if f := cl.Call.StaticCallee(); f == nil || !strings.HasSuffix(f.String(), "bigEndian).PutUint16") {
			return nil, false
		}
		return cl, true
	}
	for _, b := range mt.Blocks {
		for _, in := range b.Instrs {
			cl, ok := isPut(in)
			if !ok {
				continue
			}
			src := stripConv(cl.Call.Args[2])
			name := loadedField(src)
			if fv, ok := src.(*ssa.Field); ok {
				name = core.FieldOfValue(fv)
			}
			if name == "ExtensionProfile" {
				profPut = cl
			}
		}
	}
	if profPut != nil {
		if sl, ok := profPut.Call.Args[1].(*ssa.Slice); ok && sl.Low != nil {
			pos = sl.Low
		}
	}
	if pos != nil {
		// the other PutUint16 into the same buffer that is dominated by the profile write
		for _, b := range mt.Blocks {
			for _, in := range b.Instrs {
				cl, ok := isPut(in)
				if !ok || cl == profPut || !profPut.Block().Dominates(cl.Block()) {
					continue
				}
				psl, _ := profPut.Call.Args[1].(*ssa.Slice)
				if sl, ok := cl.Call.Args[1].(*ssa.Slice); ok && sl.X == psl.X {
					lenPut = cl
				}
			}
		}
	}
	if lenPut == nil {
		c.R.Infof("CTR.extlen: the profile/length writes of the extension header were not found in %s itself: not decided", core.FuncName(mt))
		return nil
	}
	return &bounds.Hooks{AtReturn: func(h *bounds.Helper, fn *ssa.Function, ret *ssa.Return, d *bounds.Disjunct) {
		if fn != mt || len(ret.Results) != 2 || !d.ErrIsNil(ret.Results[1]) {
			return
		}
		lsl := lenPut.Call.Args[1].(*ssa.Slice)
		if !d.Has(lsl) || !d.Has(profPut.Call.Args[1]) {
			return // no extension block on this path
		}
		*decided++
		v := stripConv(lenPut.Call.Args[2]) // only conversions of the final value are looked through
		if !d.Has(v) {
			h.Oblige("extension length field counts the 32-bit words of the block", false, "value written to the length field not tracked")
			return
		}
		p0 := d.Int(pos)
		n := d.Int(ret.Results[0])
		vv := d.Int(v)
		q := lin.EQ(vv.Scale(4), n.Sub(p0).AddConst(-4))
		h.Oblige("extension length field counts the 32-bit words of the block", d.Entails(q...), d.Describe(q[0])+" ; "+d.Describe(q[1]))
		// and it is written right behind the profile
		at := lin.EQ(d.Int(lsl.Low), p0.AddConst(2))
		h.Oblige("extension length field sits two octets behind the profile", d.Entails(at...), d.Describe(at[0]))
	}}
}
