package props

import (
	"time"

	"rtpcheck/core"
	"rtpcheck/own"
)

func init() { Registry["C08"] = c08 }

// C08 — Payloaders respect the MTU, never panic, and neither modify nor retain the input.
func c08(c *Ctx) {
	r := c.R
	r.Explain = "OWN O1/O2/O3 over Payload of every rtp.Payloader implementation (callees and closures interpreted in " +
		"place): no write whose destination may be the input buffer, every returned fragment freshly allocated, no " +
		"receiver state pointing into the input at exit. BOUNDS: panic obligations and the fragment<=MTU contract (see per_rule). The MTU contract covers the AV1 payloader: its helpers are analysed modularly (preconditions owed at the calls, computeWriteSize's postcondition proved at its returns), the last packet of the list is a ghost memory cell, and the LEB128 length table is re-derived from WriteToLeb128 in the same run (LEB.len)."
	fns := payloaders(c)
	r.Floor("rtp.Payloader implementations", len(fns), 8)
	writes, outs, keeps := 0, 0, 0
	for _, fn := range fns {
		t0 := time.Now()
		res := own.Analyze(c.Prog, fn)
		r.Infof("OWN %s: %.2fs, %d funcs", core.FuncName(fn), time.Since(t0).Seconds(), len(res.Funcs))
		if len(res.Returns) == 0 {
			r.Fatalf("%s: no return analysed", core.FuncName(fn))
		}
		writes += ownNoWriteInput(c, res, 2)
		outs += ownFreshOut(c, res)
		keeps += ownNoRetain(c, res, 0, 2, nil)
		ownNoEscape(c, res, 2)
		for f := range res.Funcs {
			r.FuncsSeen[core.FuncName(f)] = true
		}
	}
	r.Floor("write sites checked (O3)", writes, 60)
	r.Floor("result origin checks (O2)", outs, 16)
	r.Floor("retained-state fields checked (O1)", keeps, 2)
	fns = append(fns, av1Setup(c)...)
	r.Floor("LEB128 length lemma rows (LEB.len)", lebRules(c, "len"), 10)
	boundsFor(c, "C08", fns)
	nm := 0
	for _, o := range r.Obls {
		if o.Rule == "BOUNDS.CTR" {
			nm++
		}
	}
	r.Floor("fragment <= MTU contract sites", nm, 10)
}
