package props

import (
	"golang.org/x/tools/go/ssa"

	"rtpcheck/core"
)

// STRUCT.loopalias — a per-element pointer must point at a per-iteration variable. Inside a loop,
// storing the address of a local variable into an element (unit.dond = &dond) is only correct when
// the variable is allocated in the same iteration; if the variable lives outside the loop and is
// re-assigned in it, every element ends up pointing at the one variable holding the last value.
// Returns the number of (loop, address-stored variable) pairs examined.
func loopAliasRule(c *Ctx, fn *ssa.Function) int {
	p, r := c.Prog, c.R
	reach := func(from, to *ssa.BasicBlock) bool {
		seen := map[*ssa.BasicBlock]bool{}
		stack := append([]*ssa.BasicBlock{}, from.Succs...)
		for len(stack) > 0 {
			x := stack[len(stack)-1]
			stack = stack[:len(stack)-1]
			if x == to {
				return true
			}
			if seen[x] {
				continue
			}
			seen[x] = true
			stack = append(stack, x.Succs...)
		}
		return false
	}
	n := 0
	for _, b := range fn.Blocks {
		for _, in := range b.Instrs {
			st, ok := in.(*ssa.Store)
			if !ok {
				continue
			}
			a, ok := st.Val.(*ssa.Alloc)
			if !ok || !inAnyLoop(b) {
				continue
			}
			n++
			ab := a.Block()
			sameIteration := ab == b || (reach(b, ab) && reach(ab, b))
			bad := false
			if !sameIteration {
				// the variable is re-assigned inside the loop that stores its address
				for _, ref := range *a.Referrers() {
					if s2, ok := ref.(*ssa.Store); ok && s2.Addr == a {
						sb := s2.Block()
						if sb == b || (reach(b, sb) && reach(sb, b)) {
							bad = true
						}
					}
				}
			}
			r.Add("STRUCT.loopalias", core.FuncName(fn), "&"+a.Comment+" stored per element points at a per-iteration variable", p.Position(st.Pos()), !bad,
				"the variable is declared outside the loop and re-assigned inside it: all elements share it")
		}
	}
	return n
}
