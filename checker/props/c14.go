package props

import (
	"fmt"
	"go/token"

	"golang.org/x/tools/go/ssa"

	"rtpcheck/bits"
	"rtpcheck/core"
)

func init() { Registry["C14"] = c14 }

// accessor table, RFC 7798: payload header (1.1.4), FU header (4.4.3), PACI (4.4.4), TSCI (4.5).
// value = the receiver value (param h) or the field named; MSB first.
var h265Accessors = []struct{ fn, spec, prefix string }{
	{"codecs.(H265NALUHeader).F", "h.15", "param:"},
	{"codecs.(H265NALUHeader).Type", "0 0 h.14-9", "param:"},
	{"codecs.(H265NALUHeader).LayerID", "0 0 h.8-3", "param:"},
	{"codecs.(H265NALUHeader).TID", "0x5 h.2-0", "param:"},
	{"codecs.(H265NALUHeader).IsTypeVCLUnit", "!h.14", "param:"},
	{"codecs.(H265FragmentationUnitHeader).S", "h.7", "param:"},
	{"codecs.(H265FragmentationUnitHeader).E", "h.6", "param:"},
	{"codecs.(H265FragmentationUnitHeader).FuType", "0 0 h.5-0", "param:"},
	{"codecs.(*H265PACIPacket).A", "paciHeaderFields.15", "recv."},
	{"codecs.(*H265PACIPacket).CType", "0 0 paciHeaderFields.14-9", "recv."},
	{"codecs.(*H265PACIPacket).PHSsize", "0 0 0 paciHeaderFields.8-4", "recv."},
	{"codecs.(*H265PACIPacket).F0", "paciHeaderFields.3", "recv."},
	{"codecs.(*H265PACIPacket).F1", "paciHeaderFields.2", "recv."},
	{"codecs.(*H265PACIPacket).F2", "paciHeaderFields.1", "recv."},
	{"codecs.(*H265PACIPacket).Y", "paciHeaderFields.0", "recv."},
	// TSCI: TL0PICIDX(8) IrapPicID(8) S E RES(6), held in the top 24 bits of a uint32
	{"codecs.(H265TSCI).TL0PICIDX", "h.31-24", "param:"},
	{"codecs.(H265TSCI).IrapPicID", "h.23-16", "param:"},
	{"codecs.(H265TSCI).S", "h.15", "param:"},
	{"codecs.(H265TSCI).E", "h.14", "param:"},
	{"codecs.(H265TSCI).RES", "0 0 h.13-8", "param:"},
}

// type predicates: Type() == constant
var h265TypePreds = []struct {
	fn  string
	val uint64
}{
	{"codecs.(H265NALUHeader).IsAggregationPacket", 48},
	{"codecs.(H265NALUHeader).IsFragmentationUnit", 49},
	{"codecs.(H265NALUHeader).IsPACIPacket", 50},
}

// C14 — H265 packetization is lossless, RFC 7798-shaped; parser decodes every form.
func c14(c *Ctx) {
	p, r := c.Prog, c.R
	r.Explain = "BITS: every H265 header/FU/PACI/TSCI accessor is a pure bit function whose provenance vector is compared " +
		"with the RFC 7798 tables (complete for that clause: equality of vectors is equality on all inputs); TSCI() assembly " +
		"and the per-form parsers' header reads; payloader FU header construction. BOUNDS contract: a fragmented unit yields " +
		">= 2 FUs. Reassembly equality over NAL sequences is not decided. CTR: at least one full fragment before the FU loop (the strict clause is known finding D11b), S/E flags, aggregated unit size prefixes; left shifts in the payloader must not wrap."
	n := 0
	for _, a := range h265Accessors {
		fn := p.Func(a.fn)
		if fn == nil {
			missingAnchor(r, a.fn)
			continue
		}
		m := bits.Run(p, fn)
		if len(m.Returns) != 1 || len(m.Returns[0].Results) != 1 {
			r.Add("BITS.acc", a.fn, "single pure return", p.Position(fn.Pos()), false, fmt.Sprintf("%d returns", len(m.Returns)))
			continue
		}
		n++
		checkVec(c, "BITS.acc", a.fn, "result", p.Position(fn.Pos()), m.Returns[0].Results[0], a.spec, a.prefix)
	}
	typeSpec, _ := parseSpec("0 0 h.14-9", "param:")
	for _, tp := range h265TypePreds {
		fn := p.Func(tp.fn)
		if fn == nil {
			missingAnchor(r, tp.fn)
			continue
		}
		m := bits.Run(p, fn)
		ok, detail := false, "result is not `Type() == constant`"
		if len(m.Returns) == 1 {
			if ci, has := m.Cmps[m.Returns[0].Ret.Results[0]]; has && ci.Op == token.EQL {
				okv, why := matchSpec(ci.Vec, typeSpec)
				ok = okv && ci.Const == tp.val
				detail = fmt.Sprintf("compares %s with %d (%s)", ci.Vec, ci.Const, why)
			}
		}
		n++
		r.Add("BITS.acc", tp.fn, fmt.Sprintf("result = (Type() == %d)", tp.val), p.Position(fn.Pos()), ok, detail)
	}
	// newH265NALUHeader: big-endian pair
	if fn := p.Func("codecs.newH265NALUHeader"); fn != nil {
		m := bits.Run(p, fn)
		if len(m.Returns) == 1 {
			n++
			checkVec(c, "BITS.acc", core.FuncName(fn), "result", p.Position(fn.Pos()), m.Returns[0].Results[0], "highByte.7-0 lowByte.7-0", "param:")
		}
	} else {
		r.Fatalf("anchor codecs.newH265NALUHeader missing")
	}
	// TSCI(): the three PHES octets land where the accessors read them
	if fn := p.Func("codecs.(*H265PACIPacket).TSCI"); fn != nil {
		m := bits.Run(p, fn)
		want, _ := parseSpec("recv.phes[0].7-0 recv.phes[1].7-0 recv.phes[2].7-0 0x8", "")
		found := false
		m.EachCell(func(_ string, v bits.Vec) {
			if ok, _ := matchSpec(v, want); ok {
				found = true
			}
		})
		n++
		r.Add("BITS.acc", core.FuncName(fn), "TSCI value = phes[0] phes[1] phes[2] 0x00 (big-endian, top 24 bits)", p.Position(fn.Pos()), found,
			"no cell holds PHES octets 0,1,2 in bits 31..8")
	} else {
		r.Fatalf("anchor TSCI missing")
	}
	r.Floor("H265 accessor table rows", n, 25)
	c14Parsers(c)
	c14Payloader(c)
	np := presenceRule(c, "codecs.(*H265SingleNALUnitPacket).Unmarshal", []presRow{{"mightNeedDONL", []string{"donl"}}})
	np += presenceRule(c, "codecs.(*H265FragmentationUnitPacket).Unmarshal", []presRow{{"mightNeedDONL", []string{"donl"}}})
	minLenRule(c, []minLenRow{
		{fn: "codecs.(*H265SingleNALUnitPacket).Unmarshal", want: []int{3, 5}, why: "2 header octets + >=1 payload octet; +2 with DONL"},
		{fn: "codecs.(*H265FragmentationUnitPacket).Unmarshal", want: []int{4, 6}, why: "2 header + FU header + >=1 payload octet; +2 with DONL on the S fragment"},
		{fn: "codecs.(*H265PACIPacket).Unmarshal", want: []int{5, 6}, why: "2 header + 2 PACI octets + PHES + >=1 payload octet"},
		{fn: "codecs.(*H265AggregationPacket).Unmarshal", want: []int{4}, minOnly: true, why: "2 header octets + first unit size field (lower bound of the analysis; the true minimum is 6)"},
		{fn: "codecs.(*H265Packet).Unmarshal", want: []int{3}, minOnly: true, why: "shortest form is the single NAL unit packet"}})
	r.Floor("H265 DONL presence rows", np, 2)
	if ns := staleRule(c, "codecs.(*H265Payloader).Payload"); ns == 0 {
		r.Infof("STRUCT.stale: no reader/writer closure pair found in H265Payloader.Payload; rule not decided")
	}
	if k := emitOrderRule(c, "codecs.(*H265Payloader).Payload"); k == 0 {
		r.Infof("STRUCT.emitorder: H265Payloader.Payload is not built from a flush closure and a callback that appends to the result: not decided")
	}
	if k := minFoldRule(c, "codecs.(*H265Payloader).Payload", map[string]bool{"codecs.(H265NALUHeader).LayerID": true, "codecs.(H265NALUHeader).TID": true},
		"aggregation header"); k == 0 {
		r.Infof("FOLD.min: no LayerID()/TID() result is compared with a value carried round a loop in H265Payloader.Payload: the lowest-LayerId/lowest-TID clause is not decided")
	} else {
		r.Infof("FOLD.min: %d running-minimum fold(s) over the aggregated units checked", k)
	}
	na := 0
	restructured := false
	for _, nme := range []string{"codecs.(*H265AggregationPacket).Unmarshal", "codecs.(*H265SingleNALUnitPacket).Unmarshal", "codecs.(*H265FragmentationUnitPacket).Unmarshal", "codecs.(*H265PACIPacket).Unmarshal"} {
		if f := p.Func(nme); f != nil {
			for _, g := range scopeOf(f) {
				na += loopAliasRule(c, g)
			}
			if len(newHelpers(f)) > 0 {
				restructured = true
			}
		} else {
			missingAnchor(r, nme)
		}
	}
	if na == 0 && restructured {
		// the per-unit pointer is no longer the address of a local stored in the loop (units built by a helper or
		// by struct literals): nothing for the rule to look at
		r.Infof("STRUCT.loopalias: no address of a local is stored per element in the restructured parsers: not decided")
	} else {
		r.Floor("per-element pointers into loop variables (DOND)", na, 1)
	}
	var entries []*ssa.Function
	// the per-form parsers are exported types of their own: they are analysed standalone as well as below
	// H265Packet.Unmarshal (whose length check makes their own first guard redundant in that context)
	for _, nme := range []string{"codecs.(*H265Payloader).Payload", "codecs.(*H265Packet).Unmarshal", "codecs.(*H265Packet).IsPartitionHead",
		"codecs.(*H265SingleNALUnitPacket).Unmarshal", "codecs.(*H265AggregationPacket).Unmarshal", "codecs.(*H265FragmentationUnitPacket).Unmarshal", "codecs.(*H265PACIPacket).Unmarshal"} {
		if f := p.Func(nme); f != nil {
			entries = append(entries, f)
		} else {
			missingAnchor(r, nme)
		}
	}
	// narrow-integer arithmetic in the payloader builds header fields (layer id << 3 | tid): a shift or sum that
	// does not fit its type silently drops header bits, so possible wrap-around is an obligation there
	c.wrapScope, c.wrapShiftOnly = map[string]bool{}, map[string]bool{}
	if pf := p.Func("codecs.(*H265Payloader).Payload"); pf != nil {
		for _, f := range append([]*ssa.Function{pf}, pf.AnonFuncs...) {
			c.wrapScope[core.FuncName(f)] = true
			c.wrapShiftOnly[core.FuncName(f)] = true
		}
	}
	boundsFor(c, "C14", entries)
	accFreshFor(c, 2, "codecs/h265_packet.go")
	c.R.Infof("CTR.copyfill: %d tail cop(ies) into a per-fragment buffer checked", c.copyFillSeen)
	r.Infof("CTR.twofrag: %d fragment loop(s) recognised and reached (a loop of another shape is not decided)", len(c.fragLoopsSeen))
	r.Infof("CTR.lenprefix: %d length-prefix/data pair(s) recognised and reached", len(c.lenPairsSeen))
}

var c14Parsers = func(c *Ctx) {}
var c14Payloader = func(c *Ctx) {}
