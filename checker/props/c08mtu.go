package props

import (
	"strings"
	"go/types"

	"golang.org/x/tools/go/ssa"

	"rtpcheck/bounds"
	"rtpcheck/core"
	"rtpcheck/lin"
)

// c08Hooks: the fragment <= MTU contract. Every `append(<[][]byte>, elem)` executed below a
// payloader's Payload (callees and closures included) emits one RTP payload; the path condition at
// that point must entail len(elem) <= mtu, where mtu is the entry's parameter (or the free variable
// a closure captured it in). A store into an element of the list (the AV1 payloader extends the last
// packet in place: payloads[i] = append(payloads[i], ...)) is an emission too and carries the same
// obligation; the length of the element being extended comes from the interpreter's last-element cell
// (bounds/lists.go). Opus never appends.
func c08Hooks(c *Ctx) *bounds.Hooks {
	isFragList := func(t types.Type) bool {
		sl, ok := t.Underlying().(*types.Slice)
		if !ok {
			return false
		}
		in, ok := sl.Elem().Underlying().(*types.Slice)
		if !ok {
			return false
		}
		b, ok := in.Elem().Underlying().(*types.Basic)
		return ok && b.Kind() == types.Uint8
	}
	// the entry function of the analysis is the outermost enclosing function that has an `mtu` parameter
	mtuOf := func(fn *ssa.Function) ssa.Value {
		var found ssa.Value
		for f := fn; f != nil; f = f.Parent() {
			for _, pa := range f.Params {
				if pa.Name() == "mtu" {
					found = pa
				}
			}
		}
		return found
	}
	return &bounds.Hooks{AtInstr: func(h *bounds.Helper, fn *ssa.Function, in ssa.Instruction, d *bounds.Disjunct) {
		mtuLin := func() *lin.Lin {
			mtu := mtuOf(fn)
			if mtu == nil {
				return nil
			}
			if mtu.Parent() == fn {
				return d.Int(mtu)
			}
			return d.EntryInt(mtu) // inside a closure or callee: the parameter of the entry frame
		}
		// an element of the fragment list is replaced (the AV1 payloader extends the last packet in place):
		// the new element must fit the MTU as well
		if st, ok := in.(*ssa.Store); ok {
			ia, ok := st.Addr.(*ssa.IndexAddr)
			if !ok || !isFragList(ia.X.Type()) {
				return
			}
			m := mtuLin()
			if m == nil {
				return
			}
			ln := d.Len(st.Val)
			if ln == nil {
				h.Oblige("extended fragment fits the MTU", false, "fragment length not tracked at this point")
				return
			}
			q := lin.LE(ln, m)
			h.Oblige("extended fragment fits the MTU", d.Entails(q), d.Describe(q))
			return
		}
		call, ok := in.(*ssa.Call)
		if !ok || core.BuiltinName(call) != "append" || len(call.Call.Args) != 2 || !isFragList(call.Call.Args[0].Type()) {
			return
		}
		mtu := mtuOf(fn)
		if mtu == nil {
			return
		}
		// elements: append(list, e) passes a slice of a fresh one-element array
		sl, ok := call.Call.Args[1].(*ssa.Slice)
		if !ok {
			return
		}
		arr, ok := sl.X.(*ssa.Alloc)
		if !ok {
			return
		}
		for _, ref := range *arr.Referrers() {
			ia, ok := ref.(*ssa.IndexAddr)
			if !ok {
				continue
			}
			for _, r2 := range *ia.Referrers() {
				st, ok := r2.(*ssa.Store)
				if !ok || st.Addr != ia {
					continue
				}
				ln := d.Len(st.Val)
				var m *lin.Lin
				if mtu.Parent() == fn {
					m = d.Int(mtu)
				} else {
					m = d.EntryInt(mtu) // inside a closure or callee: the parameter of the entry frame
				}
				if ln == nil || m == nil {
					h.Oblige("emitted fragment fits the MTU", false, "fragment length or MTU not tracked at this point")
					continue
				}
				q := lin.LE(ln, m)
				h.Oblige("emitted fragment fits the MTU", d.Entails(q), d.Describe(q))
			}
		}
	}}
}

// av1Modular: AV1Payloader.appendOBUPayload is analysed once, as an entry of its own, under the
// precondition its callers establish (mtu >= 2, a non-empty OBU), instead of being expanded below
// Payload at each of its call sites: its path count (three flags, the W/length-field/new-packet arms,
// the LEB128 size classes) times Payload's own exceeds any useful disjunct cap. The precondition is an
// obligation at every call. Returns the entry to add, or nil when the helper is not found (then it is
// expanded in place as before).
func av1Modular(c *Ctx) *ssa.Function {
	fn := c.Prog.Func("codecs.(*AV1Payloader).appendOBUPayload")
	if fn == nil {
		return nil
	}
	iM, iO := -1, -1
	for i, pa := range fn.Params {
		switch {
		case pa.Name() == "mtu":
			iM = i
		case pa.Name() == "obuPayload":
			iO = i
		}
	}
	if iM < 0 || iO < 0 {
		return nil
	}
	full := fn.String()
	if o, ok := fn.Object().(*types.Func); ok {
		full = o.FullName()
	}
	if c.modular == nil {
		c.modular = map[string]*bounds.ModSpec{}
	}
	c.modular[full] = &bounds.ModSpec{Text: "2 <= mtu <= 65535 and a non-empty OBU", Pre: func(d *bounds.Disjunct, args []ssa.Value) []lin.Ineq {
		if len(args) <= iM || len(args) <= iO {
			return nil
		}
		return []lin.Ineq{lin.GE(d.Int(args[iM]), lin.Const(2)), lin.LE(d.Int(args[iM]), lin.Const(65535)), lin.GE(d.Len(args[iO]), lin.Const(1))}
	}}
	// computeWriteSize(want, can): "the maximum write size for a payload with leb128 encoding added". Its
	// contract, proved at its own returns and assumed at its calls: under 1 <= want <= can <= 65535 the
	// result r satisfies 0 <= r <= want and r plus the length of its LEB128 form (k octets for r < 2^(7k))
	// does not exceed can.
	if cw := c.Prog.Func("codecs.(*AV1Payloader).computeWriteSize"); cw != nil && len(cw.Params) == 3 {
		cfull := cw.String()
		if o, ok := cw.Object().(*types.Func); ok {
			cfull = o.FullName()
		}
		c.modular[cfull] = &bounds.ModSpec{Text: "1 <= wantToWrite <= canWrite <= 65535",
			Pre: func(d *bounds.Disjunct, args []ssa.Value) []lin.Ineq {
				if len(args) != 3 {
					return nil
				}
				w, cn := d.Int(args[1]), d.Int(args[2])
				return []lin.Ineq{lin.GE(w, lin.Const(1)), lin.LE(w, cn), lin.LE(cn, lin.Const(65535))}
			},
			PostText: "0 <= r <= wantToWrite and r + len(LEB128(r)) <= canWrite",
			Post: func(d *bounds.Disjunct, args []ssa.Value, res *lin.Lin) ([]lin.Ineq, []bounds.PostAlt) {
				if len(args) != 3 {
					return nil, nil
				}
				w, cn := d.Int(args[1]), d.Int(args[2])
				common := []lin.Ineq{lin.GE(res, lin.Const(0)), lin.LE(res, w)}
				var alts []bounds.PostAlt
				lo := int64(0)
				for k := int64(1); k <= 3; k++ {
					hi := int64(1)<<(7*uint(k)) - 1
					alts = append(alts, bounds.PostAlt{
						Guard: []lin.Ineq{lin.GE(res, lin.Const(lo)), lin.LE(res, lin.Const(hi))},
						Concl: []lin.Ineq{lin.LE(res.AddConst(k), cn)}})
					lo = hi + 1
				}
				return common, alts
			}}
		c.modularEntries = append(c.modularEntries, cw)
		// The contract of computeWriteSize is proved by expanding the size helper it calls (one path per size
		// class). A helper that computes the size in a loop (over a table of thresholds, or by shifting) has no
		// such expansion in the linear domain: the contract is then reported as not decided. The fragment <= MTU
		// obligations of the fragment loop are decided under that contract either way.
		for _, h := range directHelpers(cw) {
			loops := false
			for _, b := range h.Blocks {
				for _, sc := range b.Succs {
					if sc.Dominates(b) {
						loops = true
					}
				}
			}
			if loops {
				hn := core.FuncName(h)
				prev := c.undecidedCTR
				c.undecidedCTR = func(fname, text string) string {
					if fname == core.FuncName(cw) && strings.HasPrefix(text, "post:") {
						return "the size helper " + hn + " computes the LEB128 length in a loop; its value is not a linear function of the argument on any path"
					}
					if prev != nil {
						return prev(fname, text)
					}
					return ""
				}
			}
		}
	}
	return fn
}

// av1Setup configures the BOUNDS runs that cover the AV1 payloader (C08, C13): the LEB128 length lemma and
// the two modularly analysed helpers; it returns the helpers as additional entries.
func av1Setup(c *Ctx) []*ssa.Function {
	c.lemmas = map[string]string{"github.com/pion/rtp/codecs/av1/obu.WriteToLeb128": "leb128len"}
	var extra []*ssa.Function
	c.lemmaEntries = map[string]bool{}
	if mf := av1Modular(c); mf != nil {
		c.lemmaEntries[core.FuncName(mf)] = true
		extra = append(extra, mf)
		extra = append(extra, c.modularEntries...)
	}
	return extra
}
