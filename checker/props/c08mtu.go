package props

import (
	"go/types"

	"golang.org/x/tools/go/ssa"

	"rtpcheck/bounds"
	"rtpcheck/core"
	"rtpcheck/lin"
)

// c08Hooks: the fragment <= MTU contract. Every `append(<[][]byte>, elem)` executed below a
// payloader's Payload (callees and closures included) emits one RTP payload; the path condition at
// that point must entail len(elem) <= mtu, where mtu is the entry's parameter (or the free variable
// a closure captured it in). Functions that extend an element after appending it (the AV1 payloader
// grows payloads[i] in place) are skipped: the aggregation budget there is not linear. Opus never appends.
func c08Hooks(c *Ctx) *bounds.Hooks {
	isFragList := func(t types.Type) bool {
		sl, ok := t.Underlying().(*types.Slice)
		if !ok {
			return false
		}
		in, ok := sl.Elem().Underlying().(*types.Slice)
		if !ok {
			return false
		}
		b, ok := in.Elem().Underlying().(*types.Basic)
		return ok && b.Kind() == types.Uint8
	}
	// the entry function of the analysis is the outermost enclosing function that has an `mtu` parameter
	mtuOf := func(fn *ssa.Function) ssa.Value {
		var found ssa.Value
		for f := fn; f != nil; f = f.Parent() {
			for _, pa := range f.Params {
				if pa.Name() == "mtu" {
					found = pa
				}
			}
		}
		return found
	}
	grows := map[*ssa.Function]bool{}
	growsElements := func(fn *ssa.Function) bool {
		if v, ok := grows[fn]; ok {
			return v
		}
		res := false
		for _, b := range fn.Blocks {
			for _, in := range b.Instrs {
				if st, ok := in.(*ssa.Store); ok {
					if ia, ok := st.Addr.(*ssa.IndexAddr); ok && isFragList(ia.X.Type()) {
						res = true
					}
				}
			}
		}
		grows[fn] = res
		return res
	}
	return &bounds.Hooks{AtInstr: func(h *bounds.Helper, fn *ssa.Function, in ssa.Instruction, d *bounds.Disjunct) {
		call, ok := in.(*ssa.Call)
		if !ok || core.BuiltinName(call) != "append" || len(call.Call.Args) != 2 || !isFragList(call.Call.Args[0].Type()) {
			return
		}
		mtu := mtuOf(fn)
		if mtu == nil {
			return
		}
		if growsElements(fn) {
			return // elements are extended after being appended (AV1): their length here says nothing
		}
		// elements: append(list, e) passes a slice of a fresh one-element array
		sl, ok := call.Call.Args[1].(*ssa.Slice)
		if !ok {
			return
		}
		arr, ok := sl.X.(*ssa.Alloc)
		if !ok {
			return
		}
		for _, ref := range *arr.Referrers() {
			ia, ok := ref.(*ssa.IndexAddr)
			if !ok {
				continue
			}
			for _, r2 := range *ia.Referrers() {
				st, ok := r2.(*ssa.Store)
				if !ok || st.Addr != ia {
					continue
				}
				ln := d.Len(st.Val)
				var m *lin.Lin
				if mtu.Parent() == fn {
					m = d.Int(mtu)
				} else {
					m = d.EntryInt(mtu) // inside a closure or callee: the parameter of the entry frame
				}
				if ln == nil || m == nil {
					h.Oblige("emitted fragment fits the MTU", false, "fragment length or MTU not tracked at this point")
					continue
				}
				q := lin.LE(ln, m)
				h.Oblige("emitted fragment fits the MTU", d.Entails(q), d.Describe(q))
			}
		}
	}}
}
