package props

import (
	"go/token"

	"golang.org/x/tools/go/ssa"

	"rtpcheck/core"
)

// carryOrderRule: "a fragment cached for the next packet is not consumed by the packet that cached it".
// In a stateful reassembly method, once the current call has stored new content into the carried buffer
// (receiver field `field`, any value other than the nil constant), no later point of the same call may read
// the field again: what it would read is this packet's own trailing fragment, not the previous packet's.
// Calls to methods on the same receiver count with their own loads and stores of the field (loads first).
// Forward may-dataflow over the CFG of fn, loops included.
func carryOrderRule(c *Ctx, fnName, field string) int {
	p, r := c.Prog, c.R
	fn := p.Func(fnName)
	if fn == nil {
		missingAnchor(r, fnName)
		return 0
	}
	if len(fn.Params) == 0 {
		return 0
	}
	recv := fn.Params[0]
	type summary struct{ loads, stores bool }
	sums := map[*ssa.Function]*summary{}
	var summarize func(f *ssa.Function, depth int) *summary
	summarize = func(f *ssa.Function, depth int) *summary {
		if s, ok := sums[f]; ok {
			return s
		}
		s := &summary{}
		sums[f] = s
		if depth > 3 || len(f.Params) == 0 {
			return s
		}
		rv := f.Params[0]
		for _, b := range f.Blocks {
			for _, in := range b.Instrs {
				switch x := in.(type) {
				case *ssa.UnOp:
					if fa, ok := x.X.(*ssa.FieldAddr); ok && x.Op == token.MUL && fa.X == ssa.Value(rv) && core.FieldName(fa) == field {
						s.loads = true
					}
				case *ssa.Store:
					if fa, ok := x.Addr.(*ssa.FieldAddr); ok && fa.X == ssa.Value(rv) && core.FieldName(fa) == field {
						if k, isC := x.Val.(*ssa.Const); !isC || k.Value != nil {
							s.stores = true
						}
					}
				case *ssa.Call:
					if cal := x.Call.StaticCallee(); cal != nil && core.InModule(cal) && len(x.Call.Args) > 0 && x.Call.Args[0] == ssa.Value(rv) {
						cs := summarize(cal, depth+1)
						s.loads = s.loads || cs.loads
						s.stores = s.stores || cs.stores
					}
				}
			}
		}
		return s
	}
	// per instruction events in fn
	type ev struct {
		load, store bool
		pos         token.Pos
	}
	events := func(in ssa.Instruction) ev {
		switch x := in.(type) {
		case *ssa.UnOp:
			if fa, ok := x.X.(*ssa.FieldAddr); ok && x.Op == token.MUL && fa.X == ssa.Value(recv) && core.FieldName(fa) == field {
				return ev{load: true, pos: x.Pos()}
			}
		case *ssa.Store:
			if fa, ok := x.Addr.(*ssa.FieldAddr); ok && fa.X == ssa.Value(recv) && core.FieldName(fa) == field {
				if k, isC := x.Val.(*ssa.Const); !isC || k.Value != nil {
					return ev{store: true, pos: x.Pos()}
				}
			}
		case *ssa.Call:
			if cal := x.Call.StaticCallee(); cal != nil && core.InModule(cal) && len(x.Call.Args) > 0 && x.Call.Args[0] == ssa.Value(recv) {
				s := summarize(cal, 1)
				return ev{load: s.loads, store: s.stores, pos: x.Pos()}
			}
		}
		return ev{}
	}
	storedIn := map[*ssa.BasicBlock]bool{}
	bad := token.NoPos
	nEvents := 0
	for changed := true; changed; {
		changed = false
		for _, b := range fn.Blocks {
			st := storedIn[b]
			for _, in := range b.Instrs {
				e := events(in)
				if e.load || e.store {
					nEvents++
				}
				if e.load && st && bad == token.NoPos {
					bad = e.pos
				}
				if e.store {
					st = true
				}
			}
			for _, s := range b.Succs {
				if st && !storedIn[s] {
					storedIn[s] = true
					changed = true
				}
			}
		}
	}
	if nEvents == 0 {
		r.Infof("STRUCT.carryorder: %s does not touch field %s (moved?): not decided", fnName, field)
		return 0
	}
	r.Add("STRUCT.carryorder", fnName, "the fragment cached in "+field+" for the next packet is not read again by the call that cached it", p.Position(fn.Pos()), bad == token.NoPos,
		"the field is read at "+p.Position(bad)+" on a path on which this call has already stored its own trailing fragment into it")
	return 1
}
