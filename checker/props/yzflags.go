package props

import (
	"go/token"
	"sync"

	"golang.org/x/tools/go/ssa"

	"rtpcheck/bounds"
	"rtpcheck/core"
	"rtpcheck/lin"
)

// yzFlagHooks: AV1 RTP 4.4 — "Y: MUST be set to 1 if the last OBU element is a fragment that will continue in
// the next packet; Z: MUST be set to 1 if the first OBU element continues a fragment of the previous packet".
// In the payloader's fragment loop the two flags are ORed in together (0x40 into the previous packet's header,
// 0x80 into the new one) exactly when octets of the current OBU went into the previous packet. That amount is a
// loop-carried value: the loop-head phi whose next value is the upper bound of the data slice
// (obuPayload[:n]) appended in the iteration. On every path that sets Y the path condition must entail that
// this phi is at least 1; a test on a value computed before the loop goes stale after the first fragment.
func isYStore(st *ssa.Store) bool {
	or, ok := st.Val.(*ssa.BinOp)
	if !ok || or.Op != token.OR {
		return false
	}
	k, isC := core.ConstInt(or.Y)
	if !isC {
		k, isC = core.ConstInt(or.X)
	}
	if !isC || k != 0x40 {
		return false
	}
	ia, ok := st.Addr.(*ssa.IndexAddr)
	if !ok {
		return false
	}
	z, isZ := core.ConstInt(ia.Index)
	return isZ && z == 0
}

func yzFlagHooks(c *Ctx, seen *int) *bounds.Hooks {
	type info struct {
		yStores map[*ssa.Store]*ssa.Phi // store of the Y flag -> the carried "octets written to the previous packet"
		stale   []*ssa.Store            // Y stores in a fragment loop that carries no such amount
	}
	cache := map[*ssa.Function]*info{}
	var mu sync.Mutex
	scan := func(fn *ssa.Function) *info {
		in := &info{yStores: map[*ssa.Store]*ssa.Phi{}}
		for _, hd := range fn.Blocks {
			body := map[*ssa.BasicBlock]bool{}
			for _, t := range hd.Preds {
				if !hd.Dominates(t) {
					continue
				}
				body[hd] = true
				stack := []*ssa.BasicBlock{t}
				for len(stack) > 0 {
					x := stack[len(stack)-1]
					stack = stack[:len(stack)-1]
					if body[x] {
						continue
					}
					body[x] = true
					stack = append(stack, x.Preds...)
				}
			}
			if len(body) == 0 {
				continue
			}
			// the data slices appended to list elements in the loop: their upper bounds
			highs := map[ssa.Value]bool{}
			for b := range body {
				for _, i := range b.Instrs {
					st, ok := i.(*ssa.Store)
					if !ok {
						continue
					}
					if ia, ok := st.Addr.(*ssa.IndexAddr); !ok || !isFragListType(ia.X.Type()) {
						continue
					}
					ap, ok := st.Val.(*ssa.Call)
					if !ok || core.BuiltinName(ap) != "append" || len(ap.Call.Args) != 2 {
						continue
					}
					if sl, ok := ap.Call.Args[1].(*ssa.Slice); ok && sl.High != nil && sl.Low == nil {
						highs[sl.High] = true
					}
				}
			}
			if len(highs) == 0 {
				continue
			}
			var carried *ssa.Phi
			for _, i := range hd.Instrs {
				phi, ok := i.(*ssa.Phi)
				if !ok {
					break
				}
				for k, pr := range hd.Preds {
					if body[pr] && highs[phi.Edges[k]] {
						carried = phi
					}
				}
			}
			if carried == nil {
				// no loop-carried amount at all: the flag's guard cannot know what the previous iteration wrote
				// ... unless its guard (a test inside the loop that is not one of the loop's exit tests) depends
				// on some other loop-carried value, in which case the clause is not decided
				dependsOnPhi := func(v ssa.Value) bool {
					seen := map[ssa.Value]bool{}
					var walk func(x ssa.Value, depth int) bool
					walk = func(x ssa.Value, depth int) bool {
						if seen[x] || depth > 12 {
							return false
						}
						seen[x] = true
						if ph, ok := x.(*ssa.Phi); ok && ph.Block() == hd {
							return true
						}
						ins, ok := x.(ssa.Instruction)
						if !ok || ins.Block() == nil || !body[ins.Block()] {
							return false
						}
						for _, op := range ins.Operands(nil) {
							if op != nil && *op != nil && walk(*op, depth+1) {
								return true
							}
						}
						return false
					}
					return walk(v, 0)
				}
				for b := range body {
					for _, i := range b.Instrs {
						st, ok := i.(*ssa.Store)
						if !ok || !isYStore(st) {
							continue
						}
						guarded, varies := false, false
						for _, gb := range fn.Blocks {
							if !body[gb] || gb == st.Block() || !gb.Dominates(st.Block()) || len(gb.Instrs) == 0 {
								continue
							}
							iff, ok := gb.Instrs[len(gb.Instrs)-1].(*ssa.If)
							if !ok || !body[gb.Succs[0]] || !body[gb.Succs[1]] {
								continue // no test, or one of the loop's exit tests
							}
							guarded = true
							if dependsOnPhi(iff.Cond) {
								varies = true
							}
						}
						if guarded && !varies {
							in.stale = append(in.stale, st)
						}
					}
				}
				continue
			}
			for b := range body {
				for _, i := range b.Instrs {
					if st, ok := i.(*ssa.Store); ok && isYStore(st) {
						in.yStores[st] = carried
					}
				}
			}
		}
		return in
	}
	return &bounds.Hooks{AtInstr: func(h *bounds.Helper, fn *ssa.Function, in ssa.Instruction, d *bounds.Disjunct) {
		st, ok := in.(*ssa.Store)
		if !ok {
			return
		}
		mu.Lock()
		inf, ok := cache[fn]
		if !ok {
			inf = scan(fn)
			cache[fn] = inf
		}
		mu.Unlock()
		for _, bad := range inf.stale {
			if bad == st {
				mu.Lock()
				*seen++
				mu.Unlock()
				h.Oblige("the Y flag (and with it Z on the next packet) is set only when octets of this OBU went into the previous packet", false,
					"the fragment loop carries no value that says how much the previous iteration wrote: the flag's test cannot change from one fragment to the next")
				return
			}
		}
		phi := inf.yStores[st]
		if phi == nil || !d.Has(phi) {
			return
		}
		mu.Lock()
		*seen++
		mu.Unlock()
		q := lin.GE(d.Int(phi), lin.Const(1))
		h.Oblige("the Y flag (and with it Z on the next packet) is set only when octets of this OBU went into the previous packet", d.Entails(q), d.Describe(q))
	}}
}
