package props

import (
	"go/token"
	"go/types"

	"golang.org/x/tools/go/ssa"

	"rtpcheck/core"
	"rtpcheck/own"
)

func init() { Registry["C09"] = c09 }

// carried-state depacketizers: their fragment buffers legitimately survive calls (C15 covers them)
var statefulDepacketizers = map[string]bool{"codecs.H264Packet": true, "codecs.AV1Depacketizer": true, "codecs.AV1Packet": true}

// C09 — Depacketizers are panic-free, reuse-safe and own the state they retain.
func c09(c *Ctx) {
	p, r := c.Prog, c.R
	r.Explain = "BOUNDS: no-panic obligations over Unmarshal/IsPartitionHead/IsPartitionTail of every rtp.Depacketizer and " +
		"the deprecated AV1 path; RESET R1 for the per-packet decoders (VP8, VP9, H265, Opus); OWN O1 for the fields the " +
		"stateful depacketizers carry between calls (they must not alias an earlier input). LEB.range: a k-octet LEB128 encoding (k <= 12) is read back below 2^63, which the assumed obligations int(value) >= 0 rest on."
	deps := depacketizers(c)
	r.Floor("rtp.Depacketizer implementations", len(deps), 6)
	var entries []*ssa.Function
	nReset, nOwn := 0, 0
	for _, t := range deps {
		name := core.TypeName(t)
		um := p.MethodOf(t, "Unmarshal")
		if um == nil {
			r.Fatalf("%s.Unmarshal not found", name)
			continue
		}
		um = core.Unwrap(um)
		entries = append(entries, um)
		for _, mn := range []string{"IsPartitionHead", "IsPartitionTail"} {
			if m := p.MethodOf(t, mn); m != nil {
				entries = append(entries, core.Unwrap(m))
			}
		}
		if statefulDepacketizers[name] {
			// O1 on carried fields: reference fields of the receiver that Unmarshal both loads and stores
			res := own.Analyze(p, um)
			nOwn += ownNoRetain(c, res, 0, 1, carriedFields(um))
			continue
		}
		nReset += resetR1(c, um, 0, nil)
	}
	r.Floor("decoded fields checked by RESET.R1", nReset, 20)
	r.Floor("carried-state fields checked by OWN.O1", nOwn, 2)
	if k := capFlowRule(c, entries); k == 0 {
		r.Infof("STRUCT.capflow: no depacketizer looks at the capacity of a buffer")
	}
	// deprecated AV1 path
	if f := p.Method("codecs", "AV1Packet", "Unmarshal"); f != nil {
		entries = append(entries, f)
	} else {
		r.Fatalf("anchor codecs.AV1Packet.Unmarshal missing")
	}
	if f := p.Func("codecs/av1/frame.(*AV1).ReadFrames"); f != nil {
		entries = append(entries, f)
		res := own.Analyze(p, f)
		nOwn += ownNoRetainVia(c, res)
	} else {
		r.Fatalf("anchor frame.AV1.ReadFrames missing")
	}
	for _, n := range []string{"codecs/av1/obu.ReadLeb128", "codecs/av1/obu.ParseOBUHeader"} {
		if f := p.Func(n); f != nil {
			entries = append(entries, f)
		} else {
			missingAnchor(r, n)
		}
	}
	// the assumed obligations "int(LEB128 value) >= 0" of the AV1 depacketizers rest on the reader's range
	r.Floor("LEB128 range rows (LEB.range)", lebRules(c, "range"), 12)
	boundsFor(c, "C09", entries)
}

// carriedFields: reference-typed receiver fields with an upward-exposed load in fn or its
// module callees (a value from an earlier call is observed) that are also stored.
func carriedFields(fn *ssa.Function) map[string]bool {
	loaded, stored := map[string]bool{}, map[string]bool{}
	seen := map[*ssa.Function]bool{}
	var visit func(f *ssa.Function, recv ssa.Value)
	visit = func(f *ssa.Function, recv ssa.Value) {
		if seen[f] || len(f.Blocks) == 0 {
			return
		}
		seen[f] = true
		// the receiver itself, or a load of the local cell it was spilled to (a closure of the method captures it)
		// that is never given another value
		isRecv := func(v ssa.Value) bool {
			if v == recv {
				return true
			}
			u, ok := v.(*ssa.UnOp)
			if !ok || u.Op != token.MUL {
				return false
			}
			a, ok := u.X.(*ssa.Alloc)
			if !ok {
				return false
			}
			n := 0
			for _, ref := range *a.Referrers() {
				if st, ok := ref.(*ssa.Store); ok && st.Addr == ssa.Value(a) {
					if st.Val != recv {
						return false
					}
					n++
				}
			}
			return n > 0
		}
		for _, b := range f.Blocks {
			for _, in := range b.Instrs {
				switch x := in.(type) {
				case *ssa.UnOp:
					if fa, ok := x.X.(*ssa.FieldAddr); ok && isRecv(fa.X) && own.HasRefs(x.Type()) {
						// upward-exposed: the load may observe the value the field had on entry
						if v, known := core.ResolveLoad(x); !known || v == nil {
							loaded[core.FieldName(fa)] = true
						}
					}
				case *ssa.Store:
					if fa, ok := x.Addr.(*ssa.FieldAddr); ok && isRecv(fa.X) {
						stored[core.FieldName(fa)] = true
					}
				case *ssa.Call:
					if callee := x.Call.StaticCallee(); callee != nil && core.InModule(callee) && len(x.Call.Args) > 0 && isRecv(x.Call.Args[0]) && len(callee.Params) > 0 {
						visit(callee, callee.Params[0])
					}
				}
			}
		}
	}
	if len(fn.Params) > 0 {
		visit(fn, fn.Params[0])
	}
	out := map[string]bool{}
	for k := range loaded {
		if stored[k] {
			out[k] = true
		}
	}
	return out
}

// ownNoRetainVia: frame.AV1.ReadFrames keeps obuBuffer; it must not alias the packet's elements.
func ownNoRetainVia(c *Ctx, res *own.Result) int {
	p, r := c.Prog, c.R
	fname := core.FuncName(res.Entry)
	recv := res.Params[0]
	if recv == nil {
		return 0
	}
	st := res.Entry.Params[0].Type().Underlying().(*types.Pointer).Elem().Underlying().(*types.Struct)
	n := 0
	for i := 0; i < st.NumFields(); i++ {
		f := st.Field(i)
		if !own.HasRefs(f.Type()) {
			continue
		}
		v := res.LoadField(recv, "."+f.Name(), f.Type())
		var bad []*own.Obj
		for _, rc := range res.ReachOf(v, f.Type()) {
			if rc.Obj.RootParam() == 1 || rc.Obj.Kind == own.KUnknown {
				bad = append(bad, rc.Obj)
			}
		}
		n++
		r.Add("OWN.O1", fname, "retained state ."+f.Name()+" does not alias the packet", p.Position(res.Entry.Pos()),
			len(bad) == 0, "may point into: "+objList(bad))
	}
	return n
}
