package props

import (
	"fmt"
	"go/token"
	"go/types"
	"strings"

	"golang.org/x/tools/go/ssa"

	"rtpcheck/core"
	"rtpcheck/own"
)

func init() { Registry["C06"] = c06 }

// litAlias maps parameters of helper functions that build part of a literal to the caller's
// arguments (filled by litFields; consulted by resolveAlias).
var litAlias = map[ssa.Value]ssa.Value{}

func resolveAlias(v ssa.Value) ssa.Value {
	for i := 0; i < 4; i++ {
		a, ok := litAlias[v]
		if !ok {
			return v
		}
		v = a
	}
	return v
}

// litFields collects, for a composite literal built in a local cell, the value stored per field
// path (".Header.Version" ...), following whole-struct stores from nested literals and from helper
// functions whose single return value is such a literal (their parameters are mapped to the
// call's arguments).
func litFields(cell *ssa.Alloc) map[string]ssa.Value {
	out := map[string]ssa.Value{}
	var collect func(a *ssa.Alloc, prefix string, depth int)
	collect = func(a *ssa.Alloc, prefix string, depth int) {
		for _, b := range a.Parent().Blocks {
			for _, in := range b.Instrs {
				st, ok := in.(*ssa.Store)
				if !ok {
					continue
				}
				root, path := core.AddrKey(st.Addr)
				if root != ssa.Value(a) {
					continue
				}
				if ld, isLoad := st.Val.(*ssa.UnOp); isLoad && ld.Op == token.MUL && depth < 3 {
					if inner, isAlloc := ld.X.(*ssa.Alloc); isAlloc {
						collect(inner, prefix+path, depth+1)
						continue
					}
				}
				if call, isCall := st.Val.(*ssa.Call); isCall && depth < 3 {
					if g := call.Call.StaticCallee(); g != nil && core.InModule(g) && len(g.Blocks) > 0 {
						var lit *ssa.Alloc
						nRet := 0
						for _, gb := range g.Blocks {
							for _, gi := range gb.Instrs {
								if ret, isRet := gi.(*ssa.Return); isRet && len(ret.Results) == 1 {
									nRet++
									if ld, ok := ret.Results[0].(*ssa.UnOp); ok && ld.Op == token.MUL {
										if al, ok := ld.X.(*ssa.Alloc); ok {
											lit = al
										}
									}
								}
							}
						}
						if nRet == 1 && lit != nil {
							for i, pa := range g.Params {
								if i < len(call.Call.Args) {
									litAlias[pa] = call.Call.Args[i]
								}
							}
							litCallSite[lit] = call
							collect(lit, prefix+path, depth+1)
							continue
						}
					}
				}
				out[prefix+path] = st.Val
			}
		}
	}
	collect(cell, "", 0)
	for k, v := range out {
		out[k] = resolveAlias(v)
	}
	return out
}

// litCallSite: for a literal built inside a helper, the call in the outer function that produced it.
var litCallSite = map[*ssa.Alloc]*ssa.Call{}

// packetLiterals finds every &Packet{...} built in fn.
func packetLiterals(fn *ssa.Function) []*ssa.Alloc {
	var out []*ssa.Alloc
	for _, b := range fn.Blocks {
		for _, in := range b.Instrs {
			a, ok := in.(*ssa.Alloc)
			if !ok {
				continue
			}
			if n, ok := a.Type().Underlying().(*types.Pointer).Elem().(*types.Named); ok && n.Obj().Name() == "Packet" && a.Comment == "complit" {
				out = append(out, a)
			}
		}
	}
	return out
}

func isLoadOfRecvField(v ssa.Value, recv ssa.Value, field string) bool {
	ld, ok := v.(*ssa.UnOp)
	if !ok || ld.Op != token.MUL {
		return false
	}
	root, path := core.AddrKey(ld.X)
	return resolveAlias(root) == recv && path == "."+field
}

// C06 — Packetizer emits a valid, MTU-bounded, correctly numbered packet train.
func c06(c *Ctx) {
	p, r := c.Prog, c.R
	r.Explain = "STRUCT value patterns over the SSA of Packetize / GeneratePadding / SkipSamples: packet literals are " +
		"well-formed (padding flag <=> padding size), the payloader budget equals MTU minus the size of the header being " +
		"built, one NextSequenceNumber call per packet, one timestamp per call advanced by exactly samples on every path that " +
		"reaches the payloader, version 2, marker on the last packet only, fragments stored unchanged, abs-send-time on the " +
		"last packet with a freshly allocated value; plus the sequencer transition rules. Serialised size vs MTU per payloader " +
		"and the send instant value are not decided."
	n := 0
	add := func(rule, fn, what, pos string, ok bool, detail string) {
		n++
		r.Add(rule, fn, what, pos, ok, detail)
	}
	pz := p.Func("rtp.(*packetizer).Packetize")
	gp := p.Func("rtp.(*packetizer).GeneratePadding")
	ss := p.Func("rtp.(*packetizer).SkipSamples")
	if pz == nil || gp == nil || ss == nil {
		r.Fatalf("C06 anchors missing")
		return
	}
	// ---- literals
	litMoved := false
	for _, fn := range []*ssa.Function{pz, gp} {
		fname := core.FuncName(fn)
		recv := fn.Params[0]
		lits := packetLiterals(fn)
		if len(lits) == 0 {
			// the packets are built in a helper function (the loop was moved out of the method): the value
			// patterns below are tied to the method's own SSA and are not decided for that shape
			movedTo := ""
			for _, b := range fn.Blocks {
				for _, in := range b.Instrs {
					if call, ok := in.(*ssa.Call); ok {
						if cal := call.Call.StaticCallee(); cal != nil && core.InModule(cal) && len(packetLiterals(cal)) > 0 {
							movedTo = core.FuncName(cal)
						}
					}
				}
			}
			if movedTo != "" {
				r.Infof("STRUCT.lit %s: the packet literal is built in %s; the literal/marker/payload patterns are not decided for this shape", fname, movedTo)
				litMoved = true
				continue
			}
		}
		add("STRUCT.lit", fname, "builds exactly one packet literal per loop iteration", p.Position(fn.Pos()), len(lits) == 1 && inAnyLoop(lits[0].Block()), fmt.Sprintf("%d packet literals", len(lits)))
		for _, lit := range lits {
			f := litFields(lit)
			pos := p.Position(lit.Pos())
			pad, _ := core.ConstBool(valOr(f[".Header.Padding"]))
			psz := int64(0)
			if v, ok := f[".PaddingSize"]; ok {
				if k, isC := core.ConstInt(v); isC {
					psz = k
				} else {
					psz = -1
				}
			}
			add("STRUCT.lit", fname, "Padding flag set exactly when PaddingSize is 1..255", pos, pad == (psz >= 1 && psz <= 255) && psz >= 0, fmt.Sprintf("Padding=%v PaddingSize=%d", pad, psz))
			ver, okv := core.ConstInt(valOr(f[".Header.Version"]))
			add("STRUCT.lit", fname, "Version = 2", pos, okv && ver == 2, "")
			add("STRUCT.lit", fname, "PayloadType = configured payload type", pos, isLoadOfRecvField(f[".Header.PayloadType"], recv, "PayloadType"), "")
			add("STRUCT.lit", fname, "SSRC = configured SSRC", pos, isLoadOfRecvField(f[".Header.SSRC"], recv, "SSRC"), "")
			// sequence number: one NextSequenceNumber() invoke in the literal's block
			seqOK := false
			nCalls := 0
			countIn := func(b *ssa.BasicBlock) {
				for _, in := range b.Instrs {
					if call, ok := in.(*ssa.Call); ok && call.Call.IsInvoke() && call.Call.Method.Name() == "NextSequenceNumber" {
						nCalls++
					}
				}
			}
			if call, ok := f[".Header.SequenceNumber"].(*ssa.Call); ok && call.Call.IsInvoke() && call.Call.Method.Name() == "NextSequenceNumber" {
				switch {
				case call.Block() == lit.Block():
					seqOK = true
					countIn(lit.Block())
				case call.Parent() != fn && len(call.Parent().Blocks) == 1:
					// drawn inside a straight-line helper that builds the header: one call per helper call,
					// and the helper is called once in the literal's block
					countIn(call.Block())
					helperCalls := 0
					for _, in := range lit.Block().Instrs {
						if hc, ok := in.(*ssa.Call); ok && hc.Call.StaticCallee() == call.Parent() {
							helperCalls++
						}
					}
					seqOK = helperCalls == 1
				}
			}
			add("STRUCT.seq", fname, "SequenceNumber = the single NextSequenceNumber() call of this iteration", pos, seqOK && nCalls == 1, fmt.Sprintf("%d calls in the iteration", nCalls))
			// and no number is drawn outside the per-packet loop (one drawn before it makes the sequencer run ahead of the
			// packets emitted: the next call would skip a number)
			outside := ""
			for _, b := range fn.Blocks {
				if inAnyLoop(b) {
					continue
				}
				for _, in := range b.Instrs {
					if call, ok := in.(*ssa.Call); ok && call.Call.IsInvoke() && call.Call.Method.Name() == "NextSequenceNumber" {
						outside = p.Position(call.Pos())
					}
				}
			}
			add("STRUCT.seq", fname, "no sequence number is drawn outside the per-packet loop", pos, outside == "", "NextSequenceNumber() is also called at "+outside+", outside the loop that builds the packets")
			// timestamp: entry value of p.Timestamp
			tsOK := false
			if ld0, ok := f[".Header.Timestamp"].(*ssa.UnOp); ok && isLoadOfRecvField(ld0, recv, "Timestamp") {
				tsOK = true
				// position of the read in fn: the load itself, or the call of the helper that performs it
				var ld ssa.Instruction = ld0
				if ld0.Parent() != fn {
					ld = nil
					for _, in := range lit.Block().Instrs {
						if hc, ok := in.(*ssa.Call); ok && hc.Call.StaticCallee() == ld0.Parent() {
							ld = hc
						}
					}
					if ld == nil {
						tsOK = false
						ld = lit
					}
				}
				// no store to the timestamp may reach this read
				for _, b := range fn.Blocks {
					for _, in := range b.Instrs {
						if st, isSt := in.(*ssa.Store); isSt {
							if root, path := core.AddrKey(st.Addr); root == recv && path == ".Timestamp" {
								if b == ld.Block() && core.InstrIndex(st) < core.InstrIndex(ld) {
									tsOK = false
								}
								if b != ld.Block() && core.Reachable(b)[ld.Block()] {
									tsOK = false
								}
							}
						}
					}
				}
			}
			add("STRUCT.ts", fname, "Timestamp = the packetizer timestamp before this call's advance", pos, tsOK, "timestamp is read after a store or is not the packetizer field")
			ext, okE := core.ConstBool(valOr(f[".Header.Extension"]))
			add("STRUCT.lit", fname, "Extension flag clear in the literal", pos, okE && !ext, "")
			if fn == pz {
				// marker: i == len(payloads)-1
				mk := false
				if cmp, ok := f[".Header.Marker"].(*ssa.BinOp); ok && cmp.Op == token.EQL {
					if sub, ok := cmp.Y.(*ssa.BinOp); ok && sub.Op == token.SUB {
						if k, isC := core.ConstInt(sub.Y); isC && k == 1 {
							if ln, ok := sub.X.(*ssa.Call); ok && core.BuiltinName(ln) == "len" {
								mk = true
							}
						}
					}
				}
				if !mk {
					// the other way to say it: every packet is built with the marker clear and, after the loop, the marker
					// of packets[len(packets)-1] is set
					if v, isC := core.ConstBool(valOr(f[".Header.Marker"])); (isC && !v) || f[".Header.Marker"] == nil {
						for _, b := range fn.Blocks {
							if inAnyLoop(b) {
								continue
							}
							for _, in := range b.Instrs {
								st, ok := in.(*ssa.Store)
								if !ok {
									continue
								}
								if tv, isT := core.ConstBool(st.Val); !isT || !tv {
									continue
								}
								fa, ok := st.Addr.(*ssa.FieldAddr)
								if !ok || core.FieldName(fa) != "Marker" {
									continue
								}
								// ...Header.Marker of the element at index len(x)-1
								root := fa.X
								for i := 0; i < 4; i++ {
									switch y := root.(type) {
									case *ssa.FieldAddr:
										root = y.X
										continue
									case *ssa.UnOp:
										if y.Op == token.MUL {
											root = y.X
											continue
										}
									}
									break
								}
								if ia, ok := root.(*ssa.IndexAddr); ok {
									if sub, ok := ia.Index.(*ssa.BinOp); ok && sub.Op == token.SUB {
										if k, isC := core.ConstInt(sub.Y); isC && k == 1 {
											if ln, ok := sub.X.(*ssa.Call); ok && core.BuiltinName(ln) == "len" && ln.Call.Args[0] == ia.X {
												mk = true
											}
										}
									}
								}
							}
						}
					}
				}
				add("STRUCT.lit", fname, "Marker = (i == len(payloads)-1)", pos, mk, "marker expression: "+core.OpString(valOr(f[".Header.Marker"])))
				// payload: the range element of the payloader result
				plOK := false
				if ld, ok := f[".Payload"].(*ssa.UnOp); ok {
					if ia, ok := ld.X.(*ssa.IndexAddr); ok {
						if call, ok := ia.X.(*ssa.Call); ok && call.Call.IsInvoke() && call.Call.Method.Name() == "Payload" {
							plOK = true
						}
					}
				}
				add("STRUCT.lit", fname, "Payload = the i-th fragment returned by the payloader, unchanged", pos, plOK, "")
			} else {
				m, okm := core.ConstBool(valOr(f[".Header.Marker"]))
				add("STRUCT.lit", fname, "Marker clear on padding packets", pos, okm && !m, "")
				_, hasPl := f[".Payload"]
				add("STRUCT.lit", fname, "padding packets carry no payload", pos, !hasPl, "")
			}
			// CSRC literal empty => header size 12
			csrcOK := false
			if sl, ok := f[".Header.CSRC"].(*ssa.Slice); ok {
				if a, ok := sl.X.(*ssa.Alloc); ok && strings.HasPrefix(a.Type().String(), "*[0]") {
					csrcOK = true
				}
			}
			add("STRUCT.budget", fname, "header literal has no CSRC (fixed header = 12 bytes)", pos, csrcOK, "")
		}
	}
	// ---- budget MTU-12 and the payloader call
	fname := core.FuncName(pz)
	recv := pz.Params[0]
	var plCall *ssa.Call
	for _, b := range pz.Blocks {
		for _, in := range b.Instrs {
			if call, ok := in.(*ssa.Call); ok && call.Call.IsInvoke() && call.Call.Method.Name() == "Payload" {
				plCall = call
			}
		}
	}
	if plCall == nil {
		r.Fatalf("Packetize: payloader call not found")
		return
	}
	budOK := false
	if sub, ok := plCall.Call.Args[0].(*ssa.BinOp); ok && sub.Op == token.SUB && isLoadOfRecvField(sub.X, recv, "MTU") {
		if k, isC := core.ConstInt(sub.Y); isC && k == 12 {
			budOK = true
		}
	}
	add("STRUCT.budget", fname, "payloader budget = MTU - 12", p.Position(plCall.Pos()), budOK, "budget expression: "+core.OpString(plCall.Call.Args[0]))
	// ---- timestamp advance
	tsStores := 0
	for _, fn := range []*ssa.Function{pz, gp, ss} {
		for _, b := range fn.Blocks {
			for _, in := range b.Instrs {
				st, ok := in.(*ssa.Store)
				if !ok {
					continue
				}
				root, path := core.AddrKey(st.Addr)
				if root != ssa.Value(fn.Params[0]) || path != ".Timestamp" {
					continue
				}
				tsStores++
				fnm := core.FuncName(fn)
				if fn == gp {
					add("STRUCT.ts", fnm, "GeneratePadding does not advance the timestamp", p.Position(st.Pos()), false, "store to Timestamp")
					continue
				}
				okv := false
				if addv, ok := st.Val.(*ssa.BinOp); ok && addv.Op == token.ADD && isLoadOfRecvField(addv.X, fn.Params[0], "Timestamp") {
					if prm, ok := addv.Y.(*ssa.Parameter); ok && prm == fn.Params[len(fn.Params)-1] {
						okv = true
					}
				}
				add("STRUCT.ts", fnm, "timestamp advances by exactly the sample count", p.Position(st.Pos()), okv, "stored "+core.OpString(st.Val))
				if fn == pz {
					// executes on every path on which the payloader was called
					sub := true
					cg := core.DominatingGuards(plCall.Block())
					for _, g := range core.DominatingGuards(st.Block()) {
						if inAnyLoop(g.At) && !inAnyLoop(st.Block()) {
							continue // a loop exit condition, not a condition of the advance
						}
						found := false
						for _, x := range cg {
							if x.Cond == g.Cond && x.Truth == g.Truth {
								found = true
							}
						}
						if !found {
							sub = false
						}
					}
					add("STRUCT.ts", fnm, "timestamp advance executes whenever the payloader was called", p.Position(st.Pos()), sub && plCall.Block().Dominates(st.Block()) && !inAnyLoop(st.Block()), "the advance is conditional or inside the loop")
				}
			}
		}
	}
	add("STRUCT.ts", fname, "exactly two timestamp advances (Packetize, SkipSamples)", p.Position(pz.Pos()), tsStores == 2, fmt.Sprintf("%d stores", tsStores))
	// ---- abs-send-time on the last packet with a fresh value
	var setExt *ssa.Call
	setExtFn := pz          // the function that contains the SetExtension call
	var helperCall *ssa.Call // when it sits in a helper: the call of that helper in Packetize
	for _, b := range pz.Blocks {
		for _, in := range b.Instrs {
			if call, ok := in.(*ssa.Call); ok {
				callee := call.Call.StaticCallee()
				if callee == nil {
					continue
				}
				if core.FuncName(callee) == "rtp.(*Header).SetExtension" {
					setExt = call
				} else if core.InModule(callee) && len(call.Call.Args) > 0 && call.Call.Args[0] == ssa.Value(pz.Params[0]) {
					for _, hb := range callee.Blocks {
						for _, hin := range hb.Instrs {
							if hc, ok := hin.(*ssa.Call); ok {
								if g := hc.Call.StaticCallee(); g != nil && core.FuncName(g) == "rtp.(*Header).SetExtension" {
									setExt, setExtFn, helperCall = hc, callee, call
								}
							}
						}
					}
				}
			}
		}
	}
	if setExt == nil {
		add("STRUCT.abs", fname, "abs-send-time attached through SetExtension", p.Position(pz.Pos()), false, "no SetExtension call")
	} else {
		lastOK := false
		root, _ := core.AddrKey(setExt.Call.Args[0])
		if helperCall != nil {
			// the target packet is a parameter of the helper: look at the argument in Packetize
			if ld, ok := root.(*ssa.UnOp); ok {
				root = ld.X
			}
			for i, pa := range setExtFn.Params {
				if root == ssa.Value(pa) && i < len(helperCall.Call.Args) {
					root = helperCall.Call.Args[i]
				}
			}
		}
		if ld, ok := root.(*ssa.UnOp); ok {
			if ia, ok := ld.X.(*ssa.IndexAddr); ok {
				if sub, ok := ia.Index.(*ssa.BinOp); ok && sub.Op == token.SUB {
					if k, isC := core.ConstInt(sub.Y); isC && k == 1 {
						if ln, ok := sub.X.(*ssa.Call); ok && core.BuiltinName(ln) == "len" {
							y := ln.Call.Args[0]
							if y == ia.X {
								lastOK = true
							}
							// len(payloads)-1 where packets = make([]*Packet, len(payloads))
							if mk, ok := ia.X.(*ssa.MakeSlice); ok {
								if l2, ok := mk.Len.(*ssa.Call); ok && core.BuiltinName(l2) == "len" && l2.Call.Args[0] == y {
									lastOK = true
								}
							}
						}
					}
				}
			}
		}
		add("STRUCT.abs", fname, "abs-send-time goes to packets[len(packets)-1]", p.Position(setExt.Pos()), lastOK, "")
		res := own.Analyze(p, setExtFn)
		v := res.ValueOf(setExt.Call.Args[2])
		var bad []string
		if v != nil {
			for l := range v.Ptr {
				if l.O.Kind != own.KAlloc {
					bad = append(bad, l.O.ID)
				}
			}
		}
		add("OWN.fresh", fname, "abs-send-time value is freshly allocated per call", p.Position(setExt.Pos()), v != nil && len(bad) == 0, "value may be shared: "+strings.Join(bad, ", "))
		// known finding D7: the extension is added after the fragments were cut to MTU-12
		r.Add("STRUCT.budget", fname, "no header growth after the fragments were cut (abs-send-time SetExtension)", p.Position(setExt.Pos()), false,
			"SetExtension adds up to 8 header bytes to the last packet after the payloader was given MTU-12: the packet can exceed the MTU")
		n++
	}
	if !litMoved {
		r.Floor("packetizer rule instances", n, 18)
	}
	// the packetizer never panics on what a payloader may return (an empty list: nothing to mark or to stamp)
	boundsFor(c, "C06", []*ssa.Function{pz, gp, ss})
	// sequencer transition (shared with C07)
	seqIface := p.NamedType("rtp", "Sequencer")
	if seqIface != nil {
		for _, t := range p.Implementers(seqIface.Underlying().(*types.Interface)) {
			next, roc := p.MethodOf(t, "NextSequenceNumber"), p.MethodOf(t, "RollOverCount")
			if next != nil && roc != nil {
				seqTransition(c, t, effectiveBody(core.Unwrap(next)), core.Unwrap(roc))
			}
		}
	}
}

func valOr(v ssa.Value) ssa.Value {
	if v == nil {
		return ssa.NewConst(nil, types.Typ[types.Bool])
	}
	return v
}
