package props

import (
	"rtpcheck/bits"
)

func init() {
	c14Payloader = func(c *Ctx) {
		if n := fragmentLayout(c, "codecs.(*H265Payloader).Payload", h265FU, "H265 FU", "", 1); n >= 0 {
			c.R.Floor("H265 FU header rows", n, 3)
		}
	}
	c14Parsers = func(c *Ctx) {
		p, r := c.Prog, c.R
		n := 0
		n += storeForms(c, "BITS.reader", "codecs.(*H265SingleNALUnitPacket).Unmarshal", [][2]string{{"payloadHeader", "$p[0].7-0 $p[1].7-0"}})
		n += storeForms(c, "BITS.reader", "codecs.(*H265FragmentationUnitPacket).Unmarshal", [][2]string{
			{"payloadHeader", "$p[0].7-0 $p[1].7-0"}, {"fuHeader", "$p[2].7-0"}})
		n += storeForms(c, "BITS.reader", "codecs.(*H265PACIPacket).Unmarshal", [][2]string{
			{"payloadHeader", "$p[0].7-0 $p[1].7-0"}, {"paciHeaderFields", "$p[2].7-0 $p[3].7-0"}})
		// DONL of a fragmentation unit: big-endian pair right after the FU header, read only under S
		if fn := p.Func("codecs.(*H265FragmentationUnitPacket).Unmarshal"); fn != nil {
			m := bits.Run(p, fn)
			n++
			r.Add("BITS.reader", "codecs.(*H265FragmentationUnitPacket).Unmarshal", "DONL = big-endian payload[3..4]", p.Position(fn.Pos()),
				hasValue(m, "$p[3].7-0 $p[4].7-0"), "no value is payload[3]<<8|payload[4]")
			n++
			r.Add("BITS.reader", "codecs.(*H265FragmentationUnitPacket).Unmarshal", "DONL read is conditional on the S bit (payload[2] bit 7)", p.Position(fn.Pos()),
				len(branchesOn(m, "$p[2].7")) >= 1, "no branch on payload[2].7")
		}
		if fn := p.Func("codecs.(*H265SingleNALUnitPacket).Unmarshal"); fn != nil {
			m := bits.Run(p, fn)
			n++
			r.Add("BITS.reader", "codecs.(*H265SingleNALUnitPacket).Unmarshal", "DONL = big-endian payload[2..3]", p.Position(fn.Pos()),
				hasValue(m, "$p[2].7-0 $p[3].7-0"), "no value is payload[2]<<8|payload[3]")
		}
		if fn := p.Func("codecs.(*H265AggregationPacket).Unmarshal"); fn != nil {
			m := bits.Run(p, fn)
			n++
			r.Add("BITS.reader", "codecs.(*H265AggregationPacket).Unmarshal", "first NALU size = big-endian 16 bit after the payload header (and DONL)", p.Position(fn.Pos()),
				hasValue(m, "$p[@c].7-0 $p[@c+1].7-0"), "no big-endian 16-bit size read")
		}
		n += resultForms(c, "BITS.reader", "codecs.(*H265Packet).IsPartitionHead", "$p[2].7")
		if fn := p.Func("codecs.(*H265Packet).IsPartitionHead"); fn != nil {
			m := bits.Run(p, fn)
			ts := cmpConsts(m, "0 0 $p[0].6-1")
			n++
			r.Add("BITS.reader", "codecs.(*H265Packet).IsPartitionHead", "FU type 49 tested on the type bits of payload[0]", p.Position(fn.Pos()),
				len(ts) == 1 && ts[0] == 49, "constants compared with payload[0] bits 6..1: "+u64s(ts))
		}
		r.Floor("H265 parser rows", n, 7)
	}
}
