package props

import (
	"fmt"
	"go/token"
	"go/types"
	"sort"
	"strings"

	"golang.org/x/tools/go/ssa"

	"rtpcheck/core"
)

// STRUCT.presence — "optional field F is decoded from the wire exactly when its presence flag G is
// set". For one decoder function the rule enumerates every path of the CFG to a success return and
// tracks (a) what the path has learnt about each flag field of the receiver (branch edges on a load
// of the flag, on `flag == 1`, or on the very value stored into the flag; constant stores) and
// (b) the last event of each governed field: a *wire* event (a store of a non-constant value, or a
// call of a method on the same receiver that, transitively, performs such a store) or a *reset*
// event (a constant store, or the whole receiver being overwritten).
//
// At the return:  G known true  => last event of F is a wire event
//                 G known false => last event of F is not a wire event
//                 G undetermined and F has an event => the value of F cannot depend on G on this
//                 path, which is wrong either for G=1 or for G=0.
// This is a necessary condition of "the descriptor decodes per the RFC table": if it fails there is
// a flag combination whose optional octet is skipped, or read although absent, so every later
// field and the payload offset are shifted.  It says nothing about *which* bits are stored (BITS
// decides that) nor about the cursor (BOUNDS).

type presRow struct {
	flag   string   // conjunction of literals over receiver fields: "I", "F&P", "!F", "Header.Padding"
	fields []string // governed receiver fields
}

type tri int8

const (
	triUnknown tri = iota
	triTrue
	triFalse
)

type evKind int8

const (
	evNone evKind = iota
	evWire
	evReset
)

type presState struct {
	flags map[string]tri
	last  map[string]evKind
	fail  map[ssa.Value]bool // error values known non-nil on this path
}

func (s *presState) clone() *presState {
	n := &presState{flags: map[string]tri{}, last: map[string]evKind{}, fail: map[ssa.Value]bool{}}
	for k, v := range s.flags {
		n.flags[k] = v
	}
	for k, v := range s.last {
		n.last[k] = v
	}
	for k, v := range s.fail {
		n.fail[k] = v
	}
	return n
}

func (s *presState) key(b *ssa.BasicBlock) string {
	var parts []string
	for k, v := range s.flags {
		parts = append(parts, fmt.Sprintf("f%s=%d", k, v))
	}
	for k, v := range s.last {
		parts = append(parts, fmt.Sprintf("e%s=%d", k, v))
	}
	sort.Strings(parts)
	return fmt.Sprintf("%d|%s|%d", b.Index, strings.Join(parts, ","), len(s.fail))
}

// wireFields computes, for every function of the receiver's method set reachable from fn, the set
// of receiver fields it (transitively) stores a non-constant value into.
func wireFields(fn *ssa.Function, memo map[*ssa.Function]map[string]bool, stack map[*ssa.Function]bool) map[string]bool {
	if m, ok := memo[fn]; ok {
		return m
	}
	if stack[fn] || len(fn.Blocks) == 0 || len(fn.Params) == 0 {
		return nil
	}
	stack[fn] = true
	defer delete(stack, fn)
	out := map[string]bool{}
	recv := fn.Params[0]
	for _, b := range fn.Blocks {
		for _, in := range b.Instrs {
			switch x := in.(type) {
			case *ssa.Store:
				root, path := core.AddrKey(x.Addr)
				if root == recv && path != "" {
					if _, isC := x.Val.(*ssa.Const); !isC {
						out[strings.TrimPrefix(path, ".")] = true
					}
				}
			case ssa.CallInstruction:
				if g := x.Common().StaticCallee(); g != nil && len(x.Common().Args) > 0 && x.Common().Args[0] == recv && g != fn {
					for f := range wireFields(g, memo, stack) {
						out[f] = true
					}
				}
			}
		}
	}
	memo[fn] = out
	return out
}

// presenceRule checks the rows against fn and returns the number of obligations generated.
func presenceRule(c *Ctx, fnName string, rows []presRow) int {
	p, r := c.Prog, c.R
	fn := p.Func(fnName)
	if fn == nil {
		missingAnchor(r, fnName)
		return 0
	}
	if len(fn.Params) == 0 {
		r.Fatalf("%s has no receiver", fnName)
		return 0
	}
	recv := fn.Params[0]
	flagSet := map[string]bool{}
	type lit struct {
		f   string
		pos bool
	}
	rowLits := make([][]lit, len(rows))
	governed := map[string]bool{}
	for i, row := range rows {
		for _, t := range strings.Split(row.flag, "&") {
			t = strings.TrimSpace(t)
			l := lit{t, true}
			if strings.HasPrefix(t, "!") {
				l = lit{t[1:], false}
			}
			flagSet[l.f] = true
			rowLits[i] = append(rowLits[i], l)
		}
		for _, f := range row.fields {
			governed[f] = true
		}
	}
	memo := map[*ssa.Function]map[string]bool{}
	// value stored into each flag (so that `if v` on the same value counts as a test of the flag)
	storedAs := map[ssa.Value]string{}
	for _, b := range fn.Blocks {
		for _, in := range b.Instrs {
			if st, ok := in.(*ssa.Store); ok {
				root, path := core.AddrKey(st.Addr)
				if root == recv && flagSet[strings.TrimPrefix(path, ".")] {
					if _, isC := st.Val.(*ssa.Const); !isC {
						storedAs[st.Val] = strings.TrimPrefix(path, ".")
					}
				}
			}
		}
	}
	// decode a branch condition into (flag, polarity)
	var flagOf func(v ssa.Value) (string, bool, bool)
	flagOf = func(v ssa.Value) (string, bool, bool) {
		if f, ok := storedAs[v]; ok {
			if b, isB := v.Type().Underlying().(*types.Basic); isB && b.Kind() == types.Bool {
				return f, true, true
			}
		}
		switch x := v.(type) {
		case *ssa.UnOp:
			if x.Op == token.MUL {
				root, path := core.AddrKey(x.X)
				if root == recv && flagSet[strings.TrimPrefix(path, ".")] {
					if b, isB := x.Type().Underlying().(*types.Basic); isB && b.Kind() == types.Bool {
						return strings.TrimPrefix(path, "."), true, true
					}
				}
			}
			if x.Op == token.NOT {
				if f, pol, ok := flagOf(x.X); ok {
					return f, !pol, true
				}
			}
		case *ssa.BinOp:
			if x.Op != token.EQL && x.Op != token.NEQ {
				return "", false, false
			}
			val, k := x.X, x.Y
			if _, isC := val.(*ssa.Const); isC {
				val, k = k, val
			}
			// numeric flag compared with 0/1
			name := ""
			if f, ok := storedAs[val]; ok {
				name = f
			} else if u, ok := val.(*ssa.UnOp); ok && u.Op == token.MUL {
				root, path := core.AddrKey(u.X)
				if root == recv && flagSet[strings.TrimPrefix(path, ".")] {
					name = strings.TrimPrefix(path, ".")
				}
			}
			if name == "" {
				return "", false, false
			}
			if n, ok := core.ConstInt(k); ok && (n == 0 || n == 1) {
				pol := n == 1
				if x.Op == token.NEQ {
					pol = !pol
				}
				return name, pol, true
			}
			if bv, ok := core.ConstBool(k); ok {
				pol := bv
				if x.Op == token.NEQ {
					pol = !pol
				}
				return name, pol, true
			}
		}
		return "", false, false
	}
	// literal struct stored over the whole receiver: per-field classification
	litFields := func(st *ssa.Store) map[string]bool { // field -> stored non-constant
		out := map[string]bool{}
		if ld, ok := st.Val.(*ssa.UnOp); ok && ld.Op == token.MUL {
			if al, ok := ld.X.(*ssa.Alloc); ok {
				for _, ref := range *al.Referrers() {
					if fa, ok := ref.(*ssa.FieldAddr); ok {
						for _, r2 := range *fa.Referrers() {
							if s2, ok := r2.(*ssa.Store); ok && s2.Addr == fa {
								_, isC := s2.Val.(*ssa.Const)
								out[core.FieldName(fa)] = !isC
							}
						}
					}
				}
			}
		}
		return out
	}

	type failure struct{ row, field, why, path string }
	fails := map[string]failure{} // key row#field -> first failure
	flagTested := map[string]bool{}
	nSuccess := 0
	seen := map[string]bool{}
	onPath := map[*ssa.BasicBlock]int{}
	var trail []*ssa.BasicBlock
	budget := 200000

	describe := func() string {
		var ls []string
		lastLine := -1
		for _, b := range trail {
			for _, in := range b.Instrs {
				if in.Pos().IsValid() {
					l := p.Fset.Position(in.Pos()).Line
					if l != lastLine {
						ls = append(ls, fmt.Sprint(l))
						lastLine = l
					}
					break
				}
			}
		}
		if len(ls) > 14 {
			ls = append(ls[:6], append([]string{"..."}, ls[len(ls)-6:]...)...)
		}
		return "path through lines " + strings.Join(ls, ">")
	}

	atReturn := func(s *presState, ret *ssa.Return) {
		// success path?
		for _, res := range ret.Results {
			if !isErrType(res.Type()) {
				continue
			}
			if core.IsNilConst(res) {
				continue
			}
			if s.fail[res] {
				return
			}
			// tail position: the verdict of a method of the same receiver is returned; the path is a
			// success candidate. Any other non-constant error (fmt.Errorf, a sentinel) is a failure.
			var call *ssa.Call
			switch x := res.(type) {
			case *ssa.Extract:
				call, _ = x.Tuple.(*ssa.Call)
			case *ssa.Call:
				call = x
			}
			if call == nil || call.Call.StaticCallee() == nil || len(call.Call.Args) == 0 || call.Call.Args[0] != recv {
				return
			}
		}
		nSuccess++
		for i, row := range rows {
			g := triTrue
			for _, l := range rowLits[i] {
				v := s.flags[l.f]
				if v == triUnknown {
					if g != triFalse {
						g = triUnknown
					}
					continue
				}
				if (v == triTrue) != l.pos {
					g = triFalse
				}
			}
			for _, f := range row.fields {
				k := fmt.Sprintf("%d#%s", i, f)
				if _, dup := fails[k]; dup {
					continue
				}
				ev := s.last[f]
				why := ""
				switch {
				case g == triTrue && ev != evWire:
					why = "the flag is set on this path but the field is not decoded from the input"
				case g == triFalse && ev == evWire:
					why = "the flag is clear on this path but the field is decoded from the input"
				case g == triUnknown && ev != evNone:
					why = "the path never tests the flag, so the field's value cannot depend on it"
				}
				if why != "" {
					fails[k] = failure{row.flag, f, why, describe()}
				}
			}
		}
	}

	var walk func(b *ssa.BasicBlock, s *presState)
	walk = func(b *ssa.BasicBlock, s *presState) {
		if budget <= 0 {
			return
		}
		budget--
		if onPath[b] >= 2 {
			return
		}
		k := s.key(b)
		if len(trail) >= 1 {
			k += fmt.Sprintf("|from%d", trail[len(trail)-1].Index)
		}
		if seen[k] && onPath[b] == 0 {
			return
		}
		seen[k] = true
		onPath[b]++
		trail = append(trail, b)
		defer func() { onPath[b]--; trail = trail[:len(trail)-1] }()
		for _, in := range b.Instrs {
			switch x := in.(type) {
			case *ssa.Store:
				root, path := core.AddrKey(x.Addr)
				if root != recv {
					continue
				}
				name := strings.TrimPrefix(path, ".")
				// a value merged by a phi (v := 0; if flag { v = buf[i] }; p.F = v) is what this path assigned
				val := x.Val
				for depth := 0; depth < 4; depth++ {
					ph, ok := val.(*ssa.Phi)
					if !ok {
						break
					}
					at := -1
					for ti := len(trail) - 1; ti >= 1; ti-- {
						if trail[ti] == ph.Block() {
							at = ti
							break
						}
					}
					if at < 1 {
						break
					}
					resolved := false
					for ei, pr := range ph.Block().Preds {
						if pr == trail[at-1] {
							val = ph.Edges[ei]
							resolved = true
						}
					}
					if !resolved {
						break
					}
				}
				_, isC := val.(*ssa.Const)
				if path == "" {
					// whole receiver overwritten
					lf := litFields(x)
					for f := range governed {
						if lf[f] {
							s.last[f] = evWire
						} else {
							s.last[f] = evReset
						}
					}
					for f := range flagSet {
						if nonConst, has := lf[f]; has && nonConst {
							s.flags[f] = triUnknown
						} else if !has {
							s.flags[f] = triFalse
						} else {
							s.flags[f] = triUnknown
						}
					}
					continue
				}
				if governed[name] {
					if isC {
						s.last[name] = evReset
					} else {
						s.last[name] = evWire
					}
				}
				if flagSet[name] {
					s.flags[name] = triUnknown
					if isC {
						if n, ok := core.ConstInt(x.Val); ok {
							if n == 0 {
								s.flags[name] = triFalse
							} else if n == 1 {
								s.flags[name] = triTrue
							}
						}
						if bv, ok := core.ConstBool(x.Val); ok {
							if bv {
								s.flags[name] = triTrue
							} else {
								s.flags[name] = triFalse
							}
						}
					}
				}
			case ssa.CallInstruction:
				g := x.Common().StaticCallee()
				if g == nil || len(x.Common().Args) == 0 || x.Common().Args[0] != recv {
					continue
				}
				for f := range wireFields(g, memo, map[*ssa.Function]bool{}) {
					if governed[f] {
						s.last[f] = evWire
					}
					if flagSet[f] {
						s.flags[f] = triUnknown
					}
				}
			case *ssa.Return:
				atReturn(s, x)
				return
			case *ssa.If:
				// `a || b` outside an if-condition is a phi of a constant and b: resolve it for the edge taken
				var prev *ssa.BasicBlock
				if len(trail) >= 2 {
					prev = trail[len(trail)-2]
				}
				rc, constKnown, constVal := condVia(x.Cond, prev)
				f, pol, isFlag := flagOf(rc)
				if constKnown {
					isFlag = false
				}
				if isFlag {
					flagTested[f] = true
				}
				// error test
				var errVal ssa.Value
				errNonNilOnTrue := false
				if bo, ok := x.Cond.(*ssa.BinOp); ok && (bo.Op == token.NEQ || bo.Op == token.EQL) {
					v, kk := bo.X, bo.Y
					if core.IsNilConst(v) {
						v, kk = kk, v
					}
					if core.IsNilConst(kk) && isErrType(v.Type()) {
						errVal = v
						errNonNilOnTrue = bo.Op == token.NEQ
					}
				}
				for i, succ := range b.Succs {
					taken := i == 0
					if constKnown && taken != constVal {
						continue
					}
					ns := s.clone()
					if isFlag {
						want := triFalse
						if pol == taken {
							want = triTrue
						}
						if cur := ns.flags[f]; cur != triUnknown && cur != want {
							continue // infeasible
						}
						ns.flags[f] = want
					}
					if errVal != nil && taken == errNonNilOnTrue {
						ns.fail[errVal] = true
					}
					walk(succ, ns)
				}
				return
			case *ssa.Jump:
				walk(b.Succs[0], s)
				return
			case *ssa.Panic:
				return
			}
		}
	}
	walk(fn.Blocks[0], &presState{flags: map[string]tri{}, last: map[string]evKind{}, fail: map[ssa.Value]bool{}})

	n := 0
	pos := p.Position(fn.Pos())
	if budget <= 0 {
		r.Fatalf("STRUCT.presence: path budget exhausted in %s", fnName)
	}
	for i, row := range rows {
		untested := ""
		for _, l := range rowLits[i] {
			if !flagTested[l.f] {
				untested = l.f
			}
		}
		for _, f := range row.fields {
			n++
			text := fmt.Sprintf("field %s is decoded from the input exactly when %s", f, row.flag)
			fl, bad := fails[fmt.Sprintf("%d#%s", i, f)]
			switch {
			case nSuccess == 0:
				r.Add("STRUCT.presence", fnName, text, pos, false, "no success return path found")
			case untested != "" && calleeTestsFlag(fn, untested, f):
				// the presence test moved into the helper that decodes the field: the per-path rule, which walks this
				// function's own branches, does not see it
				r.Infof("STRUCT.presence %s: %s: not decided — flag %s is tested inside a helper, not in the function itself", fnName, text, untested)
			case untested != "":
				r.Add("STRUCT.presence", fnName, text, pos, false, "no branch of the function tests flag "+untested)
			case bad:
				r.Add("STRUCT.presence", fnName, text, pos, false, fl.why+" ("+fl.path+")")
			default:
				r.Add("STRUCT.presence", fnName, text, pos, true, "")
			}
		}
	}
	r.Infof("STRUCT.presence %s: %d success paths, %d rows", fnName, nSuccess, len(rows))
	return n
}

func isErrType(t types.Type) bool {
	n, ok := t.(*types.Named)
	return ok && n.Obj().Pkg() == nil && n.Obj().Name() == "error"
}

// calleeTestsFlag: a function that fn calls (module functions, transitively) both branches on a load of a field
// named flag and stores the field named field (the helper that decodes the field carries its presence test).
func calleeTestsFlag(fn *ssa.Function, flag, field string) bool {
	tests, stores := map[*ssa.Function]bool{}, map[*ssa.Function]bool{}
	for _, b := range blocksWithCallees(fn) {
		g := b.Parent()
		if g == fn || len(b.Instrs) == 0 {
			continue
		}
		for _, in := range b.Instrs {
			if st, ok := in.(*ssa.Store); ok {
				if fa, ok := st.Addr.(*ssa.FieldAddr); ok && core.FieldName(fa) == field {
					stores[g] = true
				}
			}
		}
		iff, ok := b.Instrs[len(b.Instrs)-1].(*ssa.If)
		if !ok {
			continue
		}
		vals := []ssa.Value{iff.Cond}
		if bo, ok := iff.Cond.(*ssa.BinOp); ok {
			vals = append(vals, bo.X, bo.Y)
		}
		if un, ok := iff.Cond.(*ssa.UnOp); ok && un.Op == token.NOT {
			vals = append(vals, un.X)
		}
		for _, v := range vals {
			if loadedField(v) == flag {
				tests[g] = true
			}
		}
	}
	for g := range tests {
		if stores[g] {
			return true
		}
	}
	return false
}
