package props

import (
	"go/token"

	"golang.org/x/tools/go/ssa"

	"rtpcheck/bounds"
	"rtpcheck/core"
	"rtpcheck/lin"
)

// stapAOptionHooks: "SPS/PPS arrive as one STAP-A before the next unit, or individually when STAP-A is
// disabled". A parameter set may be held back (stored into the payloader's spsNalu/ppsNalu with anything but the
// nil constant) only on a path that has read the option DisableStapA and found it false; otherwise a payloader
// with STAP-A disabled emits the set individually *and* keeps it for an aggregate it was told not to build.
func stapAOptionHooks(c *Ctx, seen *int) *bounds.Hooks {
	held := map[string]bool{"spsNalu": true, "ppsNalu": true}
	optLoads := map[*ssa.Function][]ssa.Value{}
	loadsOf := func(fn *ssa.Function) []ssa.Value {
		if v, ok := optLoads[fn]; ok {
			return v
		}
		var out []ssa.Value
		for _, b := range fn.Blocks {
			for _, in := range b.Instrs {
				if u, ok := in.(*ssa.UnOp); ok && u.Op == token.MUL {
					if fa, ok := u.X.(*ssa.FieldAddr); ok && core.FieldName(fa) == "DisableStapA" {
						out = append(out, u)
					}
				}
			}
		}
		optLoads[fn] = out
		return out
	}
	return &bounds.Hooks{AtInstr: func(h *bounds.Helper, fn *ssa.Function, in ssa.Instruction, d *bounds.Disjunct) {
		st, ok := in.(*ssa.Store)
		if !ok {
			return
		}
		fa, ok := st.Addr.(*ssa.FieldAddr)
		if !ok || !held[core.FieldName(fa)] {
			return
		}
		if k, isC := st.Val.(*ssa.Const); isC && k.Value == nil {
			return // released
		}
		*seen++
		okOpt := false
		for _, ld := range loadsOf(fn) {
			if d.Has(ld) && d.Entails(lin.EQ(d.Int(ld), lin.Const(0))...) {
				okOpt = true
			}
		}
		h.Oblige("a parameter set is held back only where STAP-A is known to be enabled", okOpt,
			"the set is stored on a path that has not found DisableStapA to be false")
	}}
}
