package props

import "golang.org/x/tools/go/ssa"

func init() { Registry["C05"] = c05 }

// C05 — Header extension accessors behave as an ordered map that survives the wire.
func c05(c *Ctx) {
	p, r := c.Prog, c.R
	r.Explain = "STRUCT: every insertion into the extension list is dominated by guards that entail the RFC 8285 range " +
		"table of the profile in force; no receiver store on a path to an error return; BOUNDS: no panic in " +
		"Set/Del/Get/GetIDs and a following Marshal for any header state reachable through the public fields."
	var entries []*ssa.Function
	for _, n := range []string{"rtp.(*Header).SetExtension", "rtp.(*Header).DelExtension", "rtp.(*Header).GetExtension", "rtp.(*Header).GetExtensionIDs",
		"rtp.(Header).Marshal", "rtp.(Header).MarshalTo", "rtp.(Header).MarshalSize"} {
		f := p.Func(n)
		if f == nil {
			missingAnchor(r, n)
			continue
		}
		entries = append(entries, f)
	}
	boundsFor(c, "C05", entries)
	structC05(c)
}

var structC05 = func(c *Ctx) {}
