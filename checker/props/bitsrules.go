package props

import (
	"fmt"
	"os"
	"sort"
	"strconv"
	"strings"

	"golang.org/x/tools/go/ssa"

	"rtpcheck/bits"
	"rtpcheck/core"
)

func init() { Registry["BITSDUMP"] = bitsDump }

// bitsDump prints the symbolic returns of the functions named in $RTPCHECK_FUNCS (debug aid).
func bitsDump(c *Ctx) {
	c.R.Explain = "debug"
	for _, name := range strings.Split(os.Getenv("RTPCHECK_FUNCS"), ",") {
		fn := c.Prog.Func(name)
		if fn == nil {
			fmt.Println("no such function", name)
			continue
		}
		m := bits.Run(c.Prog, fn)
		fmt.Println("==", name)
		for i, rs := range m.Returns {
			fmt.Printf(" return #%d at %s\n", i, c.Prog.Position(rs.Ret.Pos()))
			for j, r := range rs.Results {
				if r != nil {
					fmt.Printf("   result %d = %s\n", j, r)
				}
			}
			for _, k := range rs.SortedKeys() {
				fmt.Printf("   %s = %s\n", k, rs.Mem[k])
			}
			for j := range rs.Ret.Results {
				if ob := outBytes(rs, j); len(ob) > 0 {
					for k, v := range ob {
						fmt.Printf("   out%d[%d] = %s\n", j, k, v)
					}
				}
			}
		}
	}
	c.R.Add("BITS.dump", "debug", "dump", "", true, "")
}

// outBytes returns the bytes of the slice returned as result j (nil if not a locally built slice).
func outBytes(rs *bits.RetState, j int) []bits.Vec {
	if j >= len(rs.Ret.Results) {
		return nil
	}
	v := rs.Ret.Results[j]
	root, n := sliceRootLen(rs.Machine, v)
	if root == nil {
		return nil
	}
	var out []bits.Vec
	for k := 0; k < n; k++ {
		key := fmt.Sprintf("%s[%d]", root.Name(), k)
		if b, ok := rs.Mem[key]; ok {
			out = append(out, b)
		} else {
			out = append(out, zeroByte())
		}
	}
	return out
}

func zeroByte() bits.Vec { return make(bits.Vec, 8) }

// sliceRootLen finds the allocation behind a returned slice and its constant length.
func sliceRootLen(m *bits.Machine, v ssa.Value) (ssa.Value, int) {
	for i := 0; i < 8; i++ {
		switch x := v.(type) {
		case *ssa.Slice:
			if x.Low != nil {
				return nil, 0
			}
			if x.High != nil {
				// buf[:n]: keep the root, length decided by the root
			}
			v = x.X
			continue
		case *ssa.MakeSlice:
			if n, ok := core.ConstInt(x.Len); ok {
				return x, int(n)
			}
			if m != nil {
				// a length that the machine evaluates to a constant (a phi with one live edge under a case split)
				if n, ok := m.ValueOf(x.Len).ConstVal(); ok && n < 1<<16 {
					return x, int(n)
				}
			}
			return nil, 0
		case *ssa.Alloc:
			if n, ok := arrayLenOf(x); ok {
				return x, n
			}
			return nil, 0
		}
		break
	}
	return nil, 0
}

func arrayLenOf(a *ssa.Alloc) (int, bool) {
	s := a.Type().String() // *[N]byte
	if !strings.HasPrefix(s, "*[") {
		return 0, false
	}
	end := strings.Index(s, "]")
	n, err := strconv.Atoi(s[2:end])
	return n, err == nil
}

// ---- specification language ------------------------------------------------------------------------

// parseSpec parses "Voice.0 Level.6-0" (MSB first) into a little-endian vector. Tokens: 0, 1,
// F.j, !F.j, F.hi-lo (a run of bits of field F), "_" (unconstrained).
type specBit struct {
	any bool
	b   bits.Bit
}

func parseSpec(s string, prefix string) ([]specBit, error) {
	var msb []specBit
	for _, tok := range strings.Fields(s) {
		switch {
		case tok == "0":
			msb = append(msb, specBit{b: bits.Bit{K: bits.Zero}})
		case tok == "1":
			msb = append(msb, specBit{b: bits.Bit{K: bits.One}})
		case tok == "_":
			msb = append(msb, specBit{any: true})
		case strings.HasPrefix(tok, "_x"):
			n, err := strconv.Atoi(tok[2:])
			if err != nil {
				return nil, err
			}
			for i := 0; i < n; i++ {
				msb = append(msb, specBit{any: true})
			}
		case strings.HasPrefix(tok, "0x"):
			n, err := strconv.Atoi(tok[2:])
			if err != nil {
				return nil, err
			}
			for i := 0; i < n; i++ {
				msb = append(msb, specBit{b: bits.Bit{K: bits.Zero}})
			}
		default:
			neg := strings.HasPrefix(tok, "!")
			tok = strings.TrimPrefix(tok, "!")
			dot := strings.LastIndex(tok, ".")
			if dot < 0 {
				return nil, fmt.Errorf("bad token %q", tok)
			}
			src, rng := prefix+tok[:dot], tok[dot+1:]
			if strings.HasPrefix(tok, "*") {
				src = "*" + prefix + tok[1:dot]
			}
			hi, lo := 0, 0
			if i := strings.Index(rng, "-"); i >= 0 {
				h, err1 := strconv.Atoi(rng[:i])
				l, err2 := strconv.Atoi(rng[i+1:])
				if err1 != nil || err2 != nil {
					return nil, fmt.Errorf("bad range %q", tok)
				}
				hi, lo = h, l
			} else {
				h, err := strconv.Atoi(rng)
				if err != nil {
					return nil, fmt.Errorf("bad bit %q", tok)
				}
				hi, lo = h, h
			}
			for j := hi; j >= lo; j-- {
				k := bits.In
				if neg {
					k = bits.Not
				}
				msb = append(msb, specBit{b: bits.Bit{K: k, Src: src, J: j}})
			}
		}
	}
	// to little-endian
	out := make([]specBit, len(msb))
	for i := range msb {
		out[len(msb)-1-i] = msb[i]
	}
	return out, nil
}

// matchSpec compares a computed vector with a spec; returns a description of the first mismatch.
func matchSpec(got bits.Vec, spec []specBit) (bool, string) {
	return matchSpecBind(got, spec, nil)
}

// matchSpecBind additionally resolves placeholders: a specification source "$n[0]" matches any
// source "<root>[0]"; the root is bound on first use in bind and must stay the same afterwards.
func matchSpecBind(got bits.Vec, spec []specBit, bind map[string]string) (bool, string) {
	if len(got) != len(spec) {
		return false, fmt.Sprintf("width %d, specification has %d bits", len(got), len(spec))
	}
	for i := range spec {
		if spec[i].any {
			continue
		}
		if src := spec[i].b.Src; strings.HasPrefix(src, "$") && bind != nil && (got[i].K == bits.In || got[i].K == bits.Not) {
			ph, rest := src, ""
			if j := strings.IndexAny(src, "[."); j >= 0 {
				ph, rest = src[:j], src[j:]
			}
			actual := got[i].Src
			if !strings.HasSuffix(actual, rest) {
				return false, fmt.Sprintf("bit %d is %s, specification says %s (computed %s)", i, got[i], spec[i].b, got)
			}
			root := strings.TrimSuffix(actual, rest)
			if b, ok := bind[ph]; ok && b != root {
				return false, fmt.Sprintf("bit %d comes from %s but %s was bound to %s", i, actual, ph, b)
			}
			bind[ph] = root
			if got[i].K == spec[i].b.K && got[i].J == spec[i].b.J {
				continue
			}
			return false, fmt.Sprintf("bit %d is %s, specification says %s (computed %s)", i, got[i], spec[i].b, got)
		}
		if got[i] != spec[i].b {
			return false, fmt.Sprintf("bit %d is %s, specification says %s (computed %s)", i, got[i], spec[i].b, got)
		}
	}
	return true, ""
}

// checkVec registers one BITS obligation.
func checkVec(c *Ctx, rule, fname, what string, pos string, got bits.Vec, spec, prefix string) {
	sp, err := parseSpec(spec, prefix)
	if err != nil {
		c.R.Fatalf("bad specification for %s %s: %v", fname, what, err)
		return
	}
	ok, why := matchSpec(got, sp)
	c.R.Add(rule, fname, what+" = "+spec, pos, ok, why)
}

func sortedKeys(m map[string]string) []string {
	var ks []string
	for k := range m {
		ks = append(ks, k)
	}
	sort.Strings(ks)
	return ks
}

// emitted describes one packet buffer handed to append(payloads, out) in a payloader: the
// allocation and the symbolic bytes it holds at that point.
type emitted struct {
	call  *ssa.Call
	root  *ssa.MakeSlice
	bytes func(k int) bits.Vec
	fn    *ssa.Function
}

// emittedBuffers lists the buffers appended to a [][]byte in fn (including its closures).
func emittedBuffers(c *Ctx, fn *ssa.Function) []emitted {
	var out []emitted
	var visit func(f *ssa.Function)
	visit = func(f *ssa.Function) {
		m := bits.Run(c.Prog, f)
		var calls []*ssa.Call
		for call := range m.Snaps {
			calls = append(calls, call)
		}
		sort.Slice(calls, func(i, j int) bool { return calls[i].Pos() < calls[j].Pos() })
		for _, call := range calls {
			if len(call.Call.Args) != 2 {
				continue
			}
			// appended element: the variadic slice literal holds one []byte element
			var elem ssa.Value
			if sl, ok := call.Call.Args[1].(*ssa.Slice); ok {
				if a, ok := sl.X.(*ssa.Alloc); ok {
					for _, ref := range *a.Referrers() {
						if ia, ok := ref.(*ssa.IndexAddr); ok {
							for _, r2 := range *ia.Referrers() {
								if st, ok := r2.(*ssa.Store); ok && st.Addr == ia {
									elem = st.Val
								}
							}
						}
					}
				}
			}
			if elem == nil {
				continue
			}
			mk, ok := elem.(*ssa.MakeSlice)
			if !ok {
				continue
			}
			snap := m.Snaps[call]
			name := mk.Name()
			out = append(out, emitted{call: call, root: mk, fn: f, bytes: func(k int) bits.Vec {
				if v, ok := snap[fmt.Sprintf("%s[%d]", name, k)]; ok {
					return v
				}
				return zeroByte()
			}})
		}
		for _, a := range f.AnonFuncs {
			visit(a)
		}
	}
	visit(fn)
	return out
}

func init() { Registry["EMITDUMP"] = emitDump }

func emitDump(c *Ctx) {
	c.R.Explain = "debug"
	for _, name := range strings.Split(os.Getenv("RTPCHECK_FUNCS"), ",") {
		fn := c.Prog.Func(name)
		if fn == nil {
			fmt.Println("no such function", name)
			continue
		}
		for _, e := range emittedBuffers(c, fn) {
			fmt.Printf("== %s emits %s at %s\n", core.FuncName(e.fn), e.root.Name(), c.Prog.Position(e.call.Pos()))
			for k := 0; k < 6; k++ {
				fmt.Printf("   [%d] = %s\n", k, e.bytes(k))
			}
		}
	}
	c.R.Add("BITS.dump", "debug", "dump", "", true, "")
}

// checkBytes compares the leading bytes of an emitted buffer with a table.
func checkBytes(c *Ctx, rule string, e emitted, what string, table []string, prefix string) int {
	bind := map[string]string{}
	n := 0
	for k, row := range table {
		sp, err := parseSpec(row, prefix)
		if err != nil {
			c.R.Fatalf("bad specification %q: %v", row, err)
			continue
		}
		ok, why := matchSpecBind(e.bytes(k), sp, bind)
		n++
		c.R.Add(rule, core.FuncName(e.fn), fmt.Sprintf("%s byte %d = %s", what, k, row), c.Prog.Position(e.call.Pos()), ok, why)
	}
	return n
}

// loopEmits returns the emitted buffers allocated inside a loop (fragment buffers).
func loopEmits(c *Ctx, fn *ssa.Function) []emitted {
	var out []emitted
	for _, e := range emittedBuffers(c, fn) {
		if inAnyLoop(e.root.Block()) {
			out = append(out, e)
		}
	}
	return out
}

func inAnyLoop(b *ssa.BasicBlock) bool {
	seen := map[*ssa.BasicBlock]bool{}
	stack := append([]*ssa.BasicBlock{}, b.Succs...)
	for len(stack) > 0 {
		x := stack[len(stack)-1]
		stack = stack[:len(stack)-1]
		if x == b {
			return true
		}
		if seen[x] {
			continue
		}
		seen[x] = true
		stack = append(stack, x.Succs...)
	}
	return false
}

// ---- positional patterns for readers --------------------------------------------------------------

// parseSrc splits "payload[t41+1]" into (root "payload", base "t41", off 1); "payload[3]" into
// ("payload", "", 3); other sources return ok=false.
func parseSrc(s string) (root, base string, off int, ok bool) {
	i := strings.LastIndex(s, "[")
	if i < 0 || !strings.HasSuffix(s, "]") {
		return "", "", 0, false
	}
	root = s[:i]
	idx := s[i+1 : len(s)-1]
	if n, err := strconv.Atoi(idx); err == nil {
		return root, "", n, true
	}
	j := strings.LastIndexAny(idx, "+-")
	if j > 0 {
		if n, err := strconv.Atoi(idx[j:]); err == nil {
			return root, idx[:j], n, true
		}
	}
	return root, idx, 0, true
}

type posBind struct {
	root map[string]string
	idx  map[string][2]string // placeholder -> (base, offset as string)
}

func newPosBind() *posBind { return &posBind{root: map[string]string{}, idx: map[string][2]string{}} }

// matchPos compares got with a spec whose sources look like "$p[@c+1]".
func matchPos(got bits.Vec, spec []specBit, pb *posBind) (bool, string) {
	if len(got) != len(spec) {
		return false, fmt.Sprintf("width %d, specification has %d bits", len(got), len(spec))
	}
	for i := range spec {
		if spec[i].any {
			continue
		}
		sb := spec[i].b
		if sb.K == bits.Zero || sb.K == bits.One {
			if got[i] != sb {
				return false, fmt.Sprintf("bit %d is %s, specification says %s", i, got[i], sb)
			}
			continue
		}
		if got[i].K != sb.K || got[i].J != sb.J {
			return false, fmt.Sprintf("bit %d is %s, specification says %s", i, got[i], sb)
		}
		sroot, sbase, soff, ok1 := parseSrc(sb.Src)
		aroot, abase, aoff, ok2 := parseSrc(got[i].Src)
		if !ok1 || !ok2 {
			if sb.Src != got[i].Src {
				return false, fmt.Sprintf("bit %d comes from %s, specification says %s", i, got[i].Src, sb.Src)
			}
			continue
		}
		if strings.HasPrefix(sroot, "$") {
			if b, ok := pb.root[sroot]; ok && b != aroot {
				return false, fmt.Sprintf("bit %d comes from %s, expected buffer %s", i, got[i].Src, b)
			}
			pb.root[sroot] = aroot
		} else if sroot != aroot {
			return false, fmt.Sprintf("bit %d comes from %s, specification says %s", i, got[i].Src, sb.Src)
		}
		if strings.HasPrefix(sbase, "@") {
			want := [2]string{abase, strconv.Itoa(aoff - soff)}
			if b, ok := pb.idx[sbase]; ok && b != want {
				return false, fmt.Sprintf("bit %d comes from %s: byte position differs from the other bits of this field group (cursor %s%+s)", i, got[i].Src, b[0], b[1])
			}
			pb.idx[sbase] = want
		} else if sbase != abase || soff != aoff {
			return false, fmt.Sprintf("bit %d comes from %s, specification says %s", i, got[i].Src, sb.Src)
		}
	}
	return true, ""
}

// readerField checks every non-zero store to recv.<field> in m against the allowed patterns and
// requires each pattern to be used by at least one store. Patterns within one call share pb.
// helperResultVecs: when v is (an element of) the result of a call to a function of the module, the
// vectors that function returns for that result on its success returns; nil otherwise.
func helperResultVecs(p *core.Program, v ssa.Value) []bits.Vec {
	idx := 0
	var call *ssa.Call
	switch x := v.(type) {
	case *ssa.Extract:
		idx = x.Index
		call, _ = x.Tuple.(*ssa.Call)
	case *ssa.Call:
		call = x
	case *ssa.Convert:
		return helperResultVecs(p, x.X)
	}
	if call == nil {
		return nil
	}
	g := call.Call.StaticCallee()
	if g == nil || !core.InModule(g) || len(g.Blocks) == 0 {
		return nil
	}
	sub := bits.Run(p, g)
	var out []bits.Vec
	for _, rs := range sub.Returns {
		if !successReturn(rs) || idx >= len(rs.Results) {
			continue
		}
		out = append(out, rs.Results[idx])
	}
	return out
}

func readerField(c *Ctx, rule string, m *bits.Machine, fname, field string, patterns []string, pb *posBind) int {
	p := c.Prog
	used := make([]bool, len(patterns))
	var specs [][]specBit
	for _, pt := range patterns {
		sp, err := parseSpec(pt, "")
		if err != nil {
			c.R.Fatalf("bad pattern %q: %v", pt, err)
			return 0
		}
		specs = append(specs, sp)
	}
	n := 0
	for _, st := range m.AllStores() {
		if st.Key != "recv."+field {
			continue
		}
		if v, isC := st.Val.ConstVal(); isC && v == 0 {
			continue // reset
		}
		n++
		matched := false
		var why string
		// a value produced by a helper function (id, n, err := parsePictureID(buf)): the forms are the
		// helper's returned vectors, positions relative to the slice it was given
		opaque := false
		for _, b := range st.Val {
			if b.K == bits.Top || strings.HasPrefix(b.Src, "call:") {
				opaque = true
			}
		}
		if cands := helperResultVecs(p, st.Instr.Val); opaque && len(cands) > 0 {
			all := true
			for _, cv := range cands {
				if v, isC := cv.ConstVal(); isC && v == 0 {
					continue
				}
				one := false
				for i, sp := range specs {
					if ok, _ := matchPos(cv, sp, newPosBind()); ok {
						one, used[i] = true, true
						break
					}
				}
				if !one {
					all = false
					why = "a value returned by the helper matches no form: " + cv.String()
				}
			}
			c.R.Add(rule, fname, fmt.Sprintf("field %s decoded per table (%s)", field, strings.Join(patterns, " | ")), p.Position(st.Instr.Pos()), all,
				fmt.Sprintf("stored %s: %s", st.Val, why))
			continue
		}
		for i, sp := range specs {
			trial := &posBind{root: map[string]string{}, idx: map[string][2]string{}}
			for k, v := range pb.root {
				trial.root[k] = v
			}
			for k, v := range pb.idx {
				trial.idx[k] = v
			}
			ok, w := matchPos(st.Val, sp, trial)
			if ok {
				matched, used[i] = true, true
				*pb = *trial
				break
			}
			why = w
		}
		c.R.Add(rule, fname, fmt.Sprintf("field %s decoded per table (%s)", field, strings.Join(patterns, " | ")), p.Position(st.Instr.Pos()), matched,
			fmt.Sprintf("stored %s: %s", st.Val, why))
	}
	for i, u := range used {
		if !u {
			addOrUndecided(c, rule, fname, fmt.Sprintf("field %s: form %q is decoded somewhere", field, patterns[i]), p.Position(m.Fn.Pos()), false, "no store matches this form", m.Fn)
		}
	}
	return n
}
