package props

import (
	"fmt"
	"os"
	"sort"
	"strconv"
	"strings"

	"golang.org/x/tools/go/ssa"

	"rtpcheck/bits"
	"rtpcheck/core"
)

func init() { Registry["BITSDUMP"] = bitsDump }

// bitsDump prints the symbolic returns of the functions named in $RTPCHECK_FUNCS (debug aid).
func bitsDump(c *Ctx) {
	c.R.Explain = "debug"
	for _, name := range strings.Split(os.Getenv("RTPCHECK_FUNCS"), ",") {
		fn := c.Prog.Func(name)
		if fn == nil {
			fmt.Println("no such function", name)
			continue
		}
		m := bits.Run(c.Prog, fn)
		fmt.Println("==", name)
		for i, rs := range m.Returns {
			fmt.Printf(" return #%d at %s\n", i, c.Prog.Position(rs.Ret.Pos()))
			for j, r := range rs.Results {
				if r != nil {
					fmt.Printf("   result %d = %s\n", j, r)
				}
			}
			for _, k := range rs.SortedKeys() {
				fmt.Printf("   %s = %s\n", k, rs.Mem[k])
			}
			for j := range rs.Ret.Results {
				if ob := outBytes(rs, j); len(ob) > 0 {
					for k, v := range ob {
						fmt.Printf("   out%d[%d] = %s\n", j, k, v)
					}
				}
			}
		}
	}
	c.R.Add("BITS.dump", "debug", "dump", "", true, "")
}

// outBytes returns the bytes of the slice returned as result j (nil if not a locally built slice).
func outBytes(rs *bits.RetState, j int) []bits.Vec {
	if j >= len(rs.Ret.Results) {
		return nil
	}
	v := rs.Ret.Results[j]
	root, n := sliceRootLen(v)
	if root == nil {
		return nil
	}
	var out []bits.Vec
	for k := 0; k < n; k++ {
		key := fmt.Sprintf("%s[%d]", root.Name(), k)
		if b, ok := rs.Mem[key]; ok {
			out = append(out, b)
		} else {
			out = append(out, zeroByte())
		}
	}
	return out
}

func zeroByte() bits.Vec { return make(bits.Vec, 8) }

// sliceRootLen finds the allocation behind a returned slice and its constant length.
func sliceRootLen(v ssa.Value) (ssa.Value, int) {
	for i := 0; i < 8; i++ {
		switch x := v.(type) {
		case *ssa.Slice:
			if x.Low != nil {
				return nil, 0
			}
			if x.High != nil {
				// buf[:n]: keep the root, length decided by the root
			}
			v = x.X
			continue
		case *ssa.MakeSlice:
			if n, ok := core.ConstInt(x.Len); ok {
				return x, int(n)
			}
			return nil, 0
		case *ssa.Alloc:
			if n, ok := arrayLenOf(x); ok {
				return x, n
			}
			return nil, 0
		}
		break
	}
	return nil, 0
}

func arrayLenOf(a *ssa.Alloc) (int, bool) {
	s := a.Type().String() // *[N]byte
	if !strings.HasPrefix(s, "*[") {
		return 0, false
	}
	end := strings.Index(s, "]")
	n, err := strconv.Atoi(s[2:end])
	return n, err == nil
}

// ---- specification language ------------------------------------------------------------------------

// parseSpec parses "Voice.0 Level.6-0" (MSB first) into a little-endian vector. Tokens: 0, 1,
// F.j, !F.j, F.hi-lo (a run of bits of field F), "_" (unconstrained).
type specBit struct {
	any bool
	b   bits.Bit
}

func parseSpec(s string, prefix string) ([]specBit, error) {
	var msb []specBit
	for _, tok := range strings.Fields(s) {
		switch {
		case tok == "0":
			msb = append(msb, specBit{b: bits.Bit{K: bits.Zero}})
		case tok == "1":
			msb = append(msb, specBit{b: bits.Bit{K: bits.One}})
		case tok == "_":
			msb = append(msb, specBit{any: true})
		case strings.HasPrefix(tok, "_x"):
			n, err := strconv.Atoi(tok[2:])
			if err != nil {
				return nil, err
			}
			for i := 0; i < n; i++ {
				msb = append(msb, specBit{any: true})
			}
		case strings.HasPrefix(tok, "0x"):
			n, err := strconv.Atoi(tok[2:])
			if err != nil {
				return nil, err
			}
			for i := 0; i < n; i++ {
				msb = append(msb, specBit{b: bits.Bit{K: bits.Zero}})
			}
		default:
			neg := strings.HasPrefix(tok, "!")
			tok = strings.TrimPrefix(tok, "!")
			dot := strings.LastIndex(tok, ".")
			if dot < 0 {
				return nil, fmt.Errorf("bad token %q", tok)
			}
			src, rng := prefix+tok[:dot], tok[dot+1:]
			if strings.HasPrefix(tok, "*") {
				src = "*" + prefix + tok[1:dot]
			}
			hi, lo := 0, 0
			if i := strings.Index(rng, "-"); i >= 0 {
				h, err1 := strconv.Atoi(rng[:i])
				l, err2 := strconv.Atoi(rng[i+1:])
				if err1 != nil || err2 != nil {
					return nil, fmt.Errorf("bad range %q", tok)
				}
				hi, lo = h, l
			} else {
				h, err := strconv.Atoi(rng)
				if err != nil {
					return nil, fmt.Errorf("bad bit %q", tok)
				}
				hi, lo = h, h
			}
			for j := hi; j >= lo; j-- {
				k := bits.In
				if neg {
					k = bits.Not
				}
				msb = append(msb, specBit{b: bits.Bit{K: k, Src: src, J: j}})
			}
		}
	}
	// to little-endian
	out := make([]specBit, len(msb))
	for i := range msb {
		out[len(msb)-1-i] = msb[i]
	}
	return out, nil
}

// matchSpec compares a computed vector with a spec; returns a description of the first mismatch.
func matchSpec(got bits.Vec, spec []specBit) (bool, string) {
	if len(got) != len(spec) {
		return false, fmt.Sprintf("width %d, specification has %d bits", len(got), len(spec))
	}
	for i := range spec {
		if spec[i].any {
			continue
		}
		if got[i] != spec[i].b {
			return false, fmt.Sprintf("bit %d is %s, specification says %s (computed %s)", i, got[i], spec[i].b, got)
		}
	}
	return true, ""
}

// checkVec registers one BITS obligation.
func checkVec(c *Ctx, rule, fname, what string, pos string, got bits.Vec, spec, prefix string) {
	sp, err := parseSpec(spec, prefix)
	if err != nil {
		c.R.Fatalf("bad specification for %s %s: %v", fname, what, err)
		return
	}
	ok, why := matchSpec(got, sp)
	c.R.Add(rule, fname, what+" = "+spec, pos, ok, why)
}

func sortedKeys(m map[string]string) []string {
	var ks []string
	for k := range m {
		ks = append(ks, k)
	}
	sort.Strings(ks)
	return ks
}
