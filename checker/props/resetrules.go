package props

import (
	"fmt"
	"sort"
	"strings"

	"golang.org/x/tools/go/ssa"

	"rtpcheck/core"
	"rtpcheck/reset"
)

// resetR1: every receiver-reachable field written on some path of fn is defined at every
// success return. Returns the number of fields in W.
func resetR1(c *Ctx, fn *ssa.Function, recvIdx int, exempt map[string]string) int {
	p, r := c.Prog, c.R
	res := reset.Analyze(p, fn, recvIdx)
	fname := core.FuncName(fn)
	if len(res.Returns) == 0 {
		if hs := newHelpers(fn); len(hs) > 0 {
			// the decoding goes through a new helper the must-write analysis does not follow to a success return
			r.Infof("RESET.R1 %s: not decided — no success return found; the function was restructured around new helper(s) (%s)", fname, core.FuncName(hs[0]))
			c.resetUndecided++
			return 0
		}
		r.Fatalf("%s: no success return found by RESET", fname)
		return 0
	}
	var keys []string
	for k := range res.W {
		keys = append(keys, k)
	}
	sort.Strings(keys)
	for _, k := range keys {
		w := res.W[k]
		if why, ok := exempt[k]; ok {
			r.Infof("RESET.R1 %s: %s exempt: %s", fname, k, why)
			continue
		}
		var missing []string
		for _, ri := range res.Returns {
			if !ri.D.Has(k) {
				missing = append(missing, p.Position(ri.Ret.Pos()))
			}
		}
		r.Add("RESET.R1", fname, k+" defined on every success path", p.Position(w.Pos), len(missing) == 0,
			fmt.Sprintf("written in %s but not (re)defined before the return(s) at %s: a reused receiver keeps the previous value",
				core.FuncName(w.Fn), strings.Join(missing, ", ")))
	}
	for f := range res.Funcs {
		r.FuncsSeen[core.FuncName(f)] = true
	}
	for _, n := range res.Notes {
		r.Infof("RESET note: %s", n)
	}
	return len(keys)
}
