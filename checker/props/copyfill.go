package props

import (
	"go/types"
	"sync"

	"golang.org/x/tools/go/ssa"

	"rtpcheck/bounds"
	"rtpcheck/core"
	"rtpcheck/lin"
)

// copyFillHooks: a payloader builds every fragment in a buffer it allocates for that fragment: some header
// octets stored by index, then the media octets copied behind them. The copy that writes up to the end of
// what it was given must fill the buffer exactly: copy(buf[k:], src) with len(buf) - k == len(src). A buffer
// allocated larger than what is copied (the size of a full fragment used for the last, shorter one) leaves
// zero octets behind the media data, which the depacketizer hands on as part of the unit; a buffer allocated
// smaller truncates the data silently (copy never panics).
//
// Decided at every copy whose destination is an open-ended slice (buf[k:]) of a []byte made in the same
// function and in the same loop iteration, when it is the only such copy into that buffer; destinations with an explicit upper end (a field inside an aggregation buffer) are windows, not
// tails, and are covered by the length-prefix contract.
func copyFillHooks(c *Ctx, seen *int) *bounds.Hooks {
	var mu sync.Mutex
	loopCache := map[*ssa.Function]map[*ssa.BasicBlock]string{}
	loopsOf := func(fn *ssa.Function) map[*ssa.BasicBlock]string {
		mu.Lock()
		defer mu.Unlock()
		if m, ok := loopCache[fn]; ok {
			return m
		}
		m := map[*ssa.BasicBlock]string{}
		for _, hd := range fn.Blocks {
			for _, t := range hd.Preds {
				if !hd.Dominates(t) {
					continue
				}
				body := map[*ssa.BasicBlock]bool{hd: true}
				stack := []*ssa.BasicBlock{t}
				for len(stack) > 0 {
					x := stack[len(stack)-1]
					stack = stack[:len(stack)-1]
					if body[x] {
						continue
					}
					body[x] = true
					stack = append(stack, x.Preds...)
				}
				for b := range body {
					m[b] += "|" + hd.String()
				}
			}
		}
		loopCache[fn] = m
		return m
	}
	return &bounds.Hooks{AtInstr: func(h *bounds.Helper, fn *ssa.Function, in ssa.Instruction, d *bounds.Disjunct) {
		call, ok := in.(*ssa.Call)
		if !ok || core.BuiltinName(call) != "copy" {
			return
		}
		dst, src := call.Call.Args[0], call.Call.Args[1]
		sl, ok := dst.(*ssa.Slice)
		if !ok || sl.High != nil || sl.Max != nil {
			return
		}
		mk, ok := sl.X.(*ssa.MakeSlice)
		if !ok || mk.Parent() != fn {
			return
		}
		if st, ok := mk.Type().Underlying().(*types.Slice); !ok || !types.Identical(st.Elem(), types.Typ[types.Uint8]) {
			return
		}
		// the buffer belongs to this fragment: allocated in the same iteration as the copy (a buffer made before a
		// loop that copies several units into it one after the other is an aggregation buffer with a cursor)
		if lp := loopsOf(fn); lp[mk.Block()] != lp[call.Block()] {
			return
		}
		// a buffer that receives several units one behind the other (the STAP-A built in an exactly sized buffer)
		// has more than one open-ended copy: each is a window, not the tail
		nOpen := 0
		for _, ref := range *mk.Referrers() {
			s2, ok := ref.(*ssa.Slice)
			if !ok || s2.High != nil {
				continue
			}
			for _, r2 := range *s2.Referrers() {
				if c2, ok := r2.(*ssa.Call); ok && core.BuiltinName(c2) == "copy" && c2.Call.Args[0] == ssa.Value(s2) {
					nOpen++
				}
			}
		}
		if nOpen != 1 {
			return
		}
		ld, ls := d.Len(dst), d.Len(src)
		if ld == nil || ls == nil {
			return
		}
		mu.Lock()
		*seen++
		mu.Unlock()
		q := lin.EQ(ld, ls)
		h.Oblige("the media data copied behind the fragment header fills the fragment buffer exactly", d.Entails(q...), d.Describe(q[0])+" ; "+d.Describe(q[1]))
	}}
}
