package props

import (
	"go/token"
	"sync"

	"golang.org/x/tools/go/ssa"

	"rtpcheck/bounds"
	"rtpcheck/core"
	"rtpcheck/lin"
)

// wClosedHooks: AV1 RTP 4.4 — "W: if not set to 0 the last OBU element MUST NOT be preceded by a length
// field", i.e. once W counts the elements of a packet, the element written with it is the last one of
// that packet. The payloader closes a packet in this way in two places (both OR bits of the W mask 0x30
// into the aggregation header and then append the element without a length field). After such a write
// nothing more may be added to the packet; the payloader only opens a new packet when the old one has
// no free space (or when its caller said this OBU is the last one for the packet, parameter isLast), so
// on every path that ORs W bits and is not an isLast path the packet must be exactly full afterwards:
// len(element stored back) == mtu.
func wClosedHooks(c *Ctx, seen *int) *bounds.Hooks {
	var mu sync.Mutex
	type info struct {
		wOrs   []*ssa.BinOp               // OR results that put W bits (mask 0x30) into a header byte
		loops  map[*ssa.BasicBlock]string // block -> the loop heads around it
		isLast *ssa.Parameter
		mtu    *ssa.Parameter
	}
	cache := map[*ssa.Function]*info{}
	scan := func(fn *ssa.Function) *info {
		in := &info{loops: map[*ssa.BasicBlock]string{}}
		for _, hd := range fn.Blocks {
			for _, t := range hd.Preds {
				if !hd.Dominates(t) {
					continue
				}
				body := map[*ssa.BasicBlock]bool{hd: true}
				stack := []*ssa.BasicBlock{t}
				for len(stack) > 0 {
					x := stack[len(stack)-1]
					stack = stack[:len(stack)-1]
					if body[x] {
						continue
					}
					body[x] = true
					stack = append(stack, x.Preds...)
				}
				for b := range body {
					in.loops[b] += "|" + hd.String()
				}
			}
		}
		for _, pa := range fn.Params {
			switch pa.Name() {
			case "isLast":
				in.isLast = pa
			case "mtu":
				in.mtu = pa
			}
		}
		inWMask := func(v ssa.Value) bool {
			if k, ok := core.ConstInt(v); ok {
				return k != 0 && k&^0x30 == 0
			}
			if b, ok := v.(*ssa.BinOp); ok && b.Op == token.AND {
				if k, ok := core.ConstInt(b.Y); ok && k == 0x30 {
					return true
				}
				if k, ok := core.ConstInt(b.X); ok && k == 0x30 {
					return true
				}
			}
			return false
		}
		for _, b := range fn.Blocks {
			for _, i := range b.Instrs {
				if or, ok := i.(*ssa.BinOp); ok && or.Op == token.OR && (inWMask(or.X) || inWMask(or.Y)) {
					// stored back into byte 0 of a list element
					for _, ref := range *or.Referrers() {
						if st, ok := ref.(*ssa.Store); ok && st.Val == ssa.Value(or) {
							if ia, ok := st.Addr.(*ssa.IndexAddr); ok {
								if k, isC := core.ConstInt(ia.Index); isC && k == 0 {
									in.wOrs = append(in.wOrs, or)
								}
							}
						}
					}
				}
			}
		}
		return in
	}
	return &bounds.Hooks{AtInstr: func(h *bounds.Helper, fn *ssa.Function, in ssa.Instruction, d *bounds.Disjunct) {
		st, ok := in.(*ssa.Store)
		if !ok {
			return
		}
		ia, ok := st.Addr.(*ssa.IndexAddr)
		if !ok || !isFragListType(ia.X.Type()) {
			return
		}
		mu.Lock()
		inf, ok := cache[fn]
		if !ok {
			inf = scan(fn)
			cache[fn] = inf
		}
		mu.Unlock()
		if len(inf.wOrs) == 0 || inf.mtu == nil {
			return
		}
		// the element stored is append(elem, data...): a data write (not the length field, which is followed by one)
		ap, ok := st.Val.(*ssa.Call)
		if !ok || core.BuiltinName(ap) != "append" {
			return
		}
		if next := nextAfter(st, func(x ssa.Instruction) bool {
			s2, ok := x.(*ssa.Store)
			if !ok {
				return false
			}
			ia2, ok := s2.Addr.(*ssa.IndexAddr)
			return ok && isFragListType(ia2.X.Type())
		}); next != nil && next.Block() == st.Block() {
			return // the length field: the element's data is stored by the next store of this block
		}
		onW := false
		for _, w := range inf.wOrs {
			// the header write belongs to this element: same loop nesting (values of an earlier, pre-loop write
			// stay visible on the path) and executed on this path
			if d.Has(w) && inf.loops[w.Block()] == inf.loops[st.Block()] {
				onW = true
			}
		}
		if !onW {
			return
		}
		if inf.isLast != nil && d.Entails(lin.EQ(d.Int(inf.isLast), lin.Const(1))...) {
			return // the caller starts a new packet after this OBU
		}
		mu.Lock()
		*seen++
		mu.Unlock()
		q := lin.EQ(d.Len(st.Val), d.Int(inf.mtu))
		h.Oblige("a packet closed by the W field (last element without length) is full unless the caller ends the packet", d.Entails(q...), d.Describe(q[1]))
	}}
}
