package props

import (
	"fmt"
	"go/token"

	"golang.org/x/tools/go/ssa"

	"rtpcheck/core"
)

// minFoldRule: "the aggregation header carries the lowest LayerId and, independently, the lowest TID of all
// aggregated units" (RFC 7798 4.4.2; C14). In fn and its closures, every result v of one of the named accessors
// that is obtained inside a loop and compared with a value m carried round that loop (a phi of the loop header,
// possibly through the merge phi of the previous update) is a running-minimum fold. Two necessary conditions are
// decided, both structural:
//
//	every-iteration: the block that holds the comparison dominates every back edge of the loop, so no `continue`
//	                 (nor any other path to the next unit) skips the comparison of a unit;
//	direction:       the value carried on is v exactly on the side where v is the smaller one.
//
// `m = min(m, v)` (the builtin) is accepted as a fold under the same every-iteration condition. An accessor result
// that is not compared with a loop-carried value at all is not a fold and is left alone; if no fold is found the rule
// is not decided (Infof), it never alarms on a shape it does not recognise. Returns the number of folds checked.
func minFoldRule(c *Ctx, fnName string, accessors map[string]bool, what string) int {
	p, r := c.Prog, c.R
	root := p.Func(fnName)
	if root == nil {
		missingAnchor(r, fnName)
		return 0
	}
	n := 0
	var scope []*ssa.Function
	var addFn func(f *ssa.Function)
	addFn = func(f *ssa.Function) {
		scope = append(scope, f)
		for _, a := range f.AnonFuncs {
			addFn(a)
		}
	}
	for _, f := range scopeOf(root) {
		addFn(f)
	}
	for _, fn := range scope {
		if len(fn.Blocks) == 0 {
			continue
		}
		for _, b := range fn.Blocks {
			for _, in := range b.Instrs {
				call, ok := in.(*ssa.Call)
				if !ok {
					continue
				}
				callee := call.Call.StaticCallee()
				if callee == nil || !accessors[core.FuncName(callee)] {
					continue
				}
				n += checkFoldsOf(c, fn, call, core.FuncName(callee), what)
			}
		}
	}
	return n
}

// loopHeaderOf returns the innermost loop header h (a block with a back edge from a block it dominates) whose loop
// contains b, and the sources of its back edges.
func loopHeaderOf(fn *ssa.Function, b *ssa.BasicBlock) (*ssa.BasicBlock, []*ssa.BasicBlock) {
	var best *ssa.BasicBlock
	var bestLatches []*ssa.BasicBlock
	for _, h := range fn.Blocks {
		var latches []*ssa.BasicBlock
		for _, pr := range h.Preds {
			if h.Dominates(pr) {
				latches = append(latches, pr)
			}
		}
		if len(latches) == 0 || !h.Dominates(b) {
			continue
		}
		// b is in the loop of h if b reaches a latch without leaving through h
		if !reachesAny(b, latches, h) {
			continue
		}
		if best == nil || best.Dominates(h) {
			best, bestLatches = h, latches
		}
	}
	return best, bestLatches
}

func reachesAny(from *ssa.BasicBlock, targets []*ssa.BasicBlock, stop *ssa.BasicBlock) bool {
	tg := map[*ssa.BasicBlock]bool{}
	for _, t := range targets {
		tg[t] = true
	}
	seen := map[*ssa.BasicBlock]bool{}
	var walk func(b *ssa.BasicBlock) bool
	walk = func(b *ssa.BasicBlock) bool {
		if tg[b] {
			return true
		}
		if seen[b] {
			return false
		}
		seen[b] = true
		for _, s := range b.Succs {
			if s == stop {
				continue
			}
			if walk(s) {
				return true
			}
		}
		return false
	}
	return walk(from)
}

// carriedBy reports whether m is carried round the loop of header h: a phi of h, or a phi inside the loop one of
// whose edges is such a phi (the merge after the previous conditional update).
func carriedBy(m ssa.Value, h *ssa.BasicBlock, depth int) bool {
	ph, ok := m.(*ssa.Phi)
	if !ok || depth > 4 {
		return false
	}
	if ph.Block() == h {
		return true
	}
	if !h.Dominates(ph.Block()) {
		return false
	}
	for _, e := range ph.Edges {
		if e != m && carriedBy(e, h, depth+1) {
			return true
		}
	}
	return false
}

func foldStrip(v ssa.Value) ssa.Value {
	for {
		switch x := v.(type) {
		case *ssa.ChangeType:
			v = x.X
		default:
			return v
		}
	}
}

func checkFoldsOf(c *Ctx, fn *ssa.Function, call *ssa.Call, accName, what string) int {
	p, r := c.Prog, c.R
	h, latches := loopHeaderOf(fn, call.Block())
	if h == nil {
		return 0
	}
	n := 0
	var vals []ssa.Value = []ssa.Value{call}
	// the result may be renamed by a type change before it is compared
	for _, ref := range *call.Referrers() {
		if ct, ok := ref.(*ssa.ChangeType); ok {
			vals = append(vals, ct)
		}
	}
	everyIter := func(b *ssa.BasicBlock) (bool, string) {
		for _, l := range latches {
			if !b.Dominates(l) {
				return false, fmt.Sprintf("the back edge from block %d (%s) reaches the next unit without passing the comparison in block %d", l.Index, l.Comment, b.Index)
			}
		}
		return true, ""
	}
	for _, v := range vals {
		for _, ref := range *v.Referrers() {
			switch x := ref.(type) {
			case *ssa.BinOp:
				if x.Op != token.LSS && x.Op != token.GTR && x.Op != token.LEQ && x.Op != token.GEQ {
					continue
				}
				var m ssa.Value
				vLeft := foldStrip(x.X) == v
				if vLeft {
					m = x.Y
				} else {
					m = x.X
				}
				if !carriedBy(m, h, 0) {
					continue
				}
				// the comparison must decide a branch
				var br *ssa.If
				for _, rr := range *x.Referrers() {
					if i, ok := rr.(*ssa.If); ok {
						br = i
					}
				}
				if br == nil {
					continue
				}
				n++
				ok, why := everyIter(br.Block())
				r.Add("FOLD.min", core.FuncName(fn), fmt.Sprintf("%s: the running minimum of %s is compared for every unit of the loop", what, accName),
					p.Position(x.Pos()), ok, why)
				// direction: on which successor is v the smaller one?
				vSmallerOnTrue := (vLeft && (x.Op == token.LSS || x.Op == token.LEQ)) || (!vLeft && (x.Op == token.GTR || x.Op == token.GEQ))
				takeIdx := 1
				if vSmallerOnTrue {
					takeIdx = 0
				}
				keepIdx := 1 - takeIdx
				takeSucc, keepSucc := br.Block().Succs[takeIdx], br.Block().Succs[keepIdx]
				dirOK, dirWhy, decided := foldDirection(v, m, br.Block(), takeSucc, keepSucc, h)
				if decided {
					r.Add("FOLD.min", core.FuncName(fn), fmt.Sprintf("%s: the value carried on is %s exactly where it is the smaller one", what, accName),
						p.Position(x.Pos()), dirOK, dirWhy)
				} else {
					r.Infof("FOLD.min: %s: update after the comparison at %s has a shape the direction clause does not recognise: not decided", accName, p.Position(x.Pos()))
				}
			case *ssa.Call:
				if bi, ok := x.Call.Value.(*ssa.Builtin); ok && bi.Name() == "min" {
					carried := false
					for _, a := range x.Call.Args {
						if a != v && carriedBy(a, h, 0) {
							carried = true
						}
					}
					if !carried {
						continue
					}
					n++
					ok, why := everyIter(x.Block())
					r.Add("FOLD.min", core.FuncName(fn), fmt.Sprintf("%s: the running minimum of %s is taken for every unit of the loop", what, accName),
						p.Position(x.Pos()), ok, why)
				}
			}
		}
	}
	return n
}

// foldDirection looks at the phis that merge v with the carried value m (in a join block or in the loop header
// itself): v must arrive only over edges on the take side (v smaller) and m only over edges on the keep side.
func foldDirection(v, m ssa.Value, cmpBlock, takeSucc, keepSucc, h *ssa.BasicBlock) (ok bool, why string, decided bool) {
	side := func(pred, phiBlock *ssa.BasicBlock) int { // 0 take, 1 keep, -1 unknown
		onTake := pred == cmpBlock && phiBlock == takeSucc || pred != cmpBlock && takeSucc.Dominates(pred) && len(takeSucc.Preds) == 1
		onKeep := pred == cmpBlock && phiBlock == keepSucc || pred != cmpBlock && keepSucc.Dominates(pred) && len(keepSucc.Preds) == 1
		switch {
		case onTake && !onKeep:
			return 0
		case onKeep && !onTake:
			return 1
		}
		return -1
	}
	ok = true
	for _, ref := range *v.Referrers() {
		ph, isPhi := ref.(*ssa.Phi)
		if !isPhi {
			continue
		}
		if !h.Dominates(ph.Block()) {
			continue
		}
		for i, e := range ph.Edges {
			pred := ph.Block().Preds[i]
			s := side(pred, ph.Block())
			switch {
			case e == v && s == 0:
				decided = true
			case e == v && s == 1:
				decided = true
				ok, why = false, fmt.Sprintf("block %d carries the accessor result on although it is the larger value there", pred.Index)
			case e == m && s == 0 && pred == cmpBlock:
				decided = true
				ok, why = false, fmt.Sprintf("block %d keeps the old value although the accessor result is smaller there", pred.Index)
			}
		}
	}
	return ok, why, decided
}
