package props

import (
	"strings"
	"sync"

	"golang.org/x/tools/go/ssa"

	"rtpcheck/bounds"
	"rtpcheck/core"
	"rtpcheck/lin"
)

// lenPrefixHooks: "a length prefix announces the length of what follows it" (STAP-A and H265
// aggregation unit sizes, AV1 element lengths and obu_size).
//
// A *length write* is (a) a big-endian PutUint16 whose value is len(Y) (through conversions only), or
// (b) the result of obu.WriteToLeb128(n) appended to a []byte buffer (every LEB128 inside an AV1 RTP
// payload or OBU is a size). The *data write* that belongs to it is the next bulk write into the same
// buffer in program order: for an appended length buffer the next append to a []byte on the unique
// path that follows, for a PutUint16 into a sub-slice of buf the next copy into a sub-slice of buf.
// On every path through both, the path condition must entail len(data) == the value encoded.
type lenPair struct {
	data  ssa.Instruction // the append/copy that writes the data
	src   ssa.Value       // the data slice
	n     ssa.Value       // the integer whose encoding was written as the prefix (before narrowing conversions)
	nIsLn ssa.Value       // when n is len(Y): Y (so that len(Y) can be read even if the len call is not on the path)
	via   ssa.Instruction // the length write (must have been executed on the path)
	what  string
}

func stripConv(v ssa.Value) ssa.Value {
	for {
		switch x := v.(type) {
		case *ssa.Convert:
			v = x.X
		case *ssa.ChangeType:
			v = x.X
		default:
			return v
		}
	}
}

func isByteSlice(v ssa.Value) bool {
	return strings.HasSuffix(v.Type().Underlying().String(), "[]byte") || v.Type().Underlying().String() == "[]uint8"
}

func calleeName(c *ssa.Call) string {
	if f := c.Call.StaticCallee(); f != nil {
		return f.String()
	}
	return ""
}

// nextAfter returns the first instruction satisfying pred that follows `from` in its block or, when the
// block ends in an unconditional jump, in the blocks that follow on that unique path.
func nextAfter(from ssa.Instruction, pred func(ssa.Instruction) bool) ssa.Instruction {
	b := from.Block()
	start := -1
	for i, in := range b.Instrs {
		if in == from {
			start = i + 1
		}
	}
	for hops := 0; hops < 4 && b != nil; hops++ {
		for _, in := range b.Instrs[start:] {
			if pred(in) {
				return in
			}
		}
		if len(b.Succs) != 1 {
			return nil
		}
		b = b.Succs[0]
		start = 0
	}
	return nil
}

func findLenPairs(fn *ssa.Function) []*lenPair {
	var out []*lenPair
	isAppendBytes := func(in ssa.Instruction) (*ssa.Call, bool) {
		c, ok := in.(*ssa.Call)
		if !ok || core.BuiltinName(c) != "append" || len(c.Call.Args) != 2 || !isByteSlice(c.Call.Args[0]) {
			return nil, false
		}
		return c, true
	}
	lenOf := func(v ssa.Value) (ssa.Value, bool) { // v == len(Y) through conversions
		if c, ok := stripConv(v).(*ssa.Call); ok && core.BuiltinName(c) == "len" && len(c.Call.Args) == 1 {
			return c.Call.Args[0], true
		}
		return nil, false
	}
	for _, b := range fn.Blocks {
		for _, in := range b.Instrs {
			c, ok := in.(*ssa.Call)
			if !ok {
				continue
			}
			// (b) append(buf, WriteToLeb128(n)...)  and  (a1) append(buf, L...) with PutUint16(L, len(Y))
			if ap, ok := isAppendBytes(c); ok {
				var n, y ssa.Value
				var via ssa.Instruction = ap
				what := ""
				switch l := ap.Call.Args[1].(type) {
				case *ssa.Call:
					if strings.HasSuffix(calleeName(l), "obu.WriteToLeb128") && len(l.Call.Args) == 1 {
						n = stripConv(l.Call.Args[0])
						what = "LEB128 length"
					}
				case *ssa.MakeSlice, *ssa.Slice: // make([]byte, 2) is a MakeSlice, or a Slice of a fresh [2]byte
					lv := l.(ssa.Value)
					for _, ref := range *lv.Referrers() {
						pc, ok := ref.(*ssa.Call)
						if !ok || !strings.HasSuffix(calleeName(pc), "bigEndian).PutUint16") || len(pc.Call.Args) != 3 || pc.Call.Args[1] != lv {
							continue
						}
						if yy, ok := lenOf(pc.Call.Args[2]); ok {
							n, y = stripConv(pc.Call.Args[2]), yy
							what = "16-bit length"
						}
					}
				}
				if n == nil {
					continue
				}
				if yy, ok := lenOf(n); ok {
					y = yy
				}
				next := nextAfter(ap, func(x ssa.Instruction) bool { _, ok := isAppendBytes(x); return ok })
				if next == nil {
					continue
				}
				out = append(out, &lenPair{data: next, src: next.(*ssa.Call).Call.Args[1], n: n, nIsLn: y, via: via, what: what})
				continue
			}
			// (a3) buf = binary.BigEndian.AppendUint16(buf, len(Y)) followed by append(buf, X...)
			if strings.HasSuffix(calleeName(c), "bigEndian).AppendUint16") && len(c.Call.Args) == 3 {
				if y, ok := lenOf(c.Call.Args[2]); ok {
					next := nextAfter(c, func(x ssa.Instruction) bool { _, ok := isAppendBytes(x); return ok })
					if next != nil {
						out = append(out, &lenPair{data: next, src: next.(*ssa.Call).Call.Args[1], n: stripConv(c.Call.Args[2]), nIsLn: y, via: c, what: "16-bit length"})
					}
				}
				continue
			}
			// (a2) PutUint16(buf[i:i+2], len(Y)) followed by copy(buf[j:], X)
			if strings.HasSuffix(calleeName(c), "bigEndian).PutUint16") && len(c.Call.Args) == 3 {
				y, ok := lenOf(c.Call.Args[2])
				if !ok {
					continue
				}
				dst, ok := c.Call.Args[1].(*ssa.Slice)
				if !ok {
					continue
				}
				next := nextAfter(c, func(x ssa.Instruction) bool {
					cc, ok := x.(*ssa.Call)
					if !ok || core.BuiltinName(cc) != "copy" || len(cc.Call.Args) != 2 {
						return false
					}
					d2, ok := cc.Call.Args[0].(*ssa.Slice)
					return ok && d2.X == dst.X
				})
				if next == nil {
					continue
				}
				out = append(out, &lenPair{data: next, src: next.(*ssa.Call).Call.Args[1], n: stripConv(c.Call.Args[2]), nIsLn: y, via: c, what: "16-bit length"})
			}
		}
	}
	return out
}

// lenPrefixHooks registers one CTR obligation per pair; seen counts the pairs that were reached.
func lenPrefixHooks(c *Ctx, seen map[ssa.Instruction]bool) *bounds.Hooks {
	cache := map[*ssa.Function][]*lenPair{}
	var mu sync.Mutex
	return &bounds.Hooks{AtInstr: func(h *bounds.Helper, fn *ssa.Function, in ssa.Instruction, d *bounds.Disjunct) {
		if _, ok := in.(*ssa.Call); !ok {
			return
		}
		mu.Lock()
		pairs, ok := cache[fn]
		if !ok {
			pairs = findLenPairs(fn)
			cache[fn] = pairs
		}
		mu.Unlock()
		for _, lp := range pairs {
			if lp.data != in {
				continue
			}
			if v, ok := lp.via.(ssa.Value); ok && !d.Has(v) {
				continue // this path did not write the length (the other arm of a branch)
			}
			mu.Lock()
			seen[lp.data] = true
			mu.Unlock()
			ln := d.Len(lp.src)
			var n *lin.Lin
			if lp.nIsLn != nil {
				n = d.Len(lp.nIsLn)
			} else if d.Has(lp.n) {
				n = d.Int(lp.n)
			}
			text := "the " + lp.what + " written before this data equals its length"
			if ln == nil || n == nil || ln.Bad() || n.Bad() {
				h.Oblige(text, false, "length of the data or the encoded value is not tracked here")
				continue
			}
			q := lin.EQ(ln, n)
			h.Oblige(text, d.Entails(q...), d.Describe(q[0]))
		}
	}}
}
