package props

import (
	"fmt"
	"go/token"
	"sort"

	"golang.org/x/tools/go/ssa"

	"rtpcheck/core"
)

// SIBLING.vlasize — the size pass of the VLA encoder reserves what the layout of the specification needs.
//
// VLA.Marshal writes into a buffer of exactly ctx.requiredLen octets, which analyzeVLAForMarshaling computes
// in parts: the header octet with the per-stream bitmasks, the #tl octets, the LEB128 bitrates, the
// resolution blocks. Whether the two passes agree octet for octet is a sum over two loop nests and is not
// decided (the write obligations of Marshal are listed as assumed for that reason). What is decided here is
// the arithmetic of the parts that depend only on the stream count c (1..4) and on the number n of active
// layers (0..16), by evaluating the expression stored into requiredLen for every such c and n:
//   - an absolute store (requiredLen = e): over all absolute stores the largest value is at least
//     1 + ceil(c/2) — the header octet and one nibble per stream when the streams do not share a bitmask;
//   - an increment (requiredLen += g) whose g depends on n alone is at least max(1, ceil(n/4)) for every n
//     (two bits per layer, and Marshal always advances past one #tl octet), or at least 5n (the resolution
//     and frame-rate block).
// Increments that depend on other values (the LEB128 sizes) are not looked at.
func vlaSizeRule(c *Ctx) int {
	p, r := c.Prog, c.R
	var names []string
	for n := range p.Funcs {
		names = append(names, n)
	}
	sort.Strings(names)
	type env struct {
		c, n int64
		prev *int64
	}
	var eval func(v ssa.Value, e env, depth int) (int64, bool, bool) // value, ok, usesPrev
	isField := func(v ssa.Value, name string) bool {
		v = core.StripConv(v)
		if loadedField(v) == name {
			return true
		}
		if fv, ok := v.(*ssa.Field); ok && core.FieldOfValue(fv) == name {
			return true
		}
		return false
	}
	eval = func(v ssa.Value, e env, depth int) (int64, bool, bool) {
		if depth > 12 {
			return 0, false, false
		}
		if k, ok := core.ConstInt(v); ok {
			return k, true, false
		}
		switch x := v.(type) {
		case *ssa.Convert:
			return eval(x.X, e, depth+1)
		case *ssa.UnOp:
			if isField(x, "RTPStreamCount") {
				return e.c, true, false
			}
			if isField(x, "requiredLen") {
				if e.prev == nil {
					return 0, false, true
				}
				return *e.prev, true, true
			}
		case *ssa.Field:
			if isField(x, "RTPStreamCount") {
				return e.c, true, false
			}
		case *ssa.Call:
			if core.BuiltinName(x) == "len" && len(x.Call.Args) == 1 && isField(x.Call.Args[0], "ActiveSpatialLayer") {
				return e.n, true, false
			}
		case *ssa.BinOp:
			a, okA, pa := eval(x.X, e, depth+1)
			b, okB, pb := eval(x.Y, e, depth+1)
			if !okA || !okB {
				return 0, false, pa || pb
			}
			switch x.Op {
			case token.ADD:
				return a + b, true, pa || pb
			case token.SUB:
				return a - b, true, pa || pb
			case token.MUL:
				return a * b, true, pa || pb
			case token.QUO:
				if b == 0 {
					return 0, false, pa || pb
				}
				return a / b, true, pa || pb // Go's truncating division, as in the code
			case token.REM:
				if b == 0 {
					return 0, false, pa || pb
				}
				return a % b, true, pa || pb
			case token.SHR:
				if b < 0 || b > 62 {
					return 0, false, pa || pb
				}
				return a >> uint(b), true, pa || pb
			case token.SHL:
				if b < 0 || b > 30 {
					return 0, false, pa || pb
				}
				return a << uint(b), true, pa || pb
			}
		}
		return 0, false, false
	}
	n := 0
	for _, nm := range names {
		fn := p.Funcs[nm]
		if fn == nil || len(fn.Blocks) == 0 || !containsStr(p.Position(fn.Pos()), "vlaextension.go") {
			continue
		}
		var abs, incs []*ssa.Store
		for _, b := range fn.Blocks {
			for _, in := range b.Instrs {
				st, ok := in.(*ssa.Store)
				if !ok {
					continue
				}
				fa, ok := st.Addr.(*ssa.FieldAddr)
				if !ok || core.FieldName(fa) != "requiredLen" {
					continue
				}
				zero := int64(0)
				if _, ok, usesPrev := eval(st.Val, env{c: 1, n: 1, prev: &zero}, 0); ok {
					if usesPrev {
						incs = append(incs, st)
					} else {
						abs = append(abs, st)
					}
				}
			}
		}
		if len(abs) > 0 {
			bad := ""
			for cnt := int64(1); cnt <= 4 && bad == ""; cnt++ {
				best := int64(-1 << 62)
				for _, st := range abs {
					if v, ok, _ := eval(st.Val, env{c: cnt, n: 1}, 0); ok && v > best {
						best = v
					}
				}
				if need := 1 + (cnt+1)/2; best < need {
					bad = fmt.Sprintf("with %d stream(s) that do not share a bitmask the largest size the first part is given is %d octet(s); the header octet and the %d bitmask octet(s) need %d", cnt, best, (cnt+1)/2, need)
				}
			}
			n++
			r.Add("SIBLING.vlasize", core.FuncName(fn), "the first part is sized for the header octet and one bitmask nibble per stream", p.Position(abs[0].Pos()), bad == "", bad)
		}
		for _, st := range incs {
			// g(n) = value with prev = 0; must not depend on c
			dependsOnC := false
			g := func(nn int64) (int64, bool) {
				zero := int64(0)
				v1, ok1, _ := eval(st.Val, env{c: 1, n: nn, prev: &zero}, 0)
				v4, ok4, _ := eval(st.Val, env{c: 4, n: nn, prev: &zero}, 0)
				if ok1 && ok4 && v1 != v4 {
					dependsOnC = true
				}
				return v1, ok1 && ok4
			}
			okTL, okRes, bad := true, true, ""
			for nn := int64(0); nn <= 16; nn++ {
				v, ok := g(nn)
				if !ok {
					okTL, okRes = false, false
					break
				}
				need := (nn + 3) / 4
				if need < 1 {
					need = 1
				}
				if v < need {
					okTL = false
					if bad == "" {
						bad = fmt.Sprintf("for %d active layer(s) the part grows by %d octet(s); the #tl field needs %d (and the resolution block %d)", nn, v, need, 5*nn)
					}
				}
				if v < 5*nn {
					okRes = false
				}
			}
			if dependsOnC {
				continue
			}
			n++
			r.Add("SIBLING.vlasize", core.FuncName(fn), "a part sized from the number of active layers covers the #tl field (two bits per layer, at least one octet) or the resolution block (5 octets per layer)", p.Position(st.Pos()), okTL || okRes, bad)
		}
	}
	return n
}
