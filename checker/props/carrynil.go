package props

import (
	"go/types"
	"sync"

	"golang.org/x/tools/go/ssa"

	"rtpcheck/bounds"
	"rtpcheck/lin"
)

// carryNilHooks: a pointer that a loop carries from one unit to the next as "the layer of the current packet"
// (AV1 RTP 5: OBUs whose extension headers carry different temporal or spatial ids never share a packet) may
// only be replaced by a header that is known to be present, or reset to nil where a new packet starts; a unit
// without an extension header must leave it as it is. On every path around the loop the value handed to the
// next iteration is therefore nil, known non-nil, or exactly the value the iteration started with — never a
// "maybe nil" one, which would forget the packet's layer whenever an OBU without extension header comes by.
// The rule is applied to loop-carried pointers of a payloader's Payload whose update reads a field of the
// same pointer type.
func carryNilHooks(c *Ctx, fnName string, seen *int) *bounds.Hooks {
	fn := c.Prog.Func(fnName)
	if fn == nil {
		return nil
	}
	// update sources: follow the phi chain from the back-edge values; every non-phi value that is neither the
	// loop's own phi (kept) nor the nil constant (reset) is a replacement; it enters the chain on the edge
	// from block `from`
	type source struct {
		phi  *ssa.Phi // the loop-carried variable
		val  ssa.Value
		from *ssa.BasicBlock
	}
	var sources []source
	for _, b := range fn.Blocks {
		for _, in := range b.Instrs {
			head, ok := in.(*ssa.Phi)
			if !ok {
				break
			}
			if _, isPtr := head.Type().Underlying().(*types.Pointer); !isPtr {
				continue
			}
			seenPhi := map[*ssa.Phi]bool{head: true}
			var walk func(v ssa.Value, from *ssa.BasicBlock)
			walk = func(v ssa.Value, from *ssa.BasicBlock) {
				switch x := v.(type) {
				case *ssa.Const:
					return
				case *ssa.Phi:
					if x == head || seenPhi[x] {
						return
					}
					seenPhi[x] = true
					for i, pr := range x.Block().Preds {
						walk(x.Edges[i], pr)
					}
					return
				}
				sources = append(sources, source{phi: head, val: v, from: from})
			}
			for i, pr := range b.Preds {
				if b.Dominates(pr) { // back edge
					walk(head.Edges[i], pr)
				}
			}
		}
	}
	if len(sources) == 0 {
		return nil
	}
	var mu sync.Mutex
	return &bounds.Hooks{AtInstr: func(h *bounds.Helper, f *ssa.Function, in ssa.Instruction, d *bounds.Disjunct) {
		if f != fn || h.Depth() != 0 {
			return
		}
		switch in.(type) {
		case *ssa.Jump, *ssa.If:
		default:
			return
		}
		for _, src := range sources {
			if src.from != in.Block() || !d.Has(src.val) {
				continue
			}
			nl := d.NilLin(src.val)
			mu.Lock()
			*seen++
			mu.Unlock()
			ok := nl != nil && d.Entails(lin.EQ(nl, lin.Const(0))...)
			h.ObligeAt(src.phi, "the layer remembered for the current packet is kept, reset, or replaced by a header that is present", ok,
				"the remembered extension header is replaced by one that may be nil: a unit without extension header forgets the packet's layer")
		}
	}}
}
