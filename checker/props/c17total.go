package props

import (
	"golang.org/x/tools/go/ssa"

	"rtpcheck/bounds"
	"rtpcheck/core"
	"rtpcheck/lin"
)

// c17Hooks: the two clauses of "bit-exact and total" that the bit tables do not carry.
//
//	CTR.total   Marshal fails only for out-of-range values: on every path to a non-nil error the path
//	            condition contradicts the codec's range table (AudioLevel: Level <= 127; PlayoutDelay:
//	            MinDelay, MaxDelay <= 4095; the other codecs have no failing input). A guard that compares the
//	            wrong operands rejects values the specification can encode.
//	CTR.size    a successful Marshal returns exactly the codec's wire size: 1, 2, 3, 3 octets, and for
//	            abs-capture-time 8 octets plus 8 exactly when the clock offset is present.
func c17Hooks(c *Ctx, seen *int) *bounds.Hooks {
	type spec struct {
		size   int64
		ranges map[string]int64 // field -> largest encodable value
		optPtr string           // pointer field whose presence adds 8 octets
	}
	specs := map[string]spec{
		"AudioLevelExtension":     {size: 1, ranges: map[string]int64{"Level": 127}},
		"TransportCCExtension":    {size: 2},
		"PlayoutDelayExtension":   {size: 3, ranges: map[string]int64{"MinDelay": 4095, "MaxDelay": 4095}},
		"AbsSendTimeExtension":    {size: 3},
		"AbsCaptureTimeExtension": {size: 8, optPtr: "EstimatedCaptureClockOffset"},
	}
	// reads of a receiver field in fn (value receiver: Field instructions on the parameter, or loads through the
	// address of the spilled copy)
	fieldReads := func(fn *ssa.Function, name string) []ssa.Value {
		var out []ssa.Value
		for _, b := range fn.Blocks {
			for _, in := range b.Instrs {
				switch x := in.(type) {
				case *ssa.Field:
					if core.FieldOfValue(x) == name {
						out = append(out, x)
					}
				case *ssa.UnOp:
					if loadedField(x) == name {
						out = append(out, x)
					}
				}
			}
		}
		return out
	}
	return &bounds.Hooks{AtReturn: func(h *bounds.Helper, fn *ssa.Function, ret *ssa.Return, d *bounds.Disjunct) {
		if fn.Name() != "Marshal" || len(ret.Results) != 2 || fn.Signature.Recv() == nil {
			return
		}
		tn := core.RecvTypeName(fn)
		sp, ok := specs[tn]
		if !ok {
			return
		}
		isNil, known := d.IsNilKnown(ret.Results[1])
		if !known {
			return
		}
		*seen++
		if !isNil {
			var inRange []lin.Ineq
			for f, max := range sp.ranges {
				for _, rd := range fieldReads(fn, f) {
					if d.Has(rd) {
						inRange = append(inRange, lin.LE(d.Int(rd), lin.Const(max)))
					}
				}
			}
			h.Oblige("Marshal fails only for values outside the codec's range", !d.Satisfiable(inRange...),
				"this error return is reachable with every field inside its encodable range")
			return
		}
		want := lin.Const(sp.size)
		if sp.optPtr != "" {
			var nl *lin.Lin
			for _, rd := range fieldReads(fn, sp.optPtr) {
				if d.Has(rd) {
					nl = d.NilLin(rd)
				}
			}
			if nl == nil {
				h.Oblige("a successful Marshal returns the codec's wire size", false, "presence of "+sp.optPtr+" not tracked on this path")
				return
			}
			want = lin.Const(sp.size + 8).Sub(nl.Scale(8)) // 16 when present (isnil = 0), 8 when absent
		}
		q := lin.EQ(d.Len(ret.Results[0]), want)
		h.Oblige("a successful Marshal returns the codec's wire size", d.Entails(q...), d.Describe(q[0])+" ; "+d.Describe(q[1]))
	}}
}
