package props

import (
	"fmt"

	"golang.org/x/tools/go/ssa"

	"rtpcheck/bounds"
	"rtpcheck/core"
	"rtpcheck/lin"
)

// BOUNDS.script — the number of bits `HeaderColorConfig.unmarshal` consumes, per path, equals the
// VP9 bitstream syntax of color_config() (VP9 spec 6.2.2): [bit_depth flag if profile >= 2] +
// color_space(3) + { color_space != sRGB: color_range(1) + [profile 1 or 3: subsampling_x,
// subsampling_y, reserved_zero (3)] ; sRGB: [profile 1 or 3: reserved_zero (1)] }.
// The path-sensitive interpreter gives, for each accepting path condition, the final value of the
// bit cursor *pos as "initial value + k" and decides the three predicates the syntax branches on
// (profile >= 2, profile in {1,3}, color space == 7) by entailment; k must be the sum above. A
// dropped `*pos++` for a reserved bit shifts every later field of the frame header (width and height
// of the scalability structure) by one bit without making any access unsafe.
func colorConfigScript(c *Ctx) int {
	p, r := c.Prog, c.R
	name := "codecs/vp9.(*HeaderColorConfig).unmarshal"
	fn := p.Func(name)
	if fn == nil {
		missingAnchor(r, name)
		return 0
	}
	if len(fn.Params) != 4 {
		r.Infof("BOUNDS.script: %s has an unexpected signature; not decided", name)
		return 0
	}
	recv, profile, pos := fn.Params[0], fn.Params[1], fn.Params[3]
	var l0 *lin.Lin
	decided, undecided := 0, 0
	bad := ""
	hooks := &bounds.Hooks{
		AtInstr: func(h *bounds.Helper, f *ssa.Function, in ssa.Instruction, d *bounds.Disjunct) {
			// the cell of *pos is materialised by its first load (in a callee); the value seen right
			// after that load, before any store, is the initial value of the cursor
			if l0 == nil {
				if v := d.EntryMemInt(pos, ""); v != nil {
					if _, isVar := v.SingleVar(); isVar {
						l0 = v
					}
				}
			}
		},
		AtReturn: func(h *bounds.Helper, f *ssa.Function, ret *ssa.Return, d *bounds.Disjunct) {
			if f != fn || len(ret.Results) != 1 || l0 == nil {
				return
			}
			if !core.IsNilConst(ret.Results[0]) {
				if isNil, known := d.IsNilKnown(ret.Results[0]); !known || !isNil {
					return
				}
			}
			lf := d.MemInt(pos, "")
			if lf == nil {
				undecided++
				return
			}
			prof := d.Int(profile)
			cs := d.MemInt(recv, ".ColorSpace")
			if prof == nil || cs == nil {
				undecided++
				return
			}
			// the cursor may be a merged value: its distance from the initial value is decided by entailment
			k, isConst := int64(-1), false
			for cand := int64(0); cand <= 16; cand++ {
				if d.Entails(lin.EQ(lf, l0.AddConst(cand))...) {
					k, isConst = cand, true
					break
				}
			}
			if !isConst {
				undecided++
				return
			}
			tri := func(yes, no bool) (bool, bool) { return yes, yes || no }
			ge2, okA := tri(d.Entails(lin.GE(prof, lin.Const(2))), d.Entails(lin.LE(prof, lin.Const(1))))
			odd, okB := tri(d.Entails(lin.EQ(prof, lin.Const(1))...) || d.Entails(lin.EQ(prof, lin.Const(3))...),
				!d.Satisfiable(lin.EQ(prof, lin.Const(1))...) && !d.Satisfiable(lin.EQ(prof, lin.Const(3))...))
			srgb, okC := tri(d.Entails(lin.EQ(cs, lin.Const(7))...), !d.Satisfiable(lin.EQ(cs, lin.Const(7))...))
			if !okA || !okB || !okC {
				undecided++
				return
			}
			want := int64(3)
			if ge2 {
				want++
			}
			if srgb {
				if odd {
					want++
				}
			} else {
				want++
				if odd {
					want += 3
				}
			}
			decided++
			if k != want && bad == "" {
				bad = fmt.Sprintf("on the path with profile>=2:%v profile in {1,3}:%v sRGB:%v the parser consumes %d bits, color_config() has %d", ge2, odd, srgb, k, want)
			}
		}}
	eng := bounds.New(p, bounds.Config{K: 64, MaxDepth: 7, RetCap: 8}, hooks)
	eng.AnalyzeEntry(fn)
	r.Infof("BOUNDS.script %s: %d accepting path conditions decided, %d not decided", name, decided, undecided)
	if decided == 0 {
		r.Infof("BOUNDS.script: no accepting path of %s could be classified; rule not decided", name)
		return 0
	}
	r.Add("BOUNDS.script", name, "bits consumed per path = VP9 color_config() syntax", p.Position(fn.Pos()), bad == "", bad)
	return 1
}
