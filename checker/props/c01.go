package props

import (
	"fmt"
	"go/constant"
	"go/token"
	"regexp"
	"strings"
	"sync"

	"golang.org/x/tools/go/ssa"

	"rtpcheck/bits"
	"rtpcheck/bounds"
	"rtpcheck/core"
	"rtpcheck/lin"
)

func init() {
	Registry["C01"] = c01
	Registry["C03"] = c03
	structC04 = c04Struct
	structC05 = c05Struct
}

// the well-formed-packet domain of C01: version 0-3, at most 15 CSRCs, payload type 0-127
func wellFormedHeaderBits() []string {
	var z []string
	for j := 2; j < 8; j++ {
		z = append(z, fmt.Sprintf("recv.Version.%d", j))
	}
	z = append(z, "recv.PayloadType.7")
	for j := 4; j < 64; j++ {
		z = append(z, fmt.Sprintf("len(recv.CSRC).%d", j))
	}
	return z
}

// fixedHeaderRules: RFC 3550 5.1 table, writer and reader.
func fixedHeaderRules(c *Ctx) int {
	p, r := c.Prog, c.R
	n := 0
	w := p.Func("rtp.(Header).MarshalTo")
	rd := p.Func("rtp.(*Header).Unmarshal")
	if w == nil || rd == nil {
		r.Fatalf("fixed header anchors missing")
		return 0
	}
	wm := bits.RunAssuming(p, w, wellFormedHeaderBits())
	table := []string{
		"recv.Version.1-0 recv.Padding.0 recv.Extension.0 len(recv.CSRC).3-0",
		"recv.Marker.0 recv.PayloadType.6-0",
		"recv.SequenceNumber.15-8", "recv.SequenceNumber.7-0",
		"recv.Timestamp.31-24", "recv.Timestamp.23-16", "recv.Timestamp.15-8", "recv.Timestamp.7-0",
		"recv.SSRC.31-24", "recv.SSRC.23-16", "recv.SSRC.15-8", "recv.SSRC.7-0",
	}
	nSucc := 0
	for _, rs := range wm.Returns {
		if !successReturn(rs) {
			continue
		}
		nSucc++
		for k, row := range table {
			got, has := rs.Mem[fmt.Sprintf("buf[%d]", k)]
			n++
			if !has {
				r.Add("BITS.L1", core.FuncName(w), fmt.Sprintf("header byte %d = %s", k, row), p.Position(rs.Ret.Pos()), false, "byte is not written on this path")
				continue
			}
			checkVec(c, "BITS.L1", core.FuncName(w), fmt.Sprintf("header byte %d", k), p.Position(rs.Ret.Pos()), got, row, "")
		}
	}
	if nSucc == 0 {
		r.Fatalf("Header.MarshalTo: no success return")
	}
	rm := bits.Run(p, rd)
	fields := map[string]string{
		"Version": "0x6 buf[0].7-6", "Padding": "buf[0].5", "Extension": "buf[0].4", "Marker": "buf[1].7", "PayloadType": "0 buf[1].6-0",
		"SequenceNumber": "buf[2].7-0 buf[3].7-0",
		"Timestamp":      "buf[4].7-0 buf[5].7-0 buf[6].7-0 buf[7].7-0",
		"SSRC":           "buf[8].7-0 buf[9].7-0 buf[10].7-0 buf[11].7-0",
	}
	nSucc = 0
	for _, rs := range rm.Returns {
		if !successReturn(rs) {
			continue
		}
		nSucc++
		for _, f := range sortedKeys(fields) {
			got, has := rs.Mem["recv."+f]
			n++
			if !has {
				r.Add("BITS.L2", core.FuncName(rd), "field "+f+" = "+fields[f], p.Position(rs.Ret.Pos()), false, "field is not written on this success path")
				continue
			}
			checkVec(c, "BITS.L2", core.FuncName(rd), "field "+f, p.Position(rs.Ret.Pos()), got, fields[f], "")
		}
	}
	if nSucc == 0 {
		r.Fatalf("Header.Unmarshal: no success return")
	}
	n++
	r.Add("BITS.L2", core.FuncName(rd), "CSRC count = buf[0] bits 3..0", p.Position(rd.Pos()), hasValue(rm, "0x60 buf[0].3-0"), "no value is int(buf[0] & 0x0F)")
	pb := newPosBind()
	n += readerField(c, "BITS.L2", rm, core.FuncName(rd), "ExtensionProfile", []string{"$b[@c].7-0 $b[@c+1].7-0"}, pb)
	n++
	r.Add("BITS.L2", core.FuncName(rd), "extension length = big-endian 16 bit right after the profile", p.Position(rd.Pos()), hasValue(rm, "0x48 $b[@c].7-0 $b[@c+1].7-0") || hasValue(rm, "$b[@c].7-0 $b[@c+1].7-0"), "no 16-bit big-endian length read")
	return n
}

// element header forms (RFC 8285 4.2/4.3), writer and reader agree structurally
func elementHeaderRules(c *Ctx) int {
	p := c.Prog
	n := 0
	w := p.Func("rtp.(Header).MarshalTo")
	rd := p.Func("rtp.(*Header).Unmarshal")
	rm := bits.Run(p, rd)
	name := core.FuncName(rd)
	n++
	addOrUndecided(c, "BITS.elem", name, "one-byte form: id = header byte bits 7..4", p.Position(rd.Pos()), hasValue(rm, "0x4 $b[@c].7-4"), "no value is buf[n] >> 4", rd)
	// len = (byte & 0x0F) + 1
	okLen := false
	var rdBlocks []*ssa.BasicBlock
	for _, f := range scopeOf(rd) {
		rdBlocks = append(rdBlocks, f.Blocks...)
	}
	for _, b := range rdBlocks {
		for _, in := range b.Instrs {
			if add, ok := in.(*ssa.BinOp); ok && add.Op == token.ADD {
				if k, isC := core.ConstInt(add.Y); isC && k == 1 {
					if vecMatches(rm.ValueOf(add.X), "0x4 $b[@c].3-0") {
						okLen = true
					}
				}
			}
		}
	}
	n++
	addOrUndecided(c, "BITS.elem", name, "one-byte form: length = (header byte bits 3..0) + 1", p.Position(rd.Pos()), okLen, "no value is (buf[n] & 0x0F) + 1", rd)
	// writer: id<<4 | (len-1)
	okW := false
	var wBlocks []*ssa.BasicBlock
	for _, f := range scopeOf(w) {
		wBlocks = append(wBlocks, f.Blocks...)
	}
	for _, b := range wBlocks {
		for _, in := range b.Instrs {
			st, ok := in.(*ssa.Store)
			if !ok {
				continue
			}
			or, ok := st.Val.(*ssa.BinOp)
			if !ok || or.Op != token.OR {
				continue
			}
			shl, ok1 := or.X.(*ssa.BinOp)
			sub, ok2 := or.Y.(*ssa.BinOp)
			if ok1 && ok2 && shl.Op == token.SHL && sub.Op == token.SUB {
				k1, c1 := core.ConstInt(shl.Y)
				k2, c2 := core.ConstInt(sub.Y)
				if c1 && c2 && k1 == 4 && k2 == 1 {
					// the minuend is the value length itself (a length masked to the nibble *before*
					// the subtraction turns 16 into 0xFF, i.e. the reserved id 15)
					if lc, isCall := core.StripConv(sub.X).(*ssa.Call); isCall && core.BuiltinName(lc) == "len" {
						okW = true
					}
				}
			}
		}
	}
	n++
	addOrUndecided(c, "BITS.elem", core.FuncName(w), "one-byte form: header byte = id<<4 | (len-1)", p.Position(w.Pos()), okW, "no store of id<<4 | (uint8(len(value))-1)", w)
	return n
}

// walker features of an RFC 8285 one-byte block walk
type walkFeatures struct {
	paddingSkip  bool    // a zero byte advances the cursor by one and continues the walk
	reservedStop bool    // id 15 stops the walk
	idShift      bool    // id = byte >> 4
	lenPlusOne   bool    // len = (byte & 0x0F) + 1
	byteStops    []int64 // non-zero constants a whole element-header byte is compared with on a branch that leaves the walk
}

func (w walkFeatures) String() string {
	return fmt.Sprintf("{padding-skip:%v reserved-id-stop:%v id=byte>>4:%v len=(byte&15)+1:%v}", w.paddingSkip, w.reservedStop, w.idShift, w.lenPlusOne)
}

// walkerFeatures of fn and of the new helpers it was split into (each analysed as a function of its own
// buffer parameter; a feature found in any of them counts).
func walkerFeatures(c *Ctx, fn *ssa.Function) walkFeatures {
	f := walkerFeatures1(c, fn)
	for _, h := range newHelpers(fn) {
		g := walkerFeatures1(c, h)
		f.paddingSkip = f.paddingSkip || g.paddingSkip
		f.reservedStop = f.reservedStop || g.reservedStop
		f.idShift = f.idShift || g.idShift
		f.lenPlusOne = f.lenPlusOne || g.lenPlusOne
		f.byteStops = append(f.byteStops, g.byteStops...)
	}
	return f
}

func walkerFeatures1(c *Ctx, fn *ssa.Function) walkFeatures {
	m := bits.Run(c.Prog, fn)
	var f walkFeatures
	f.idShift = hasValue(m, "0x4 $b[@c].7-4")
	for _, b := range fn.Blocks {
		for _, in := range b.Instrs {
			if add, ok := in.(*ssa.BinOp); ok && add.Op == token.ADD {
				if k, isC := core.ConstInt(add.Y); isC && k == 1 && vecMatches(m.ValueOf(add.X), "0x4 $b[@c].3-0") {
					f.lenPlusOne = true
				}
			}
		}
		if len(b.Instrs) == 0 || !inAnyLoop(b) {
			continue
		}
		iff, ok := b.Instrs[len(b.Instrs)-1].(*ssa.If)
		if !ok {
			continue
		}
		cmp, ok := iff.Cond.(*ssa.BinOp)
		if !ok || cmp.Op != token.EQL {
			continue
		}
		k, isC := core.ConstInt(cmp.Y)
		if !isC {
			continue
		}
		xv := m.ValueOf(cmp.X)
		switch {
		case k == 0 && vecMatches(xv, "$b[@c].7-0"):
			// true successor must stay in the loop (continue), not leave it
			t := b.Succs[0]
			if inAnyLoop(t) && core.Reachable(t)[b] {
				f.paddingSkip = true
			}
		case k == 15 && vecMatches(xv, "0x4 $b[@c].7-4"):
			t := b.Succs[0]
			if !core.Reachable(t)[b] || !inAnyLoop(t) {
				f.reservedStop = true
			}
		case k != 0 && vecMatches(xv, "$b[@c].7-0"):
			t := b.Succs[0]
			if !core.Reachable(t)[b] || !inAnyLoop(t) {
				f.byteStops = append(f.byteStops, k)
			}
		}
	}
	return f
}

// C01 — RTP packet encode/decode round trip is lossless.
func c01(c *Ctx) {
	p, r := c.Prog, c.R
	r.Explain = "BITS: the fixed header written by Header.MarshalTo and read by Header.Unmarshal equal the RFC 3550 5.1 table " +
		"bit for bit on the well-formed domain (so they are mutually inverse there); one-byte element header forms agree; " +
		"SIBLING: MarshalSize and MarshalTo add the same per-element and rounding terms; BOUNDS contract: on every success " +
		"return of Header.Unmarshal with an extension block the header length is the block end. Equality of payload and " +
		"extension bytes after the trip is not decided. CTR.extlen: on every success path of Header.MarshalTo the 16-bit extension length field holds (header length - block start)/4."
	n := fixedHeaderRules(c)
	n += elementHeaderRules(c)
	n += sizeSibling(c)
	n += profileDispatch(c)
	r.Floor("C01 layout/sibling rows", n, 28)
	hu := p.Func("rtp.(*Header).Unmarshal")
	pu := p.Func("rtp.(*Packet).Unmarshal")
	c.wrapScope = map[string]bool{"rtp.(*Header).Unmarshal": true, "rtp.(*Packet).Unmarshal": true}
	boundsRun(c, []*ssa.Function{hu, pu}, headerContracts(c, false))
	// writer side: the extension length field (RFC 3550 5.3.1)
	if mt := p.Func("rtp.(Header).MarshalTo"); mt != nil {
		decided := 0
		if hk := extLenHooks(c, mt, &decided); hk != nil {
			boundsRun(c, []*ssa.Function{mt}, hk)
			r.Infof("CTR.extlen: %d success path(s) with an extension block checked", decided)
		}
	} else {
		missingAnchor(r, "rtp.(Header).MarshalTo")
	}
}

// C03 — RTP decoding conforms to RFC 3550/8285 and re-encoding is stable.
func c03(c *Ctx) {
	p, r := c.Prog, c.R
	r.Explain = "BITS: reader tables as conformance (RFC 3550 5.1, RFC 8285 4.2/4.3); walker features (zero byte skipped as " +
		"padding, id 15 stops the walk, id and length extraction) of Header.Unmarshal and of the standalone one-byte view " +
		"must agree; BOUNDS contract: the payload starts exactly at the end of the extension block; OWN: the block views " +
		"re-serialise the bytes they were given. Acceptance of every grammar-generated image and re-encoding equality are not decided."
	n := fixedHeaderRules(c)
	n += elementHeaderRules(c)
	hu := p.Func("rtp.(*Header).Unmarshal")
	ref := walkerFeatures(c, hu)
	n++
	refOK := ref.paddingSkip && ref.reservedStop && ref.idShift && ref.lenPlusOne
	addOrUndecided(c, "SIBLING.walk", core.FuncName(hu), "one-byte walk: padding skip, reserved-id stop, id = byte>>4, len = (byte&15)+1", p.Position(hu.Pos()),
		refOK, ref.String(), hu)
	if !refOK && len(newHelpers(hu)) > 0 {
		// the walk of the restructured Header.Unmarshal is not decided: the views are compared with the walk RFC 8285 4.2 describes
		ref = walkFeatures{paddingSkip: true, reservedStop: true, idShift: true, lenPlusOne: true}
	}
	for _, mn := range []string{"GetIDs", "Get", "Set", "Del"} {
		fn := p.Func("rtp.(*OneByteHeaderExtension)." + mn)
		if fn == nil {
			r.Fatalf("anchor OneByteHeaderExtension.%s missing", mn)
			continue
		}
		f := walkerFeatures(c, fn)
		n++
		r.Add("SIBLING.walk", core.FuncName(fn), "walks the block like Header.Unmarshal (padding skip, id and length extraction)", p.Position(fn.Pos()),
			f.paddingSkip == ref.paddingSkip && f.idShift == ref.idShift && f.lenPlusOne == ref.lenPlusOne, "view "+f.String()+" vs header "+ref.String())
		n++
		r.Add("SIBLING.walk", core.FuncName(fn), "stops at the reserved id 15 like Header.Unmarshal", p.Position(fn.Pos()), f.reservedStop == ref.reservedStop,
			"view "+f.String()+" vs header "+ref.String())
	}
	for _, mn := range []string{"GetIDs", "Get", "Set", "Del"} {
		fn := p.Func("rtp.(*TwoByteHeaderExtension)." + mn)
		if fn == nil {
			r.Fatalf("anchor TwoByteHeaderExtension.%s missing", mn)
			continue
		}
		f := walkerFeatures(c, fn)
		n++
		r.Add("SIBLING.walk", core.FuncName(fn), "two-byte walk skips zero padding bytes", p.Position(fn.Pos()), f.paddingSkip, f.String())
		n++
		r.Add("SIBLING.walk", core.FuncName(fn), "two-byte walk reserves no id (RFC 8285 4.3: only the one-byte form stops at id 15)", p.Position(fn.Pos()), len(f.byteStops) == 0 && !f.reservedStop,
			fmt.Sprintf("the walk ends when an element id equals %v", f.byteStops))
	}
	n += viewIdentity(c)
	n += profileDispatch(c)
	r.Floor("C03 rows", n, 38)
	np := presenceRule(c, "rtp.(*Packet).Unmarshal", []presRow{{"Header.Padding", []string{"PaddingSize"}}})
	np += presenceRule(c, "rtp.(*Header).Unmarshal", []presRow{{"Extension", []string{"ExtensionProfile"}}})
	r.Floor("C03 presence rows", np, 2)
	r.Floor("view walk-exit contracts", viewWalkExit(c), 8)
	pu := p.Func("rtp.(*Packet).Unmarshal")
	c.wrapScope = map[string]bool{"rtp.(*Header).Unmarshal": true, "rtp.(*Packet).Unmarshal": true}
	boundsRun(c, []*ssa.Function{hu, pu}, headerContracts(c, true))
	accFreshFor(c, 4, "/packet.go", "header_extension.go")
}

// viewIdentity (O5): Unmarshal of the three block views stores the parameter; Marshal returns the
// stored field; MarshalSize is its length; MarshalTo copies it.
func viewIdentity(c *Ctx) int {
	p, r := c.Prog, c.R
	n := 0
	for _, t := range []string{"OneByteHeaderExtension", "TwoByteHeaderExtension", "RawExtension"} {
		um := p.Method("rtp", t, "Unmarshal")
		ma := p.Method("rtp", t, "Marshal")
		if um == nil || ma == nil {
			r.Fatalf("anchor rtp.%s views missing", t)
			continue
		}
		okU := false
		for _, b := range um.Blocks {
			for _, in := range b.Instrs {
				if st, ok := in.(*ssa.Store); ok {
					if fa, ok := st.Addr.(*ssa.FieldAddr); ok && core.FieldName(fa) == "payload" && st.Val == ssa.Value(um.Params[1]) {
						okU = true
					}
				}
			}
		}
		n++
		r.Add("OWN.O5", core.FuncName(um), "stores the whole input block", p.Position(um.Pos()), okU, "payload field is not set to the parameter")
		okM := false
		for _, b := range ma.Blocks {
			for _, in := range b.Instrs {
				if ret, ok := in.(*ssa.Return); ok && len(ret.Results) == 2 {
					v := core.Resolve(ret.Results[0])
					if f, ok := v.(*ssa.Field); ok && core.FieldOfValue(f) == "payload" {
						okM = true
					}
					if loadedField(v) == "payload" {
						okM = true
					}
				}
			}
		}
		n++
		r.Add("OWN.O5", core.FuncName(ma), "returns the stored block unchanged", p.Position(ma.Pos()), okM, "Marshal does not return the payload field")
	}
	return n
}

// headerContracts: ext-exact — at every success return of Header.Unmarshal on which the
// extension block was parsed, the returned length equals the block end.
func headerContracts(c *Ctx, withReservedStop bool) *bounds.Hooks {
	p := c.Prog
	hu := p.Func("rtp.(*Header).Unmarshal")
	if hu == nil {
		return nil
	}
	// extensionEnd: the loop-invariant operand of the element loop's condition n < extensionEnd
	var extEnd ssa.Value
	var elemHead *ssa.BasicBlock
	for _, b := range hu.Blocks {
		if len(b.Instrs) == 0 || !inAnyLoop(b) {
			continue
		}
		if iff, ok := b.Instrs[len(b.Instrs)-1].(*ssa.If); ok {
			if cmp, ok := iff.Cond.(*ssa.BinOp); ok && cmp.Op == token.LSS {
				if _, isPhi := cmp.X.(*ssa.Phi); isPhi {
					if add, isAdd := cmp.Y.(*ssa.BinOp); isAdd && add.Op == token.ADD {
						extEnd = cmp.Y
						elemHead = b
					}
				}
			}
		}
	}
	if extEnd == nil {
		if hs := newHelpers(hu); len(hs) > 0 {
			// the element loop was moved into a helper: the block end is a value of the helper's frame and the
			// ext-exact / ext-containment contracts, which are stated at Header.Unmarshal's own returns, are not decided
			c.R.Infof("CTR ext-exact/ext-containment: not decided — element loop `n < extensionEnd` not found in Header.Unmarshal, which was restructured around new helper(s) (%s)", core.FuncName(hs[0]))
			// (the returned length is then the result of a helper call; that it lies inside the input is implied by the
			// panic obligations of Packet.Unmarshal, which slices buf[n:] with it)
			return &bounds.Hooks{}
		}
		c.R.Fatalf("Header.Unmarshal: element loop `n < extensionEnd` not found")
		return nil
	}
	// the legacy (RFC 3550) arm re-reads the element it has just appended: h.Extensions[0]
	var legacyElem ssa.Value
	for _, b := range hu.Blocks {
		for _, in := range b.Instrs {
			if ia, ok := in.(*ssa.IndexAddr); ok {
				if k, isC := core.ConstInt(ia.Index); isC && k == 0 && loadedField(ia.X) == "Extensions" {
					legacyElem = ia
				}
			}
		}
	}
	// the reserved-id test extid == 15
	var reservedCmp *ssa.BinOp
	for _, b := range hu.Blocks {
		for _, in := range b.Instrs {
			if cmp, ok := in.(*ssa.BinOp); ok && cmp.Op == token.EQL {
				if k, isC := core.ConstInt(cmp.Y); isC && k == 15 {
					reservedCmp = cmp
				}
			}
		}
	}
	// the value-length variable of the element being parsed (a phi joining the two header forms)
	var payloadLen ssa.Value
	for _, b := range hu.Blocks {
		for _, in := range b.Instrs {
			if ph, ok := in.(*ssa.Phi); ok && ph.Comment == "payloadLen" && inAnyLoop(b) {
				isHead := false
				for _, pr := range b.Preds {
					if b.Dominates(pr) {
						isHead = true
					}
				}
				if !isHead {
					payloadLen = ph
				}
			}
		}
	}
	var noLenOnce sync.Once
	return &bounds.Hooks{AtReturn: func(h *bounds.Helper, fn *ssa.Function, ret *ssa.Return, d *bounds.Disjunct) {
		if fn != hu || len(ret.Results) != 2 {
			return
		}
		if !d.ErrIsNil(ret.Results[1]) {
			// ext-containment: inside the element loop an error is justified only when the element
			// does not fit in the extension block. RFC 8285: a two-byte element needs its two header
			// bytes and L value bytes, a one-byte element one header byte and L bytes; the cursor n
			// reported with the error has consumed the header bytes read so far.
			fromLoop := false
			for _, g := range core.DominatingGuards(ret.Block()) {
				// the guard sits in the element loop: its block is reachable from the loop head and
				// reaches it again
				if elemHead != nil && elemHead.Dominates(g.At) && core.Reachable(g.At)[elemHead] {
					fromLoop = true
				}
			}
			if fromLoop && d.Has(extEnd) {
				n, e := d.Int(ret.Results[0]), d.Int(extEnd)
				var fits lin.Ineq
				what := "one more header byte"
				if payloadLen != nil && d.Has(payloadLen) {
					fits = lin.LE(n.Add(d.Int(payloadLen)), e)
					what = "the value bytes"
				} else if payloadLen == nil {
					// the element's value length is not a single variable of this function (one loop per header form,
					// the tail in a helper): which quantity the error is about cannot be told here
					noLenOnce.Do(func() {
						c.R.Infof("CTR ext-containment: not decided — no variable joining the value lengths of the two header forms in Header.Unmarshal")
					})
					return
				} else {
					fits = lin.LE(n.AddConst(1), e)
				}
				ok := !d.Satisfiable(fits)
				h.Oblige("ext-containment: an element that fits in the extension block is not rejected", ok,
					"this error return is reachable although "+what+" still fit(s) before the end of the extension block: a well-formed block ending exactly there is rejected")
			}
			return
		}
		arm := "no extension"
		if d.Has(extEnd) {
			arm = "RFC 8285 arm"
			if legacyElem != nil && d.Has(legacyElem) {
				arm = "legacy arm"
			} else if reservedCmp != nil && d.Has(reservedCmp.X) && d.Entails(lin.EQ(d.Int(reservedCmp.X), lin.Const(15))...) {
				arm = "RFC 8285 arm, walk stopped by reserved id 15"
			}
		}
		n := d.Int(ret.Results[0])
		h.Oblige("success ("+arm+"): 0 <= n <= len(buf)", d.Entails(lin.GE(n, lin.Const(0)), lin.LE(n, d.Len(hu.Params[1]))), "header length outside the input")
		if d.Has(extEnd) && (withReservedStop || !strings.Contains(arm, "reserved id")) {
			e := d.Int(extEnd)
			ok := d.Entails(lin.EQ(n, e)...)
			detail := ""
			if !ok {
				detail = "a success return leaves the header length inside (or past) the extension block, so the payload does not start at the block end: " + d.Describe(lin.LE(e, n))
			}
			h.Oblige("ext-exact ("+arm+"): header length = end of the extension block", ok, detail)
		}
	}, AtInstr: sizeMessageContract(c, hu)}
}

// sizeSibling: MarshalSize and MarshalTo agree arm by arm.
func sizeSibling(c *Ctx) int {
	p, r := c.Prog, c.R
	ms := p.Func("rtp.(Header).MarshalSize")
	mt := p.Func("rtp.(Header).MarshalTo")
	if ms == nil || mt == nil {
		r.Fatalf("size sibling anchors missing")
		return 0
	}
	n := 0
	// constants added in loops of MarshalSize: {1, 2}; bytes stored per element in MarshalTo loops: {1, 2}
	sizeConsts := map[int64]bool{}
	var msBlocks, mtBlocks []*ssa.BasicBlock
	for _, f := range scopeOf(ms) {
		msBlocks = append(msBlocks, f.Blocks...)
	}
	for _, f := range scopeOf(mt) {
		mtBlocks = append(mtBlocks, f.Blocks...)
	}
	for _, b := range msBlocks {
		if !inAnyLoop(b) {
			continue
		}
		for _, in := range b.Instrs {
			if add, ok := in.(*ssa.BinOp); ok && add.Op == token.ADD {
				for _, side := range []ssa.Value{add.X, add.Y} {
					if k, isC := core.ConstInt(side); isC {
						sizeConsts[k] = true
					}
				}
			}
		}
	}
	// per-element single-byte stores in MarshalTo, grouped by loop (by block)
	stores := map[int]int{}
	for _, b := range mtBlocks {
		if !inAnyLoop(b) {
			continue
		}
		cnt := 0
		for _, in := range b.Instrs {
			if st, ok := in.(*ssa.Store); ok {
				if ia, ok := st.Addr.(*ssa.IndexAddr); ok && ia.X == ssa.Value(mt.Params[0]) || isBufIndex(st.Addr, mt) {
					cnt++
				}
			}
		}
		if cnt > 0 {
			stores[cnt]++
		}
	}
	n++
	addOrUndecided(c, "SIBLING.size", core.FuncName(ms), "per-element header sizes {1,2} match the header bytes MarshalTo stores per element", p.Position(ms.Pos()),
		sizeConsts[1] && sizeConsts[2] && stores[1] >= 1 && stores[2] >= 1, fmt.Sprintf("MarshalSize adds %v per element; MarshalTo stores per element (count->loops): %v", keysInt(sizeConsts), stores), ms, mt)
	// both start from 12 + 4*len(CSRC), +4 for the extension header, round with ((x+3)/4)*4
	for _, fn := range []*ssa.Function{ms, mt} {
		oc, _ := opConsts(fn)
		n++
		addOrUndecided(c, "SIBLING.size", core.FuncName(fn), "extension size rounded to 32-bit words: ((x+3)/4)*4", p.Position(fn.Pos()), oc["+ 3"] >= 1 && oc["/ 4"] >= 1 && oc["* 4"] >= 1, fmt.Sprintf("%v", oc), fn)
	}
	oc, _ := opConsts(ms)
	n++
	r.Add("SIBLING.size", core.FuncName(ms), "fixed part 12 + 4 per CSRC", p.Position(ms.Pos()), oc["+ 12"] >= 1 && oc["* 4"] >= 1, fmt.Sprintf("%v", oc))
	// Packet: MarshalSize = header + len(payload) + padding; MarshalTo returns n + m + padding
	pms := p.Func("rtp.(Packet).MarshalSize")
	pmt := p.Func("rtp.(*Packet).MarshalTo")
	if pms != nil && pmt != nil {
		shape := func(fn *ssa.Function) string {
			var parts []string
			for _, b := range fn.Blocks {
				for _, in := range b.Instrs {
					if ret, ok := in.(*ssa.Return); ok && len(ret.Results) >= 1 {
						if v, ok := ret.Results[0].(*ssa.BinOp); ok && v.Op == token.ADD {
							parts = append(parts, addShape(v))
						}
					}
				}
			}
			return strings.Join(parts, ";")
		}
		a, b := shape(pms), shape(pmt)
		n++
		r.Add("SIBLING.size", core.FuncName(pmt), "returned count has the same three terms as Packet.MarshalSize (header + payload + padding)", p.Position(pmt.Pos()),
			a != "" && b != "" && !strings.Contains(a, ";") && eachPartLike(b, a), "MarshalSize: "+a+" ; MarshalTo: "+b)
	}
	return n
}

// eachPartLike: every returned sum of MarshalTo (one per return statement) has as many terms as
// MarshalSize's sum and ends in the padding size.
func eachPartLike(parts, ref string) bool {
	for _, pt := range strings.Split(parts, ";") {
		if strings.Count(pt, "+") != strings.Count(ref, "+") || !strings.Contains(pt, "PaddingSize") || !strings.Contains(ref, "PaddingSize") {
			return false
		}
	}
	return true
}

func isBufIndex(addr ssa.Value, fn *ssa.Function) bool {
	ia, ok := addr.(*ssa.IndexAddr)
	if !ok {
		return false
	}
	prm, ok := ia.X.(*ssa.Parameter)
	return ok && prm.Name() == "buf"
}

func keysInt(m map[int64]bool) []int64 {
	var out []int64
	for k := range m {
		out = append(out, k)
	}
	return out
}

func addShape(v *ssa.BinOp) string {
	var term func(x ssa.Value) string
	term = func(x ssa.Value) string {
		x = core.StripConv(x)
		switch y := x.(type) {
		case *ssa.BinOp:
			if y.Op == token.ADD {
				return term(y.X) + "+" + term(y.Y)
			}
		case *ssa.Call:
			if core.BuiltinName(y) == "len" {
				return "len"
			}
			if y.Call.StaticCallee() != nil {
				return y.Call.StaticCallee().Name()
			}
		case *ssa.UnOp:
			if f := loadedField(y); f != "" {
				return f
			}
		case *ssa.Field:
			return core.FieldOfValue(y)
		case *ssa.Extract:
			return "n"
		}
		return "v"
	}
	return term(v)
}

// profileDispatch: every function that branches on the extension profile compares the whole
// 16-bit value with exactly {0xBEDE, 0x1000} (writer, size function, reader and SetExtension
// must classify a header identically).
func profileDispatch(c *Ctx) int {
	p, r := c.Prog, c.R
	n := 0
	for _, it := range []struct{ fn, pattern string }{
		{"rtp.(Header).MarshalTo", "recv.ExtensionProfile.15-0"},
		{"rtp.(Header).MarshalSize", "recv.ExtensionProfile.15-0"},
		{"rtp.(*Header).SetExtension", "recv.ExtensionProfile.15-0"},
		{"rtp.(*Header).Unmarshal", "$b[@c].7-0 $b[@c+1].7-0"},
	} {
		fn := p.Func(it.fn)
		if fn == nil {
			missingAnchor(r, it.fn)
			continue
		}
		m := bits.Run(p, fn)
		got := cmpConsts(m, it.pattern)
		// any other comparison involving profile bits (masked forms) is a divergence
		masked := 0
		for _, ci := range m.Cmps {
			if vecMatches(ci.Vec, it.pattern) {
				continue
			}
			for _, b := range ci.Vec {
				if (b.K == bits.In || b.K == bits.Not) && strings.Contains(b.Src, "ExtensionProfile") {
					masked++
					break
				}
			}
		}
		n++
		r.Add("SIBLING.profile", it.fn, "profile dispatch compares the full 16-bit profile with {0x1000, 0xBEDE}", p.Position(fn.Pos()),
			len(got) == 2 && got[0] == 0x1000 && got[1] == 0xBEDE && masked == 0, fmt.Sprintf("constants %s, %d comparisons on a masked profile", u64s(got), masked))
	}
	return n
}

// sizeMessageContract: the "size %d < %d" errors of Header.Unmarshal whose first number is
// len(buf) tell the truth: on the path that builds the message, len(buf) is indeed smaller than the
// size it names. A length test made stricter by one (`<` turned into `<=`) rejects a packet that
// ends exactly where the header does (no payload, or no extension elements) and makes the message
// false; a test made weaker is a BOUNDS.IDX/SLC finding already.
func sizeMessageContract(c *Ctx, hu *ssa.Function) func(h *bounds.Helper, fn *ssa.Function, in ssa.Instruction, d *bounds.Disjunct) {
	re := regexp.MustCompile(`%[dv] *(<=?) *%[dv]`)
	return func(h *bounds.Helper, fn *ssa.Function, in ssa.Instruction, d *bounds.Disjunct) {
		call, ok := in.(*ssa.Call)
		if !ok || fn != hu || core.CalleeFullName(call) != "fmt.Errorf" || len(call.Call.Args) != 2 {
			return
		}
		fc, ok := call.Call.Args[0].(*ssa.Const)
		if !ok || fc.Value == nil || fc.Value.Kind() != constant.String {
			return
		}
		format := constant.StringVal(fc.Value)
		loc := re.FindStringSubmatchIndex(format)
		if loc == nil {
			return
		}
		op := format[loc[2]:loc[3]]
		first := strings.Count(format[:loc[0]], "%") // verbs before the pair (no %% in these messages)
		sl, ok := call.Call.Args[1].(*ssa.Slice)
		if !ok {
			return
		}
		arr, ok := sl.X.(*ssa.Alloc)
		if !ok {
			return
		}
		argAt := func(i int) ssa.Value {
			for _, ref := range *arr.Referrers() {
				ia, ok := ref.(*ssa.IndexAddr)
				if !ok {
					continue
				}
				if k, isC := core.ConstInt(ia.Index); !isC || int(k) != i {
					continue
				}
				for _, r2 := range *ia.Referrers() {
					if st, ok := r2.(*ssa.Store); ok && st.Addr == ia {
						if mi, ok := st.Val.(*ssa.MakeInterface); ok {
							return mi.X
						}
						return st.Val
					}
				}
			}
			return nil
		}
		a, b := argAt(first), argAt(first+1)
		if a == nil || b == nil {
			return
		}
		lc, isLen := a.(*ssa.Call)
		if !isLen || core.BuiltinName(lc) != "len" {
			return
		}
		if _, isParam := lc.Call.Args[0].(*ssa.Parameter); !isParam {
			return
		}
		la, lb := d.Int(a), d.Int(b)
		if la == nil || lb == nil {
			return
		}
		q := lin.LT(la, lb)
		if op == "<=" {
			q = lin.LE(la, lb)
		}
		h.Oblige("size error is raised only when the input is too short ("+format+")", d.Entails(q), "the error is reachable although the input has the size it asks for: "+d.Describe(q))
	}
}
