package props

import (
	"fmt"
	"go/token"
	"go/types"
	"sort"
	"strings"

	"golang.org/x/tools/go/ssa"

	"rtpcheck/bits"
	"rtpcheck/core"
)

func init() { Registry["C18"] = c18 }

// opConsts lists "op const" pairs of integer BinOps with a constant operand in fn.
func opConsts(fn *ssa.Function) (map[string]int, bool) {
	out := map[string]int{}
	float := false
	for _, b := range blocksWithCallees(fn) {
		for _, in := range b.Instrs {
			if v, ok := in.(ssa.Value); ok {
				if bt, ok := v.Type().Underlying().(*types.Basic); ok && bt.Info()&types.IsFloat != 0 {
					float = true
				}
			}
			bo, ok := in.(*ssa.BinOp)
			if !ok {
				continue
			}
			for _, side := range []ssa.Value{bo.X, bo.Y} {
				if k, isC := core.ConstInt(side); isC {
					out[fmt.Sprintf("%s %d", bo.Op, uint64(k))]++
				}
			}
		}
	}
	return out, float
}

func requireOps(c *Ctx, fnName string, want []string, n *int) {
	p, r := c.Prog, c.R
	fn := p.Func(fnName)
	if fn == nil {
		missingAnchor(r, fnName)
		return
	}
	got, float := opConsts(fn)
	var missing []string
	for _, w := range want {
		if got[w] == 0 {
			missing = append(missing, w)
		}
	}
	var have []string
	for k := range got {
		have = append(have, k)
	}
	sort.Strings(have)
	*n++
	r.Add("STRUCT.const", fnName, "uses the conversion constants "+strings.Join(want, ", "), p.Position(fn.Pos()), len(missing) == 0,
		"missing: "+strings.Join(missing, ", ")+" ; present: "+strings.Join(have, ", "))
	*n++
	r.Add("STRUCT.const", fnName, "integer arithmetic only (no floating point rounding)", p.Position(fn.Pos()), !float, "a floating-point value is computed")
}

// C18 — NTP time mapping and send-time estimation recover the original instant.
func c18(c *Ctx) {
	p, r := c.Prog, c.R
	r.Explain = "Necessary conditions only (STRUCT constants + BITS): both NTP conversions use the 1900/1970 epoch offset " +
		"2208988800 and inverse 32-bit shifts and 1e9 scalings in integer arithmetic; abs-send-time takes bits 37..14 of the " +
		"NTP value by a plain shift and Estimate splices exactly those bits back, compares (receive, spliced) and subtracts " +
		"one 2^38 wrap; the Q32.32 offset packs and unpacks the same halves. The numeric error bounds of the statement are " +
		"not decided by any static rule here."
	n := 0
	const epoch = "2208988800"
	requireOps(c, "rtp.toNtpTime", []string{"+ " + epoch, "/ 1000000000", "% 1000000000", "<< 32"}, &n)
	requireOps(c, "rtp.toTime", []string{"- " + epoch, ">> 32", "& 4294967295", "* 1000000000"}, &n)
	requireOps(c, "rtp.NewAbsCaptureTimeExtensionWithCaptureClockOffset", []string{"/ 1000000000", "% 1000000000", "<< 32", "& 4294967295"}, &n)
	requireOps(c, "rtp.(AbsCaptureTimeExtension).EstimatedCaptureClockOffsetDuration", []string{"/ 4294967296", "& 4294967295", "* 1000000000"}, &n)
	// NewAbsSendTimeExtension: Timestamp = toNtpTime(t) >> 14
	if fn := p.Func("rtp.NewAbsSendTimeExtension"); fn != nil {
		ok := false
		for _, b := range fn.Blocks {
			for _, in := range b.Instrs {
				st, isSt := in.(*ssa.Store)
				if !isSt {
					continue
				}
				if fa, isFA := st.Addr.(*ssa.FieldAddr); isFA && core.FieldName(fa) == "Timestamp" {
					if sh, isSh := st.Val.(*ssa.BinOp); isSh && sh.Op == token.SHR {
						if k, isC := core.ConstInt(sh.Y); isC && k == 14 {
							if call, isCall := sh.X.(*ssa.Call); isCall && call.Call.StaticCallee() != nil && call.Call.StaticCallee().Name() == "toNtpTime" {
								ok = true
							}
						}
					}
				}
			}
		}
		n++
		r.Add("STRUCT.const", core.FuncName(fn), "abs-send-time = NTP value >> 14 (truncation, no rounding)", p.Position(fn.Pos()), ok, "Timestamp is not toNtpTime(t) >> 14")
	} else {
		r.Fatalf("anchor NewAbsSendTimeExtension missing")
	}
	// Estimate: splice and comparison
	if fn := p.Func("rtp.(*AbsSendTimeExtension).Estimate"); fn != nil {
		m := bits.Run(p, fn)
		name := core.FuncName(fn)
		var cmp *ssa.BinOp
		for _, b := range fn.Blocks {
			if len(b.Instrs) == 0 {
				continue
			}
			if iff, ok := b.Instrs[len(b.Instrs)-1].(*ssa.If); ok {
				if bo, ok := iff.Cond.(*ssa.BinOp); ok {
					cmp = bo
				}
			}
		}
		okSplice, okCmp := false, false
		detail := "no comparison found"
		if cmp != nil {
			spliced, recvd := cmp.Y, cmp.X
			if cmp.Op == token.GTR {
				spliced, recvd = cmp.X, cmp.Y
			}
			v := m.ValueOf(spliced)
			okSplice = vecMatches(v, "call:toNtpTime.63-38 recv.Timestamp.23-0 0x14")
			_, isCall := recvd.(*ssa.Call)
			okCmp = (cmp.Op == token.LSS || cmp.Op == token.GTR) && isCall
			detail = fmt.Sprintf("compares %s with %s ; spliced value %s", core.OpString(recvd), core.OpString(spliced), v)
		}
		n++
		r.Add("BITS.splice", name, "estimate = receive bits 63..38 | send-time bits 23..0 << 14", p.Position(fn.Pos()), okSplice, detail)
		n++
		r.Add("STRUCT.const", name, "wrap decision compares the plain receive time with the spliced value", p.Position(fn.Pos()), okCmp, detail)
		got, _ := opConsts(fn)
		n++
		r.Add("STRUCT.const", name, "one wrap = 2^38 NTP units is subtracted", p.Position(fn.Pos()), got["- 274877906944"] == 1, fmt.Sprintf("constants: %v", got))
	} else {
		r.Fatalf("anchor Estimate missing")
	}
	// sign-magnitude conversion: where a function negates a signed quantity under `x < 0`, the scaling
	// arithmetic works on the normalised value only; the raw value may be compared and negated, nothing else
	// (the whole-seconds quotient of a negative Q32.32 value taken before the normalisation is off by the sign)
	for _, nme := range []string{"rtp.(AbsCaptureTimeExtension).EstimatedCaptureClockOffsetDuration", "rtp.NewAbsCaptureTimeExtensionWithCaptureClockOffset"} {
		fn := p.Func(nme)
		if fn == nil {
			continue
		}
		for _, b := range fn.Blocks {
			for _, in := range b.Instrs {
				neg, ok := in.(*ssa.UnOp)
				if !ok || neg.Op != token.SUB {
					continue
				}
				raw := neg.X
				if _, isConst := raw.(*ssa.Const); isConst || raw.Referrers() == nil {
					continue
				}
				// only when the negation is guarded by a sign test of the same value
				guarded := false
				for _, g := range core.DominatingGuards(b) {
					if cmp, ok := g.Cond.(*ssa.BinOp); ok && (cmp.X == raw || cmp.Y == raw) && (cmp.Op == token.LSS || cmp.Op == token.GTR || cmp.Op == token.LEQ || cmp.Op == token.GEQ) {
						guarded = true
					}
				}
				if !guarded {
					continue
				}
				// uses on the side of a sign test on which the value is known to be non-negative are uses of the
				// magnitude already (`if ns < 0 { x = -f(-ns) } else { x = f(ns) }`)
				nonNegSide := func(blk *ssa.BasicBlock) bool {
					for _, tb := range fn.Blocks {
						if len(tb.Instrs) == 0 {
							continue
						}
						iff, ok := tb.Instrs[len(tb.Instrs)-1].(*ssa.If)
						if !ok {
							continue
						}
						cmp, ok := iff.Cond.(*ssa.BinOp)
						if !ok {
							continue
						}
						side := -1
						zeroY := func() bool { k, isC := core.ConstInt(cmp.Y); return isC && k == 0 }
						zeroX := func() bool { k, isC := core.ConstInt(cmp.X); return isC && k == 0 }
						switch {
						case cmp.X == raw && cmp.Op == token.LSS && zeroY(): // raw < 0: false edge is non-negative
							side = 1
						case cmp.X == raw && cmp.Op == token.GEQ && zeroY():
							side = 0
						case cmp.Y == raw && cmp.Op == token.GTR && zeroX(): // 0 > raw
							side = 1
						case cmp.Y == raw && cmp.Op == token.LEQ && zeroX(): // 0 <= raw
							side = 0
						}
						if side < 0 {
							continue
						}
						sc := tb.Succs[side]
						if len(sc.Preds) == 1 && sc.Dominates(blk) {
							return true
						}
					}
					return false
				}
				bad := ""
				// the signed value the negated one was read from (ns := d.Nanoseconds(); if ns < 0 { ns = -ns }): the
				// duration itself must not be used for anything but that read, or the sign is back in the arithmetic
				if call, ok := raw.(*ssa.Call); ok && len(call.Call.Args) == 1 && call.Call.Args[0].Referrers() != nil {
					if cal := call.Call.StaticCallee(); cal != nil && cal.Name() == "Nanoseconds" {
						for _, ref := range *call.Call.Args[0].Referrers() {
							if ref == ssa.Instruction(call) {
								continue
							}
							if _, isDbg := ref.(*ssa.DebugRef); isDbg {
								continue
							}
							if ref.Block() != nil && nonNegSide(ref.Block()) {
								continue
							}
							bad = p.Position(ref.Pos())
						}
					}
				}
				for _, ref := range *raw.Referrers() {
					if ref.Block() != nil && nonNegSide(ref.Block()) {
						continue
					}
					switch u := ref.(type) {
					case *ssa.Phi, *ssa.DebugRef:
					case *ssa.UnOp:
						if u.Op != token.SUB {
							bad = p.Position(u.Pos())
						}
					case *ssa.BinOp:
						switch u.Op {
						case token.LSS, token.GTR, token.LEQ, token.GEQ, token.EQL, token.NEQ:
						default:
							bad = p.Position(u.Pos())
						}
					default:
						bad = p.Position(ref.Pos())
					}
				}
				n++
				r.Add("STRUCT.signmag", nme, "the value negated under its sign test is otherwise only compared (scaling uses the normalised value)", p.Position(neg.Pos()), bad == "",
					"the raw signed value is also used in arithmetic at "+bad+", before the normalisation")
			}
		}
	}
	r.Floor("C18 constant rows", n, 12)
	// the conversions never panic (nil offset, float conversions): panic obligations of every function of the clause
	var entries []*ssa.Function
	for _, nme := range []string{"rtp.(AbsCaptureTimeExtension).CaptureTime", "rtp.(AbsCaptureTimeExtension).EstimatedCaptureClockOffsetDuration",
		"rtp.NewAbsCaptureTimeExtension", "rtp.NewAbsCaptureTimeExtensionWithCaptureClockOffset", "rtp.(*AbsSendTimeExtension).Estimate",
		"rtp.NewAbsSendTimeExtension", "rtp.toNtpTime", "rtp.toTime"} {
		if f := p.Func(nme); f != nil {
			entries = append(entries, f)
		} else {
			missingAnchor(r, nme)
		}
	}
	boundsFor(c, "C18", entries)
}
