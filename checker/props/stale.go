package props

import (
	"fmt"
	"go/token"
	"sort"
	"strings"

	"golang.org/x/tools/go/ssa"

	"rtpcheck/core"
)

// STRUCT.stale — a value computed from captured state must not be used after that state has been
// changed. In a function built from closures over shared local variables (the H265 payloader: the
// per-unit callback calls `calcMarginalAggregationSize`, which reads `bufferedNALUs`, and
// `flushBufferedNals`, which empties it), the result of a *reader* closure is stale once a *writer*
// closure of the same variable has run. The rule reports a use of a reader's result that is reachable
// from a later call of such a writer; values are SSA values, so a recomputation after the writer is a
// different value and a phi edge counts as a use on that edge only.
func staleRule(c *Ctx, fnName string) int {
	p, r := c.Prog, c.R
	fn := p.Func(fnName)
	if fn == nil {
		missingAnchor(r, fnName)
		return 0
	}
	// closures by the name of the local variable that holds them
	byVar := map[string]*ssa.Function{}
	for _, b := range fn.Blocks {
		for _, in := range b.Instrs {
			st, ok := in.(*ssa.Store)
			if !ok {
				continue
			}
			mc, ok := st.Val.(*ssa.MakeClosure)
			if !ok {
				continue
			}
			if a, ok := st.Addr.(*ssa.Alloc); ok {
				if g, ok := mc.Fn.(*ssa.Function); ok {
					byVar[a.Comment] = g
				}
			}
		}
	}
	// direct reads / writes of captured variables per closure, and closure calls
	type eff struct{ reads, writes, calls map[string]bool }
	effs := map[*ssa.Function]*eff{}
	calleeOf := func(g *ssa.Function, call *ssa.Call) (string, bool) {
		ld, ok := call.Call.Value.(*ssa.UnOp)
		if !ok || ld.Op != token.MUL {
			return "", false
		}
		fv, ok := ld.X.(*ssa.FreeVar)
		if !ok {
			return "", false
		}
		_, known := byVar[fv.Name()]
		return fv.Name(), known
	}
	for _, g := range fn.AnonFuncs {
		e := &eff{map[string]bool{}, map[string]bool{}, map[string]bool{}}
		effs[g] = e
		for _, b := range g.Blocks {
			for _, in := range b.Instrs {
				switch x := in.(type) {
				case *ssa.UnOp:
					if fv, ok := x.X.(*ssa.FreeVar); ok && x.Op == token.MUL {
						if _, isClosure := byVar[fv.Name()]; !isClosure {
							e.reads[fv.Name()] = true
						}
					}
				case *ssa.Store:
					if fv, ok := x.Addr.(*ssa.FreeVar); ok {
						e.writes[fv.Name()] = true
					}
				case *ssa.Call:
					if name, ok := calleeOf(g, x); ok {
						e.calls[name] = true
					}
				}
			}
		}
	}
	// transitive closure over closure calls
	for changed := true; changed; {
		changed = false
		for _, e := range effs {
			for name := range e.calls {
				h := effs[byVar[name]]
				if h == nil {
					continue
				}
				for k := range h.reads {
					if !e.reads[k] {
						e.reads[k], changed = true, true
					}
				}
				for k := range h.writes {
					if !e.writes[k] {
						e.writes[k], changed = true, true
					}
				}
			}
		}
	}
	reach := func(from, to *ssa.BasicBlock) bool {
		if from == to {
			return true
		}
		seen := map[*ssa.BasicBlock]bool{}
		stack := append([]*ssa.BasicBlock{}, from.Succs...)
		for len(stack) > 0 {
			x := stack[len(stack)-1]
			stack = stack[:len(stack)-1]
			if x == to {
				return true
			}
			if seen[x] {
				continue
			}
			seen[x] = true
			stack = append(stack, x.Succs...)
		}
		return false
	}
	after := func(a, b ssa.Instruction) bool { // b can execute after a
		if a.Block() == b.Block() {
			if core.InstrIndex(a) < core.InstrIndex(b) {
				return true
			}
			return inAnyLoop(a.Block())
		}
		return reach(a.Block(), b.Block())
	}
	n := 0
	var names []string
	for _, g := range fn.AnonFuncs {
		names = append(names, g.Name())
	}
	sort.Strings(names)
	for _, g := range fn.AnonFuncs {
		type ccall struct {
			call *ssa.Call
			name string
		}
		var readers, writers []ccall
		for _, b := range g.Blocks {
			for _, in := range b.Instrs {
				if call, ok := in.(*ssa.Call); ok {
					if name, ok := calleeOf(g, call); ok {
						e := effs[byVar[name]]
						if e == nil {
							continue
						}
						if len(e.reads) > 0 && call.Type() != nil && call.Referrers() != nil && len(*call.Referrers()) > 0 {
							readers = append(readers, ccall{call, name})
						}
						if len(e.writes) > 0 {
							writers = append(writers, ccall{call, name})
						}
					}
				}
			}
		}
		for _, rd := range readers {
			re := effs[byVar[rd.name]]
			for _, wr := range writers {
				we := effs[byVar[wr.name]]
				var shared []string
				for k := range we.writes {
					if re.reads[k] {
						shared = append(shared, k)
					}
				}
				if len(shared) == 0 || !after(rd.call, wr.call) {
					continue
				}
				sort.Strings(shared)
				n++
				bad := ""
				for _, ref := range *rd.call.Referrers() {
					switch u := ref.(type) {
					case *ssa.Phi:
						for i, e := range u.Edges {
							if e == ssa.Value(rd.call) && i < len(u.Block().Preds) {
								pred := u.Block().Preds[i]
								if wr.call.Block() == pred || reach(wr.call.Block(), pred) {
									bad = fmt.Sprintf("the value flows into %s at %s along the edge from a block that %s() can precede", u.Name(), p.Position(u.Pos()), wr.name)
								}
							}
						}
					case *ssa.DebugRef:
					default:
						if after(wr.call, ref) {
							bad = fmt.Sprintf("used at %s, which %s() can precede", p.Position(ref.Pos()), wr.name)
						}
					}
				}
				r.Add("STRUCT.stale", core.FuncName(g), fmt.Sprintf("result of %s() (reads %s) is not used after %s() changed it", rd.name, strings.Join(shared, ","), wr.name),
					p.Position(rd.call.Pos()), bad == "", bad)
			}
		}
	}
	return n
}
