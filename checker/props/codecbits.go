package props

import (
	"fmt"
	"go/token"
	"sort"
	"strings"

	"golang.org/x/tools/go/ssa"

	"rtpcheck/bits"
	"rtpcheck/core"
)

// vecMatches reports whether v matches pattern (with fresh placeholder bindings).
func vecMatches(v bits.Vec, pattern string) bool {
	sp, err := parseSpec(pattern, "")
	if err != nil {
		return false
	}
	ok, _ := matchPos(v, sp, newPosBind())
	return ok
}

// hasValue: some SSA value of fn has a vector matching pattern.
func hasValue(m *bits.Machine, pattern string) bool {
	found := false
	m.EachValue(func(_ ssa.Value, vec bits.Vec) {
		if !found && vecMatches(vec, pattern) {
			found = true
		}
	})
	return found
}

// branchOn: some If in fn branches on a condition whose vector matches pattern; returns them.
func branchesOn(m *bits.Machine, pattern string) []*ssa.If {
	out := branchesOn1(m, pattern)
	// branches of the callees the machine expanded (a test moved into a helper that was handed the payload)
	seen := map[*ssa.If]bool{}
	for _, i := range out {
		seen[i] = true
	}
	var visit func(x *bits.Machine, depth int)
	visit = func(x *bits.Machine, depth int) {
		for _, s := range x.Subs {
			for _, i := range branchesOn1(s, pattern) {
				if !seen[i] {
					seen[i] = true
					out = append(out, i)
				}
			}
			if depth < 4 {
				visit(s, depth+1)
			}
		}
	}
	visit(m, 0)
	return out
}

func branchesOn1(m *bits.Machine, pattern string) []*ssa.If {
	var out []*ssa.If
	for _, b := range m.Fn.Blocks {
		if len(b.Instrs) == 0 {
			continue
		}
		if iff, ok := b.Instrs[len(b.Instrs)-1].(*ssa.If); ok {
			// either polarity: `x&bit != 0 { A } else { B }` and `x&bit == 0 { B } else { A }` are the same test
			if vecMatches(m.CondOf(iff), pattern) || (!strings.Contains(pattern, " ") && !strings.HasPrefix(pattern, "!") && vecMatches(m.CondOf(iff), "!"+pattern)) {
				out = append(out, iff)
			}
		}
	}
	return out
}

// cmpConsts lists the constants a vector matching pattern is compared with (==, !=) in fn.
func cmpConsts(m *bits.Machine, pattern string) []uint64 {
	set := map[uint64]bool{}
	for _, ci := range m.Cmps {
		if (ci.Op == token.EQL || ci.Op == token.NEQ) && vecMatches(ci.Vec, pattern) {
			set[ci.Const] = true
		}
	}
	var out []uint64
	for k := range set {
		out = append(out, k)
	}
	sort.Slice(out, func(i, j int) bool { return out[i] < out[j] })
	return out
}

// cmpsWithCallees: the comparisons of fn and of the methods of the same receiver it calls
// (transitively): a test moved into a helper method is still the function's test.
func cmpsWithCallees(p *core.Program, fn *ssa.Function) []bits.CmpInfo {
	var out []bits.CmpInfo
	seen := map[*ssa.Function]bool{}
	var visit func(f *ssa.Function)
	visit = func(f *ssa.Function) {
		if f == nil || seen[f] || len(f.Blocks) == 0 {
			return
		}
		seen[f] = true
		m := bits.Run(p, f)
		var keys []ssa.Value
		for k := range m.Cmps {
			keys = append(keys, k)
		}
		sort.Slice(keys, func(i, j int) bool { return keys[i].Pos() < keys[j].Pos() })
		for _, k := range keys {
			out = append(out, m.Cmps[k])
		}
		for _, b := range f.Blocks {
			for _, in := range b.Instrs {
				if call, ok := in.(*ssa.Call); ok {
					g := call.Call.StaticCallee()
					if g != nil && core.InModule(g) && len(f.Params) > 0 && len(call.Call.Args) > 0 && call.Call.Args[0] == f.Params[0] {
						visit(g)
					}
				}
			}
		}
	}
	visit(fn)
	return out
}

func u64s(xs []uint64) string {
	var s []string
	for _, x := range xs {
		s = append(s, fmt.Sprint(x))
	}
	return "{" + strings.Join(s, ",") + "}"
}

// resultForms: the set of non-constant result vectors of a predicate like IsPartitionHead must be
// exactly the given patterns (constant true/false returns are allowed).
func resultForms(c *Ctx, rule, fnName string, patterns ...string) int {
	p, r := c.Prog, c.R
	fn := p.Func(fnName)
	if fn == nil {
		missingAnchor(r, fnName)
		return 0
	}
	m := bits.Run(p, fn)
	used := make([]bool, len(patterns))
	n := 0
	for _, rs := range m.Returns {
		if len(rs.Results) == 0 || rs.Results[0] == nil {
			continue
		}
		v := rs.Results[0]
		if _, isC := v.ConstVal(); isC {
			continue
		}
		// the predicate may delegate to a shared helper (both IsPartitionHead entry points calling one
		// function): the forms are then the helper's non-constant results
		cands := []bits.Vec{v}
		opaque := false
		for _, b := range v {
			if b.K == bits.Top || strings.HasPrefix(b.Src, "call:") {
				opaque = true
			}
		}
		if opaque && len(rs.Ret.Results) > 0 {
			if hv := helperResultVecs(p, rs.Ret.Results[0]); len(hv) > 0 {
				cands = nil
				for _, x := range hv {
					if _, isC := x.ConstVal(); !isC {
						cands = append(cands, x)
					}
				}
			}
		}
		ok := len(cands) > 0
		for _, cv := range cands {
			one := false
			for i, pt := range patterns {
				if vecMatches(cv, pt) {
					one, used[i] = true, true
				}
			}
			if !one {
				ok = false
			}
		}
		n++
		r.Add(rule, fnName, "result is "+strings.Join(patterns, " | "), p.Position(rs.Ret.Pos()), ok, "computed "+v.String())
	}
	for i, u := range used {
		if !u {
			n++
			r.Add(rule, fnName, "some return yields "+patterns[i], p.Position(fn.Pos()), false, "no return computes this form")
		}
	}
	return n
}

// storeForms: run fn and check recv.<field> stores against patterns (fresh position bindings per
// group of fields sharing a cursor byte).
func storeForms(c *Ctx, rule, fnName string, groups [][2]string) int {
	p, r := c.Prog, c.R
	fn := p.Func(fnName)
	if fn == nil {
		missingAnchor(r, fnName)
		return 0
	}
	m := bits.Run(p, fn)
	n := 0
	pb := newPosBind()
	for _, g := range groups {
		if g[0] == "--" { // new cursor group
			pb = newPosBind()
			continue
		}
		n += readerField(c, rule, m, fnName, g[0], strings.Split(g[1], " | "), pb)
	}
	return n
}
