package props

import (
	"fmt"
	"go/token"
	"sort"

	"golang.org/x/tools/go/ssa"

	"rtpcheck/core"
)

// STRUCT.vlawalk — the encoder and the decoder of the Video Layers Allocation extension visit the same
// (stream, spatial id) pairs in the same order: every RTP stream 0..RTPStreamCount-1 and, per stream, every
// spatial id 0..3, skipping inactive ones *inside* the loop. A loop that steps by two, stops at the first
// inactive layer or ends one stream early writes (or reads) the fields of a different layer than its peer.
//
// Rule: in every function declared in vlaextension.go, a loop whose continuation test compares a counter with
// the stream count (a load of a field named RTPStreamCount) or with the constant 4 is canonical: the counter
// is a phi of the loop head that starts at 0 and is advanced by exactly 1 on every back edge, the test is
// `counter < bound` on the counter itself, and the test is the loop's only exit.
func vlaWalkRule(c *Ctx) int {
	p, r := c.Prog, c.R
	var names []string
	for n := range p.Funcs {
		names = append(names, n)
	}
	sort.Strings(names)
	n := 0
	isStreamCount := func(v ssa.Value) bool {
		v = core.StripConv(v)
		if f := loadedField(v); f == "RTPStreamCount" {
			return true
		}
		if fv, ok := v.(*ssa.Field); ok && core.FieldOfValue(fv) == "RTPStreamCount" {
			return true
		}
		return false
	}
	var fns []*ssa.Function
	seen := map[*ssa.Function]bool{}
	var add func(f *ssa.Function)
	add = func(f *ssa.Function) {
		if f == nil || seen[f] || len(f.Blocks) == 0 {
			return
		}
		seen[f] = true
		fns = append(fns, f)
		for _, a := range f.AnonFuncs {
			add(a)
		}
	}
	for _, nm := range names {
		f := p.Funcs[nm]
		if f != nil && len(f.Blocks) > 0 && containsStr(p.Position(f.Pos()), "vlaextension.go") {
			add(f)
		}
	}
	for _, fn := range fns {
		for _, hd := range fn.Blocks {
			var backs []*ssa.BasicBlock
			for _, t := range hd.Preds {
				if hd.Dominates(t) {
					backs = append(backs, t)
				}
			}
			if len(backs) == 0 || len(hd.Instrs) == 0 {
				continue
			}
			body := map[*ssa.BasicBlock]bool{hd: true}
			stack := append([]*ssa.BasicBlock(nil), backs...)
			for len(stack) > 0 {
				x := stack[len(stack)-1]
				stack = stack[:len(stack)-1]
				if body[x] {
					continue
				}
				body[x] = true
				stack = append(stack, x.Preds...)
			}
			// every test inside the loop that compares something with the stream count or with 4 and leaves the loop
			type exitTest struct {
				blk *ssa.BasicBlock
				cmp *ssa.BinOp
			}
			var tests []exitTest
			nExits := 0
			// leaving the loop by returning an error is not "ending the walk early"
			errorExit := func(t *ssa.BasicBlock) bool {
				for hops := 0; hops < 3 && len(t.Instrs) > 0; hops++ {
					switch x := t.Instrs[len(t.Instrs)-1].(type) {
					case *ssa.Return:
						return len(x.Results) > 0 && !core.IsNilConst(core.Resolve(x.Results[len(x.Results)-1])) && isErrType(x.Results[len(x.Results)-1].Type())
					case *ssa.Jump:
						t = t.Succs[0]
						continue
					}
					return false
				}
				return false
			}
			for b := range body {
				for _, sc := range b.Succs {
					if !body[sc] && !errorExit(sc) {
						nExits++
					}
				}
				iff, ok := b.Instrs[len(b.Instrs)-1].(*ssa.If)
				if !ok {
					continue
				}
				leaves := (!body[b.Succs[0]] && !errorExit(b.Succs[0])) || (!body[b.Succs[1]] && !errorExit(b.Succs[1]))
				cmp, ok := iff.Cond.(*ssa.BinOp)
				if !ok || !leaves {
					continue
				}
				for _, side := range []ssa.Value{cmp.X, cmp.Y} {
					if k, isC := core.ConstInt(side); (isC && k == 4) || isStreamCount(side) {
						tests = append(tests, exitTest{b, cmp})
						break
					}
				}
			}
			if len(tests) == 0 {
				continue
			}
			n++
			what := "walk over streams / spatial ids is canonical (0, 1, ..., bound-1; one exit)"
			pos := p.Position(tests[0].cmp.Pos())
			bad := ""
			if len(tests) != 1 || tests[0].blk != hd {
				bad = "the test against the bound is not the test at the head of the loop"
			} else if nExits != 1 {
				bad = fmt.Sprintf("the loop has %d exits: it can end before the counter reaches the bound", nExits)
			} else {
				cmp := tests[0].cmp
				var ctr ssa.Value
				switch {
				case cmp.Op == token.LSS:
					ctr = cmp.X
				case cmp.Op == token.GTR:
					ctr = cmp.Y
				default:
					bad = "the continuation test is not `counter < bound`"
				}
				if bad == "" {
					ph, isPhi := ctr.(*ssa.Phi)
					// the form the compiler gives `for i := range x`: the phi starts at -1 and the test is on phi+1, which is
					// also the value carried round the loop
					if inc, ok := ctr.(*ssa.BinOp); ok && !isPhi && inc.Op == token.ADD {
						if p2, ok := inc.X.(*ssa.Phi); ok && p2.Block() == hd {
							if k, isC := core.ConstInt(inc.Y); isC && k == 1 {
								rangeForm := true
								for i, pr := range hd.Preds {
									if hd.Dominates(pr) {
										if p2.Edges[i] != ssa.Value(inc) {
											rangeForm = false
										}
									} else if k0, isC0 := core.ConstInt(p2.Edges[i]); !isC0 || k0 != -1 {
										rangeForm = false
									}
								}
								if rangeForm {
									r.Add("STRUCT.vlawalk", core.FuncName(fn), what, pos, true, "")
									continue
								}
							}
						}
					}
					if !isPhi || ph.Block() != hd {
						bad = "the value compared with the bound is not the loop counter itself (" + ctr.String() + ")"
					} else {
						for i, pr := range hd.Preds {
							e := ph.Edges[i]
							if hd.Dominates(pr) {
								add, ok := e.(*ssa.BinOp)
								k, isC := int64(0), false
								if ok && add.Op == token.ADD && add.X == ssa.Value(ph) {
									k, isC = core.ConstInt(add.Y)
								}
								if !isC || k != 1 {
									bad = "the counter is not advanced by exactly 1 on every pass"
								}
							} else if k, isC := core.ConstInt(e); !isC || k != 0 {
								bad = "the counter does not start at 0"
							}
						}
					}
				}
			}
			r.Add("STRUCT.vlawalk", core.FuncName(fn), what, pos, bad == "", bad)
		}
	}
	return n
}

