package props

import (
	"fmt"
	"os"
	"sort"
	"strings"

	"golang.org/x/tools/go/ssa"

	"rtpcheck/core"
	"rtpcheck/own"
)

func init() { Registry["C20"] = c20 }

// C20 — Clone returns an equal, fully independent copy.
func c20(c *Ctx) {
	p, r := c.Prog, c.R
	r.Explain = "OWN O4 (deep copy): flow-sensitive origin analysis of Packet.Clone and Header.Clone; every reference " +
		"reachable from the returned value must be memory allocated inside Clone or nil. Decides independence through its " +
		"cause (no shared reference), for all packets; value equality of the copied bytes is not decided here."
	n := 0
	for _, name := range []string{"rtp.(Packet).Clone", "rtp.(Header).Clone"} {
		fn := p.Func(name)
		if fn == nil {
			r.Fatalf("anchor %s not found", name)
			continue
		}
		n += deepCopyRule(c, fn)
	}
	r.Floor("reference paths checked in Clone results", n, 6)
}

// deepCopyRule checks O4 on every return of fn and returns the number of reference paths seen.
func deepCopyRule(c *Ctx, fn *ssa.Function) int {
	p, r := c.Prog, c.R
	res := own.Analyze(p, fn)
	fname := core.FuncName(fn)
	if os.Getenv("RTPCHECK_DUMP") != "" {
		res.Dump()
	}
	// group by path across all returns
	byPath := map[string][]*own.Obj{}
	for _, rs := range res.Returns {
		for _, rc := range rs.Reach {
			byPath[rc.Path] = append(byPath[rc.Path], rc.Obj)
		}
	}
	var paths []string
	for k := range byPath {
		paths = append(paths, k)
	}
	sort.Strings(paths)
	for _, path := range paths {
		var bad []string
		seen := map[string]bool{}
		for _, o := range byPath[path] {
			if o.Kind == own.KAlloc || o.Kind == own.KNil {
				continue
			}
			if !seen[o.ID] {
				seen[o.ID] = true
				bad = append(bad, o.ID)
			}
		}
		disp := path
		if disp == "" {
			disp = "(result)"
		}
		r.Add("OWN.O4", fname, "result"+disp+" is fresh or nil", p.Position(fn.Pos()), len(bad) == 0,
			"shares memory with: "+strings.Join(bad, ", "))
	}
	if len(res.Returns) == 0 {
		r.Fatalf("%s: no return analysed", fname)
	}
	_ = fmt.Sprint
	return len(paths)
}
