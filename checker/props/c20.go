package props

import (
	"fmt"
	"go/ast"
	"go/token"
	"go/types"
	"os"
	"rtpcheck/bounds"
	"rtpcheck/lin"
	"sort"
	"strings"
	"sync"

	"golang.org/x/tools/go/ssa"

	"rtpcheck/core"
	"rtpcheck/own"
)

func init() { Registry["C20"] = c20 }

// C20 — Clone returns an equal, fully independent copy.
func c20(c *Ctx) {
	p, r := c.Prog, c.R
	r.Explain = "OWN O4 (deep copy): flow-sensitive origin analysis of Packet.Clone and Header.Clone; every reference " +
		"reachable from the returned value must be memory allocated inside Clone or nil. Decides independence through its " +
		"cause (no shared reference), for all packets; value equality of the copied bytes is not decided here. STRUCT.clone: every field of the result is written on every " +
		"path (or the original's is nil), from the same field of the original, and every fresh slice is filled from the slice whose length it takes. Every copy() made by Clone has a destination exactly as long as its source."
	n, nk := 0, 0
	for _, name := range []string{"rtp.(Packet).Clone", "rtp.(Header).Clone"} {
		fn := p.Func(name)
		if fn == nil {
			r.Fatalf("anchor %s not found", name)
			continue
		}
		n += deepCopyRule(c, fn)
		nk += cloneCoverage(c, fn)
	}
	r.Floor("reference paths checked in Clone results", n, 6)
	r.Floor("clone coverage rows (K1 fields, K2 stores, K3 fresh slices)", nk, 14)
	// equal lengths: every copy made by Clone fills a destination that is exactly as long as its source (a copy
	// allocated with the source's capacity, or one element short, is not an equal copy); decided by the linear
	// interpreter on every path, helpers included
	var entries []*ssa.Function
	for _, name := range []string{"rtp.(Packet).Clone", "rtp.(Header).Clone"} {
		if fn := p.Func(name); fn != nil {
			entries = append(entries, fn)
		}
	}
	copies := 0
	var mu sync.Mutex
	boundsRun(c, entries, &bounds.Hooks{AtInstr: func(h *bounds.Helper, fn *ssa.Function, in ssa.Instruction, d *bounds.Disjunct) {
		call, ok := in.(*ssa.Call)
		if !ok || core.BuiltinName(call) != "copy" || len(call.Call.Args) != 2 {
			return
		}
		mu.Lock()
		copies++
		mu.Unlock()
		// a destination that is re-read from a slice element (ext[i].payload = make(...); copy(ext[i].payload, ...))
		// is the value stored there a moment ago in the same block
		ld, ls := d.Len(forwardLoad(call.Call.Args[0])), d.Len(call.Call.Args[1])
		if ld == nil || ls == nil {
			h.Oblige("the copy's destination is exactly as long as its source", false, "lengths not tracked")
			return
		}
		q := lin.EQ(ld, ls)
		h.Oblige("the copy's destination is exactly as long as its source", d.Entails(q...), d.Describe(q[0])+" ; "+d.Describe(q[1]))
	}})
	if copies == 0 {
		r.Infof("CTR.clonelen: no copy() reached in Clone (element-wise copies are covered by STRUCT.clone K3 only)")
	}
	// a per-element buffer is made afresh for every element (not carried over from the previous one)
	accFreshFor(c, 1, "packet.go")
}

// deepCopyRule checks O4 on every return of fn and returns the number of reference paths seen.
func deepCopyRule(c *Ctx, fn *ssa.Function) int {
	p, r := c.Prog, c.R
	res := own.Analyze(p, fn)
	fname := core.FuncName(fn)
	if os.Getenv("RTPCHECK_DUMP") != "" {
		res.Dump()
	}
	// group by path across all returns
	byPath := map[string][]*own.Obj{}
	for _, rs := range res.Returns {
		for _, rc := range rs.Reach {
			byPath[rc.Path] = append(byPath[rc.Path], rc.Obj)
		}
	}
	var paths []string
	for k := range byPath {
		paths = append(paths, k)
	}
	sort.Strings(paths)
	for _, path := range paths {
		var bad []string
		seen := map[string]bool{}
		for _, o := range byPath[path] {
			if o.Kind == own.KAlloc || o.Kind == own.KNil {
				continue
			}
			if !seen[o.ID] {
				seen[o.ID] = true
				bad = append(bad, o.ID)
			}
		}
		disp := path
		if disp == "" {
			disp = "(result)"
		}
		r.Add("OWN.O4", fname, "result"+disp+" is fresh or nil", p.Position(fn.Pos()), len(bad) == 0,
			"shares memory with: "+strings.Join(bad, ", "))
	}
	if len(res.Returns) == 0 {
		r.Fatalf("%s: no return analysed", fname)
	}
	_ = fmt.Sprint
	return len(paths)
}

// ---- STRUCT.clone: field coverage, source agreement and fill of every fresh slice ---------------
//
// K1  on every path to a return every (non-deprecated) field of the result is written, or it is a
//     nilable field and the path is the one on which the source field is nil;
// K2  the value written to result.F is computed from source.F and from no other field;
// K3  every slice allocated with len(X) is filled from X (copy builtin dominated by the make, or an
//     element store m[i] = X[i]).
// Necessary conditions of "equal copy": a field skipped on one path, copied from a sibling field,
// or allocated but never filled makes the clone differ from the original for some packet.

func cloneCoverage(c *Ctx, fn *ssa.Function) int {
	p, r := c.Prog, c.R
	fname := core.FuncName(fn)
	pos := p.Position(fn.Pos())
	if len(fn.Params) == 0 {
		r.Fatalf("%s: no receiver", fname)
		return 0
	}
	src := fn.Params[0]
	srcRoots := map[ssa.Value]bool{src: true}
	// destination object: the Alloc that is returned (by pointer or by value)
	var dst *ssa.Alloc
	for _, b := range fn.Blocks {
		for _, in := range b.Instrs {
			switch x := in.(type) {
			case *ssa.Store:
				if x.Val == src {
					if a, ok := x.Addr.(*ssa.Alloc); ok {
						srcRoots[a] = true
					}
				}
			case *ssa.Return:
				if len(x.Results) != 1 {
					continue
				}
				v := x.Results[0]
				if u, ok := v.(*ssa.UnOp); ok && u.Op == token.MUL {
					v = u.X
				}
				if a, ok := v.(*ssa.Alloc); ok {
					if dst != nil && dst != a {
						r.Add("STRUCT.clone", fname, "one result object", pos, false, "different objects returned on different paths")
						return 1
					}
					dst = a
				}
			}
		}
	}
	if dst == nil {
		r.Add("STRUCT.clone", fname, "one result object", pos, false, "the returned value is not a local object")
		return 1
	}
	st, ok := dst.Type().Underlying().(*types.Pointer).Elem().Underlying().(*types.Struct)
	if !ok {
		r.Fatalf("%s: result is not a struct", fname)
		return 0
	}
	// srcPath: v is a load of a source location; returns its field path ("" = the whole source)
	var srcPath func(v ssa.Value) (string, bool)
	srcPath = func(v ssa.Value) (string, bool) {
		switch x := v.(type) {
		case *ssa.UnOp:
			if x.Op == token.MUL {
				root, path := core.AddrKey(x.X)
				if srcRoots[root] {
					return path, true
				}
			}
		case *ssa.Field:
			if base, ok := srcPath(x.X); ok {
				return base + "." + core.FieldOfValue(x), true
			}
		case *ssa.Parameter:
			if x == src {
				return "", true
			}
		}
		return "", false
	}
	// derive: source field paths a value is computed from (first path component only)
	var derive func(v ssa.Value, seen map[ssa.Value]bool, out map[string]bool)
	derive = func(v ssa.Value, seen map[ssa.Value]bool, out map[string]bool) {
		if seen[v] {
			return
		}
		seen[v] = true
		if path, ok := srcPath(v); ok {
			out[topField(path)] = true
			return
		}
		in, ok := v.(ssa.Instruction)
		if !ok {
			return
		}
		for _, op := range in.Operands(nil) {
			if *op != nil {
				derive(*op, seen, out)
			}
		}
	}
	n := 0
	// K2
	type dstStore struct {
		field string
		st    *ssa.Store
	}
	var stores []dstStore
	for _, b := range fn.Blocks {
		for _, in := range b.Instrs {
			if s, ok := in.(*ssa.Store); ok {
				root, path := core.AddrKey(s.Addr)
				if root == dst {
					stores = append(stores, dstStore{topField(path), s})
				}
			}
		}
	}
	for _, ds := range stores {
		from := map[string]bool{}
		derive(ds.st.Val, map[ssa.Value]bool{}, from)
		var names []string
		for f := range from {
			names = append(names, f)
		}
		sort.Strings(names)
		want := ds.field
		okv := len(names) == 1 && names[0] == want
		label := want
		if label == "" {
			label = "(whole value)"
		}
		n++
		r.Add("STRUCT.clone", fname, "K2: result."+label+" is computed from the same field of the original", p.Position(ds.st.Pos()), okv,
			"computed from: ["+strings.Join(names, ", ")+"]")
	}
	// K3
	for _, b := range fn.Blocks {
		for _, in := range b.Instrs {
			mk, ok := in.(*ssa.MakeSlice)
			if !ok {
				continue
			}
			lc, ok := mk.Len.(*ssa.Call)
			if !ok || core.BuiltinName(lc) != "len" {
				continue
			}
			x := lc.Call.Args[0]
			xu, ok := x.(*ssa.UnOp)
			if !ok || xu.Op != token.MUL {
				continue
			}
			xr, xp := core.AddrKey(xu.X)
			sameX := func(v ssa.Value) bool {
				u, ok := v.(*ssa.UnOp)
				if !ok || u.Op != token.MUL {
					return false
				}
				rr, pp := core.AddrKey(u.X)
				return rr == xr && pp == xp
			}
			// values that denote the fresh slice: mk itself or a load of an address it was stored to
			type akey struct {
				root ssa.Value
				path string
			}
			homes := map[akey]bool{}
			for _, ref := range *mk.Referrers() {
				if s, ok := ref.(*ssa.Store); ok && s.Val == mk {
					rr, pp := core.AddrKey(s.Addr)
					homes[akey{rr, pp}] = true
					// through an element pointer: &m2[i].payload has root &m2[i] (an IndexAddr chain is followed by AddrKey)
				}
			}
			isFresh := func(v ssa.Value) bool {
				if v == mk {
					return true
				}
				if u, ok := v.(*ssa.UnOp); ok && u.Op == token.MUL {
					rr, pp := core.AddrKey(u.X)
					return homes[akey{rr, pp}]
				}
				return false
			}
			filled := false
			for _, b2 := range fn.Blocks {
				if !(b == b2 || b.Dominates(b2)) {
					continue
				}
				for _, in2 := range b2.Instrs {
					switch y := in2.(type) {
					case *ssa.Call:
						if core.BuiltinName(y) == "copy" && isFresh(y.Call.Args[0]) && sameX(y.Call.Args[1]) {
							if b2 != b || core.Precedes(mk, y) {
								filled = true
							}
						}
					case *ssa.Store:
						// m[i] = X[i] (possibly through a loop variable)
						ia, ok := y.Addr.(*ssa.IndexAddr)
						if !ok || !isFresh(ia.X) {
							continue
						}
						if elementOf(y.Val, ia.Index, sameX, map[ssa.Value]bool{}) {
							filled = true
						}
					}
				}
			}
			n++
			r.Add("STRUCT.clone", fname, "K3: "+p.TextAt(mk.Pos(), "make")+" is filled from the slice whose length it takes", p.Position(mk.Pos()), filled,
				"no copy(<fresh>, <source>) dominated by the allocation and no element store fresh[i] = source[i]")
		}
	}
	// K1
	nilable := func(t types.Type) bool {
		switch t.Underlying().(type) {
		case *types.Slice, *types.Pointer, *types.Map, *types.Interface:
			return true
		}
		return false
	}
	type k1state struct {
		written map[string]bool
		nilSrc  map[string]bool
	}
	cl := func(s *k1state) *k1state {
		ns := &k1state{map[string]bool{}, map[string]bool{}}
		for k := range s.written {
			ns.written[k] = true
		}
		for k := range s.nilSrc {
			ns.nilSrc[k] = true
		}
		return ns
	}
	missing := map[string]string{} // field -> path description
	onPath := map[*ssa.BasicBlock]int{}
	seen := map[string]bool{}
	var trail []*ssa.BasicBlock
	nRet := 0
	var walk func(b *ssa.BasicBlock, s *k1state)
	walk = func(b *ssa.BasicBlock, s *k1state) {
		if onPath[b] >= 2 {
			return
		}
		var ks []string
		for k := range s.written {
			ks = append(ks, "w"+k)
		}
		for k := range s.nilSrc {
			ks = append(ks, "n"+k)
		}
		sort.Strings(ks)
		key := fmt.Sprint(b.Index, ks)
		if seen[key] && onPath[b] == 0 {
			return
		}
		seen[key] = true
		onPath[b]++
		trail = append(trail, b)
		defer func() { onPath[b]--; trail = trail[:len(trail)-1] }()
		for _, in := range b.Instrs {
			switch x := in.(type) {
			case *ssa.Store:
				root, path := core.AddrKey(x.Addr)
				if root == dst {
					s.written[topField(path)] = true
				}
			case *ssa.Return:
				nRet++
				for i := 0; i < st.NumFields(); i++ {
					f := st.Field(i)
					if fieldDeprecated(p, f) {
						continue
					}
					if s.written[""] || s.written[f.Name()] || (nilable(f.Type()) && s.nilSrc[f.Name()]) {
						continue
					}
					if _, dup := missing[f.Name()]; !dup {
						var ls []string
						for _, tb := range trail {
							for _, ti := range tb.Instrs {
								if ti.Pos().IsValid() {
									ls = append(ls, fmt.Sprint(p.Fset.Position(ti.Pos()).Line))
									break
								}
							}
						}
						missing[f.Name()] = "path through lines " + strings.Join(ls, ">")
					}
				}
				return
			case *ssa.If:
				var fld string
				nilOnTrue := false
				if bo, ok := x.Cond.(*ssa.BinOp); ok && (bo.Op == token.EQL || bo.Op == token.NEQ) {
					v, k := bo.X, bo.Y
					if core.IsNilConst(v) {
						v, k = k, v
					}
					if core.IsNilConst(k) {
						if path, ok := srcPath(v); ok && path != "" {
							fld = topField(path)
							if strings.Count(path, ".") > 1 || strings.Contains(path, "[") {
								fld = "" // a nested location, not the field itself
							}
							nilOnTrue = bo.Op == token.EQL
						}
					}
				}
				for i, succ := range b.Succs {
					ns := cl(s)
					if fld != "" && (i == 0) == nilOnTrue {
						ns.nilSrc[fld] = true
					}
					walk(succ, ns)
				}
				return
			case *ssa.Jump:
				walk(b.Succs[0], s)
				return
			}
		}
	}
	walk(fn.Blocks[0], &k1state{map[string]bool{}, map[string]bool{}})
	for i := 0; i < st.NumFields(); i++ {
		f := st.Field(i)
		if fieldDeprecated(p, f) {
			continue
		}
		n++
		why, bad := missing[f.Name()]
		r.Add("STRUCT.clone", fname, "K1: result."+f.Name()+" is written on every path (or the original's is nil)", pos, !bad && nRet > 0,
			"not written on the "+why)
	}
	return n
}

func topField(path string) string {
	path = strings.TrimPrefix(path, ".")
	for i, ch := range path {
		if ch == '.' || ch == '[' {
			return path[:i]
		}
	}
	return path
}

// elementOf: v is computed from X[idx] for a source slice X accepted by sameX: a load of X[idx], of a
// loop variable that holds it, a value built from it (composite literal, field, conversion) or the
// result of a call that receives something computed from it.
func elementOf(v ssa.Value, idx ssa.Value, sameX func(ssa.Value) bool, seen map[ssa.Value]bool) bool {
	if v == nil || seen[v] {
		return false
	}
	seen[v] = true
	var fromAlloc func(a ssa.Value) bool
	fromAlloc = func(a ssa.Value) bool {
		// some store into the local object (or one of its fields) carries an element
		refs := a.Referrers()
		if refs == nil {
			return false
		}
		for _, ref := range *refs {
			switch r := ref.(type) {
			case *ssa.Store:
				if r.Addr == a && elementOf(r.Val, idx, sameX, seen) {
					return true
				}
			case *ssa.FieldAddr:
				if fromAlloc(r) {
					return true
				}
			}
		}
		return false
	}
	switch x := v.(type) {
	case *ssa.UnOp:
		if x.Op != token.MUL {
			return elementOf(x.X, idx, sameX, seen)
		}
		switch a := x.X.(type) {
		case *ssa.IndexAddr:
			return a.Index == idx && sameX(a.X)
		case *ssa.Alloc:
			return fromAlloc(a)
		case *ssa.FieldAddr:
			root, _ := core.AddrKey(a)
			if al, ok := root.(*ssa.Alloc); ok {
				return fromAlloc(al)
			}
			if ia, ok := root.(*ssa.IndexAddr); ok {
				return ia.Index == idx && sameX(ia.X)
			}
		}
	case *ssa.Field:
		return elementOf(x.X, idx, sameX, seen)
	case *ssa.Convert:
		return elementOf(x.X, idx, sameX, seen)
	case *ssa.ChangeType:
		return elementOf(x.X, idx, sameX, seen)
	case *ssa.Call:
		for _, a := range x.Call.Args {
			if elementOf(a, idx, sameX, seen) {
				return true
			}
		}
	case *ssa.Phi:
		for _, e := range x.Edges {
			if elementOf(e, idx, sameX, seen) {
				return true
			}
		}
	}
	return false
}

// fieldDeprecated reports whether the struct field's doc comment marks it "Deprecated:".
func fieldDeprecated(p *core.Program, f *types.Var) bool {
	file := p.FileOf(f.Pos())
	if file == nil {
		return false
	}
	dep := false
	ast.Inspect(file, func(n ast.Node) bool {
		fl, ok := n.(*ast.Field)
		if !ok {
			return true
		}
		for _, nm := range fl.Names {
			if nm.Pos() == f.Pos() && fl.Doc != nil && strings.Contains(fl.Doc.Text(), "Deprecated:") {
				dep = true
			}
		}
		return true
	})
	return dep
}

// forwardLoad: when v is a load whose address was stored to earlier in the same block (same base, index and
// field values, no call or other store in between), the value stored; v otherwise.
func forwardLoad(v ssa.Value) ssa.Value {
	ld, ok := v.(*ssa.UnOp)
	if !ok || ld.Op != token.MUL {
		return v
	}
	var same func(a, b ssa.Value) bool
	same = func(a, b ssa.Value) bool {
		if a == b {
			return true
		}
		switch x := a.(type) {
		case *ssa.FieldAddr:
			y, ok := b.(*ssa.FieldAddr)
			return ok && x.Field == y.Field && same(x.X, y.X)
		case *ssa.IndexAddr:
			y, ok := b.(*ssa.IndexAddr)
			return ok && x.X == y.X && x.Index == y.Index
		}
		return false
	}
	b := ld.Block()
	idx := -1
	for i, in := range b.Instrs {
		if in == ssa.Instruction(ld) {
			idx = i
		}
	}
	for i := idx - 1; i >= 0; i-- {
		switch x := b.Instrs[i].(type) {
		case *ssa.Store:
			if same(x.Addr, ld.X) {
				return x.Val
			}
			return v
		case *ssa.Call:
			return v
		}
	}
	return v
}
