package bounds

import (
	"sort"
	"strings"

	"golang.org/x/tools/go/ssa"

	"rtpcheck/lin"
)

// descends reports whether frame x is cf or was created (transitively) under cf.
func (it *interp) descends(x, cf frameID) bool {
	for i := 0; i < 64 && x >= 0; i++ {
		if x == cf {
			return true
		}
		p := it.finfo[x].parent
		if p == x {
			return false
		}
		x = p
	}
	return false
}

func repVars(r rep, add func(int)) {
	for _, l := range []*lin.Lin{r.lin, r.len, r.cap, r.isnil} {
		if l != nil {
			for _, v := range l.Vars() {
				add(v)
			}
		}
	}
	for _, t := range r.tuple {
		repVars(t, add)
	}
}

// project summarises a disjunct returned from the expanded callee frame cf: the callee's SSA
// values are forgotten and the atoms that are no longer reachable from any live value or memory
// cell are eliminated from the facts (Fourier–Motzkin, exact; when an elimination would be too
// large the facts mentioning the atom are dropped, which is sound).
func (it *interp) project(d *disjunct, cf frameID) {
	// comparison-defined booleans that stay visible (results, memory cells) refer to callee
	// values: keep those operand values
	keep := map[valKey]bool{}
	var keepCmp func(r rep, depth int)
	keepCmp = func(r rep, depth int) {
		if depth > 6 {
			return
		}
		for _, t := range r.tuple {
			keepCmp(t, depth+1)
		}
		if r.cmp == nil {
			return
		}
		var ops []ssa.Value
		switch x := r.cmp.op.(type) {
		case *ssa.BinOp:
			ops = []ssa.Value{x.X, x.Y}
		case *ssa.UnOp:
			ops = []ssa.Value{x.X}
		}
		for _, o := range ops {
			k := valKey{r.cmp.f, o}
			if keep[k] {
				continue
			}
			keep[k] = true
			if rr, ok := d.vals[k]; ok {
				keepCmp(rr, depth+1)
			}
		}
	}
	for k, r := range d.vals {
		if !it.descends(k.f, cf) {
			keepCmp(r, 0)
		}
	}
	for _, c := range d.mem {
		if c != nil {
			keepCmp(c.val, 0)
		}
	}
	for _, r := range d.rets {
		keepCmp(r, 0)
	}
	for k := range d.vals {
		if it.descends(k.f, cf) && !keep[k] {
			delete(d.vals, k)
		}
	}
	it.eliminateUnreachable(d)
}

// eliminateUnreachable removes from the facts every atom that no live value, memory cell or pending result
// mentions (exact Fourier-Motzkin; facts are dropped when an elimination would be too large).
func (it *interp) eliminateUnreachable(d *disjunct) {
	live := map[int]bool{}
	add := func(v int) { live[v] = true }
	for _, r := range d.vals {
		repVars(r, add)
	}
	for _, c := range d.mem {
		if c != nil {
			repVars(c.val, add)
		}
	}
	for _, r := range d.rets {
		repVars(r, add)
	}
	// comparison-defined booleans keep their operands alive
	for _, r := range d.vals {
		if r.cmp != nil {
			// operands are SSA values of a live frame; their reps are in d.vals already
			_ = r
		}
	}
	dead := map[int]bool{}
	for _, q := range d.facts {
		for _, v := range q.L.Vars() {
			if !live[v] {
				dead[v] = true
			}
		}
	}
	if len(dead) == 0 {
		return
	}
	facts := d.facts
	for len(dead) > 0 {
		// pick the dead atom with the cheapest elimination
		best, bestCost := -1, 1<<30
		var order []int
		for v := range dead {
			order = append(order, v)
		}
		sort.Ints(order)
		for _, v := range order {
			p, n := 0, 0
			for _, q := range facts {
				if c := coefOf(q.L, v); c > 0 {
					p++
				} else if c < 0 {
					n++
				}
			}
			if cost := p * n; cost < bestCost {
				best, bestCost = v, cost
			}
		}
		v := best
		delete(dead, v)
		var pos, neg, rest []lin.Ineq
		for _, q := range facts {
			switch c := coefOf(q.L, v); {
			case c > 0:
				pos = append(pos, q)
			case c < 0:
				neg = append(neg, q)
			default:
				rest = append(rest, q)
			}
		}
		// an equality that defines v (coefficient +-1, both directions present) is substituted:
		// exact, and no blow-up
		substituted := false
		for _, pq := range pos {
			if coefOf(pq.L, v) != 1 {
				continue
			}
			negKey := lin.Ineq{L: pq.L.Scale(-1)}.Key()
			for _, nq := range neg {
				if nq.Key() != negKey {
					continue
				}
				// pq: v + e <= 0 and nq: -v - e <= 0, hence v = -e
				e := pq.L.Subst(v, lin.Const(0))
				def := e.Scale(-1)
				if def.Bad() {
					continue
				}
				for _, q := range append(append([]lin.Ineq(nil), pos...), neg...) {
					if q.Key() == pq.Key() || q.Key() == nq.Key() {
						continue
					}
					r := q.L.Subst(v, def)
					if r.Bad() || r.Has(v) {
						continue
					}
					nqq := lin.Ineq{L: r}
					if triv, _ := nqq.Trivial(); triv {
						continue
					}
					rest = append(rest, nqq)
				}
				substituted = true
				break
			}
			if substituted {
				break
			}
		}
		if substituted {
			facts = rest
			continue
		}
		if len(pos)*len(neg) <= 12 {
			for _, p := range pos {
				for _, n := range neg {
					a, b := coefOf(p.L, v), -coefOf(n.L, v)
					r := p.L.Scale(b).Add(n.L.Scale(a))
					if r.Bad() || r.Has(v) {
						continue
					}
					rest = append(rest, lin.Ineq{L: r})
				}
			}
		}
		facts = rest
	}
	d.facts = nil
	d.fkeys = map[string]bool{}
	for _, q := range facts {
		d.addFact(q)
	}
}

func coefOf(l *lin.Lin, v int) int64 {
	if !l.Has(v) {
		return 0
	}
	// Subst v:=0 and v:=1 difference gives the coefficient
	a := l.Subst(v, lin.Const(1))
	b := l.Subst(v, lin.Const(0))
	d := a.Sub(b)
	c, _ := d.ConstVal()
	return c
}

// sigOf is a canonical description of a disjunct used to drop exact duplicates.
func (it *interp) sigOf(d *disjunct) string {
	var parts []string
	for k := range d.fkeys {
		parts = append(parts, k)
	}
	sort.Strings(parts)
	var sb strings.Builder
	for _, p := range parts {
		sb.WriteString(p)
		sb.WriteByte(0)
	}
	repSig := func(r rep) {
		for _, l := range []*lin.Lin{r.lin, r.len, r.cap, r.isnil} {
			if l != nil {
				sb.WriteString(l.Key())
			}
			sb.WriteByte(1)
		}
		if r.cmp != nil {
			sb.WriteString("cmp")
			sb.WriteString(r.cmp.op.Name())
			if r.cmp.neg {
				sb.WriteByte('!')
			}
		}
		if r.at != nil {
			sb.WriteString(r.at.key())
		}
	}
	var vk []string
	tmp := map[string]rep{}
	for k, r := range d.vals {
		s := k.v.Name() + "@" + string(rune('0'+int(k.f)%64)) + addrOfValue(k)
		vk = append(vk, s)
		tmp[s] = r
	}
	sort.Strings(vk)
	for _, s := range vk {
		sb.WriteString(s)
		repSig(tmp[s])
		for _, t := range tmp[s].tuple {
			repSig(t)
		}
	}
	var mk []string
	for k := range d.mem {
		mk = append(mk, k)
	}
	sort.Strings(mk)
	for _, k := range mk {
		sb.WriteString(k)
		if c := d.mem[k]; c != nil {
			repSig(c.val)
		}
	}
	for _, r := range d.rets {
		repSig(r)
		for _, t := range r.tuple {
			repSig(t)
		}
	}
	return sb.String()
}

func addrOfValue(k valKey) string { return "" }

// dedupe removes exact duplicates.
func (it *interp) dedupe(s *state) *state {
	seen := map[string]bool{}
	out := &state{}
	for _, d := range s.ds {
		sg := it.sigOf(d)
		if seen[sg] {
			continue
		}
		seen[sg] = true
		out.ds = append(out.ds, d)
	}
	return out
}

// projectIter prepares a disjunct that has just taken a back edge of an unrolled loop for the next
// iteration: the SSA values computed by the iteration (isDead) are about to be computed again, so nothing
// may keep referring to their atoms. Live representations (head phis, values defined outside the loop,
// memory cells) that mention such an atom are re-expressed through a fresh atom tied to the old
// expression by an equality; then the iteration's values are forgotten and their atoms eliminated.
func (it *interp) projectIter(d *disjunct, isDead func(k valKey) bool) {
	deadAtom := func(v int) bool {
		if v < 0 || v >= len(it.at.info) {
			return false
		}
		in := it.at.info[v]
		switch in.kind {
		case aVal, aLen, aCap, aNil:
			return in.key.v != nil && isDead(in.key)
		}
		return false
	}
	fresh := func(l *lin.Lin, what string) *lin.Lin {
		if l == nil || l.Bad() {
			return l
		}
		hit := false
		for _, v := range l.Vars() {
			if deadAtom(v) {
				hit = true
			}
		}
		if !hit {
			return l
		}
		a := lin.Var(it.at.fresh(what))
		d.addFacts(lin.EQ(a, l)...)
		return a
	}
	var fix func(r rep) rep
	fix = func(r rep) rep {
		r.lin = fresh(r.lin, "it")
		r.len = fresh(r.len, "itlen")
		r.cap = fresh(r.cap, "itcap")
		r.isnil = fresh(r.isnil, "itnil")
		if r.cmp != nil && (isDead(valKey{r.cmp.f, r.cmp.op})) {
			r.cmp = nil
			if r.lin == nil {
				id := it.at.fresh("itbool")
				it.at.setRange(id, 0, 1, true, true)
				r.lin = lin.Var(id)
			}
		}
		if r.at != nil && isDead(r.at.root) {
			r.at = nil
		}
		if r.clos != nil && isDead(valKey{r.clos.f, r.clos.mc}) {
			r.clos = nil
		}
		for i := range r.tuple {
			r.tuple[i] = fix(r.tuple[i])
		}
		return r
	}
	for k, r := range d.vals {
		if isDead(k) {
			continue
		}
		d.vals[k] = fix(r)
	}
	for k, c := range d.mem {
		if c == nil {
			continue
		}
		if c.a.root.v != nil && isDead(c.a.root) {
			delete(d.mem, k) // a cell of an object allocated by the iteration
			continue
		}
		nv := fix(c.val)
		d.mem[k] = &memCell{a: c.a, typ: c.typ, val: nv}
	}
	for k := range d.vals {
		if isDead(k) {
			delete(d.vals, k)
		}
	}
	d.memo = nil
	it.eliminateUnreachable(d)
}
