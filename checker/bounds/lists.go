package bounds

import (
	"fmt"
	"go/types"
	"sort"
	"strings"

	"golang.org/x/tools/go/ssa"

	"rtpcheck/lin"
)

// ---- last-element tracking for slices of slices ---------------------------------------------------
//
// Slice elements are not memory cells of the interpreter (addrOf). For a slice of slices that is grown
// with append and whose *last* element is then extended in place — the AV1 payloader's list of packets —
// one ghost cell per list value is kept: "the element at index len-1". A list value has an identity
// (rep.lst): the SSA value that produced it (an append, or the first value through which it is indexed).
// append(list, e) yields a new identity whose last element is e; IndexAddr(list, i) yields the address
// of the ghost cell when the path condition entails i = len(list)-1, an untracked address when it
// entails i <= len(list)-2, and a may-be-last address otherwise (a store through it forgets the cell).
// Two identities never share their last cell: the older one is a prefix of the newer one, so its last
// index is not the newer one's last index. A store through any other pointer to the element type
// forgets the cell (store's type-based alias rule); so does a call that may write memory (havoc).

func isListType(t types.Type) bool {
	sl, ok := t.Underlying().(*types.Slice)
	if !ok {
		return false
	}
	_, ok = sl.Elem().Underlying().(*types.Slice)
	return ok
}

func (it *interp) listID(f frameID, v ssa.Value) int {
	if it.listIDs == nil {
		it.listIDs = map[valKey]int{}
	}
	k := valKey{f, v}
	if id, ok := it.listIDs[k]; ok {
		return id
	}
	id := len(it.listIDs) + 1
	it.listIDs[k] = id
	return id
}

func listAddr(id int, what string) addr {
	return addr{root: valKey{f: -2}, path: fmt.Sprintf("L%d.%s", id, what)}
}

func isListAddr(a addr) bool { return a.root.f == -2 && a.root.v == nil && strings.HasPrefix(a.path, "L") }

// listElemAddr resolves &list[i] for a slice of slices.
func (it *interp) listElemAddr(d *disjunct, f frameID, x *ssa.IndexAddr) (addr, bool) {
	if !isListType(x.X.Type()) {
		return addr{}, false
	}
	lr := it.repOf(d, f, x.X)
	if lr.kind != kSlice || lr.len == nil {
		return listAddr(0, "maybe"), true // a list the interpreter knows nothing about: may be any tracked one
	}
	if lr.lst == 0 {
		lr.lst = it.listID(f, x.X)
		d.vals[valKey{f, x.X}] = lr
	}
	i := it.intLin(d, f, x.Index)
	last := lr.len.AddConst(-1)
	switch {
	case it.entailsAll(d, lin.EQ(i, last)):
		return listAddr(lr.lst, "last"), true
	case it.entails(d, lin.LE(i, last.AddConst(-1))):
		return listAddr(lr.lst, "before"), true // an element before the last one: not tracked, and not the ghost cell
	}
	return listAddr(lr.lst, "maybe"), true
}

// listAppend: the representation of append(list, elems...) for a slice of slices; res is the plain
// length/capacity representation already built.
func (it *interp) listAppend(d *disjunct, f frameID, x *ssa.Call, res rep) rep {
	if !isListType(x.Type()) {
		return res
	}
	res.lst = it.listID(f, x)
	k := listAddr(res.lst, "last")
	delete(d.mem, k.key())
	args := x.Call.Args
	if len(args) != 2 {
		return res
	}
	// append(list, e): the variadic argument is a slice of a fresh one-element array holding e
	sl, ok := args[1].(*ssa.Slice)
	if !ok {
		return res
	}
	arr, ok := sl.X.(*ssa.Alloc)
	if !ok {
		return res
	}
	n, isArr := arrayLen(arr.Type().Underlying().(*types.Pointer).Elem())
	if !isArr || n < 1 {
		return res
	}
	ea := addr{root: valKey{f, arr}, path: fmt.Sprintf("[%d]", n-1)}
	if c, ok := d.mem[ea.key()]; ok && c.val.kind == kSlice {
		d.mem[k.key()] = &memCell{a: k, val: c.val, typ: c.typ}
	}
	return res
}

// listSig names the ghost cells a path condition holds (merge heuristic: paths that hold different
// ones are merged last).
func listSig(d *disjunct) string {
	var ks []string
	for k, c := range d.mem {
		if c != nil && isListAddr(c.a) {
			ks = append(ks, k)
		}
	}
	if len(ks) == 0 {
		return ""
	}
	sort.Strings(ks)
	return strings.Join(ks, ",")
}
