package bounds

import (
	"fmt"
	"go/types"
	"strings"

	"golang.org/x/tools/go/ssa"

	"rtpcheck/core"
	"rtpcheck/lin"
)

// stdlib model: callees outside the module that neither panic (beyond the stated precondition)
// nor modify memory visible to the analysed code.
type extModel struct {
	preLen  int64 // required length of the slice argument (0 = none)
	preArg  int   // index of that argument in Call.Args
	nonNil  bool  // result is a non-nil error/pointer
	special string
}

var extModels = map[string]extModel{
	"(encoding/binary.bigEndian).Uint16":       {preLen: 2, preArg: 1},
	"(encoding/binary.bigEndian).Uint32":       {preLen: 4, preArg: 1},
	"(encoding/binary.bigEndian).Uint64":       {preLen: 8, preArg: 1},
	"(encoding/binary.bigEndian).PutUint16":    {preLen: 2, preArg: 1},
	"(encoding/binary.bigEndian).PutUint32":    {preLen: 4, preArg: 1},
	"(encoding/binary.bigEndian).PutUint64":    {preLen: 8, preArg: 1},
	"(encoding/binary.bigEndian).AppendUint32": {special: "append4"},
	"bytes.Index":                 {special: "index"},
	"fmt.Errorf":                  {nonNil: true},
	"errors.New":                  {nonNil: true},
	"fmt.Sprintf":                 {},
	"fmt.Sprint":                  {},
	"errors.Is":                   {},
	"strings.Join":                {},
	"time.Now":                    {},
	"time.Unix":                   {},
	"(time.Time).UnixNano":        {},
	"(time.Duration).Nanoseconds": {},
	"(*sync.Mutex).Lock":          {},
	"(*sync.Mutex).Unlock":        {},
	"github.com/pion/randutil.NewMathRandomGenerator": {},
}

func (it *interp) execCall(s *state, f frameID, fn *ssa.Function, x *ssa.Call) *state {
	cc := x.Common()
	set := func(mk func(d *disjunct) rep) {
		for _, d := range s.ds {
			d.vals[valKey{f, x}] = mk(d)
		}
	}
	if b, ok := cc.Value.(*ssa.Builtin); ok {
		switch b.Name() {
		case "len":
			set(func(d *disjunct) rep { l, _ := it.lenCap(d, f, cc.Args[0]); return rep{kind: kInt, lin: l} })
		case "cap":
			set(func(d *disjunct) rep { _, c := it.lenCap(d, f, cc.Args[0]); return rep{kind: kInt, lin: c} })
		case "append":
			set(func(d *disjunct) rep {
				la, _ := it.lenCap(d, f, cc.Args[0])
				nl := la
				if len(cc.Args) > 1 {
					lb, _ := it.lenCap(d, f, cc.Args[1])
					nl = la.Add(lb)
				}
				_, c := it.lenAtom(f, x)
				d.addFact(lin.LE(nl, c))
				r := rep{kind: kSlice, len: nl, cap: c, isnil: it.nilAtom(f, x)}
				return r
			})
		case "copy":
			out := &state{}
			used := len(*x.Referrers()) > 0
			for _, d := range s.ds {
				ld, _ := it.lenCap(d, f, cc.Args[0])
				ls, _ := it.lenCap(d, f, cc.Args[1])
				if !used {
					d.vals[valKey{f, x}] = rep{kind: kInt, lin: it.valAtom(f, x)}
					out.ds = append(out.ds, d)
					continue
				}
				// n = min(len(dst), len(src)): split
				d1 := d.clone()
				d1.addFact(lin.LE(ls, ld))
				d1.vals[valKey{f, x}] = rep{kind: kInt, lin: ls}
				d2 := d
				d2.addFact(lin.LT(ld, ls))
				d2.vals[valKey{f, x}] = rep{kind: kInt, lin: ld}
				if it.feasible(d1) {
					out.ds = append(out.ds, d1)
				}
				if it.feasible(d2) {
					out.ds = append(out.ds, d2)
				}
			}
			return out
		case "min", "max":
			if len(cc.Args) == 2 && kindOf(x.Type()) == kInt {
				out := &state{}
				isMin := b.Name() == "min"
				for _, d := range s.ds {
					a, bb := it.intLin(d, f, cc.Args[0]), it.intLin(d, f, cc.Args[1])
					d1 := d.clone()
					d1.addFact(lin.LE(a, bb))
					d2 := d
					d2.addFact(lin.LT(bb, a))
					if isMin {
						d1.vals[valKey{f, x}] = rep{kind: kInt, lin: a}
						d2.vals[valKey{f, x}] = rep{kind: kInt, lin: bb}
					} else {
						d1.vals[valKey{f, x}] = rep{kind: kInt, lin: bb}
						d2.vals[valKey{f, x}] = rep{kind: kInt, lin: a}
					}
					if it.feasible(d1) {
						out.ds = append(out.ds, d1)
					}
					if it.feasible(d2) {
						out.ds = append(out.ds, d2)
					}
				}
				return out
			}
			set(func(d *disjunct) rep { return it.freshRep(d, f, x, x.Type()) })
		default:
			if x.Type() != nil {
				set(func(d *disjunct) rep { return it.freshRep(d, f, x, x.Type()) })
			}
		}
		return s
	}
	name := core.CalleeFullName(x)
	callee := cc.StaticCallee()
	if callee != nil && !cc.IsInvoke() {
		if core.InModule(callee) && len(callee.Blocks) > 0 {
			return it.inline(s, f, fn, x, callee, nil)
		}
		if m, ok := extModels[name]; ok {
			if m.preLen > 0 {
				it.need(s, fn, x, "PRE", shortName(name), func(d *disjunct) []lin.Ineq {
					l, _ := it.lenCap(d, f, cc.Args[m.preArg])
					return []lin.Ineq{lin.GE(l, lin.Const(m.preLen))}
				})
			}
			switch m.special {
			case "append4":
				set(func(d *disjunct) rep {
					la, _ := it.lenCap(d, f, cc.Args[1])
					_, c := it.lenAtom(f, x)
					nl := la.AddConst(4)
					d.addFact(lin.LE(nl, c))
					return rep{kind: kSlice, len: nl, cap: c, isnil: lin.Const(0)}
				})
			case "index":
				out := &state{}
				for _, d := range s.ds {
					ls, _ := it.lenCap(d, f, cc.Args[0])
					lp, _ := it.lenCap(d, f, cc.Args[1])
					d1 := d.clone()
					d1.vals[valKey{f, x}] = rep{kind: kInt, lin: lin.Const(-1)}
					d2 := d
					r := it.valAtom(f, x)
					d2.vals[valKey{f, x}] = rep{kind: kInt, lin: r}
					d2.addFact(lin.GE(r, lin.Const(0)))
					d2.addFact(lin.LE(r.Add(lp), ls))
					out.ds = append(out.ds, d1)
					if it.feasible(d2) {
						out.ds = append(out.ds, d2)
					}
				}
				return out
			default:
				set(func(d *disjunct) rep {
					r := it.freshRep(d, f, x, x.Type())
					if m.nonNil && r.kind == kPtr {
						r.isnil = lin.Const(0)
					}
					return r
				})
			}
			return s
		}
		// unmodelled external callee
		it.oblige(fn, x, "EXT", shortName(name), false, func() string { return "call to an external function that is not in the stdlib model" })
	}
	// dynamic call through a closure value created in an analysed frame: expand it in place
	if !cc.IsInvoke() && len(s.ds) > 0 {
		var cr *closRef
		same := true
		for i, d := range s.ds {
			r := it.repOf(d, f, cc.Value)
			if i == 0 {
				cr = r.clos
			} else if (r.clos == nil) != (cr == nil) || (cr != nil && *r.clos != *cr) {
				same = false
			}
		}
		if same && cr != nil {
			if cf, ok := cr.mc.Fn.(*ssa.Function); ok && len(cf.Blocks) > 0 {
				it.inlinedClosures[cf] = true
				return it.inlineClosure(s, f, fn, x, cf, cr)
			}
		}
	}
	// unknown callee: forget memory it may change; result unconstrained
	escaped := map[string]bool{}
	for _, d := range s.ds {
		for _, a := range cc.Args {
			if kindOf(a.Type()) == kPtr {
				if ad, ok := it.addrOf(d, f, a); ok {
					escaped[fmt.Sprintf("%d:%p", ad.root.f, ad.root.v)] = true
				}
			}
		}
		it.havoc(d, escaped)
		if x.Type() != nil {
			d.vals[valKey{f, x}] = it.freshRep(d, f, x, x.Type())
		}
	}
	return s
}

func shortName(n string) string {
	if i := strings.LastIndex(n, "/"); i >= 0 {
		return n[i+1:]
	}
	return n
}

// inline interprets callee in place.
// inlineClosure expands a closure whose captured variables are evaluated in the frame that
// created it.
func (it *interp) inlineClosure(s *state, f frameID, fn *ssa.Function, x *ssa.Call, callee *ssa.Function, cr *closRef) *state {
	it.bindFrame = &cr.f
	defer func() { it.bindFrame = nil }()
	return it.inline(s, f, fn, x, callee, cr.mc.Bindings)
}

func (it *interp) inline(s *state, f frameID, fn *ssa.Function, x *ssa.Call, callee *ssa.Function, bindings []ssa.Value) *state {
	bf := f
	if it.bindFrame != nil {
		bf = *it.bindFrame
		it.bindFrame = nil
	}
	if it.finfo[f].depth >= it.maxDepth {
		it.oblige(fn, x, "EXT", "inline depth exceeded: "+core.FuncName(callee), false, func() string { return "call chain deeper than the expansion bound" })
		for _, d := range s.ds {
			it.havoc(d, nil)
			if x.Type() != nil {
				d.vals[valKey{f, x}] = it.freshRep(d, f, x, x.Type())
			}
		}
		return s
	}
	// recursion guard
	for p := f; p >= 0; p = it.finfo[p].parent {
		if it.finfo[p].fn == callee {
			it.oblige(fn, x, "EXT", "recursive call: "+core.FuncName(callee), false, func() string { return "recursion is not supported" })
			return s
		}
		if it.finfo[p].parent == p {
			break
		}
	}
	it.funcs[callee] = true
	cf := it.frameFor(f, x, callee)
	args := x.Common().Args
	for _, d := range s.ds {
		for i, p := range callee.Params {
			if i < len(args) {
				d.vals[valKey{cf, p}] = it.repOf(d, f, args[i])
			}
		}
		for i, fv := range callee.FreeVars {
			if i < len(bindings) {
				d.vals[valKey{cf, fv}] = it.repOf(d, bf, bindings[i])
			}
		}
	}
	it.retStack = append(it.retStack, nil)
	it.runRegion(cf, callee, nil, callee.Blocks[0], s)
	rets := it.retStack[len(it.retStack)-1]
	it.retStack = it.retStack[:len(it.retStack)-1]
	out := &state{}
	canProject := len(callee.AnonFuncs) == 0
	for _, d := range rets {
		switch {
		case len(d.rets) == 1:
			d.vals[valKey{f, x}] = d.rets[0]
		case len(d.rets) > 1:
			d.vals[valKey{f, x}] = rep{kind: kTuple, tuple: d.rets}
		}
		d.rets = nil
		if canProject {
			it.project(d, cf)
		}
		out.ds = append(out.ds, d)
	}
	if canProject && len(out.ds) > 1 {
		out = it.dedupe(out)
	}
	// summarise: callee-internal path distinctions rarely matter to the caller; keep at most
	// retCap disjuncts (reduce never merges an error return with a success return if avoidable)
	if len(out.ds) > it.retCap {
		saveK := it.K
		it.K = it.retCap
		out = it.reduce(out)
		it.K = saveK
	}
	return out
}

var _ = types.Identical
