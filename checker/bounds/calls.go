package bounds

import (
	"os"
	"go/token"
	"fmt"
	"go/types"
	"strings"

	"golang.org/x/tools/go/ssa"

	"rtpcheck/core"
	"rtpcheck/lin"
)

// stdlib model: callees outside the module that neither panic (beyond the stated precondition)
// nor modify memory visible to the analysed code.
type extModel struct {
	preLen  int64 // required length of the slice argument (0 = none)
	preArg  int   // index of that argument in Call.Args
	nonNil  bool  // result is a non-nil error/pointer
	special string
}

var extModels = map[string]extModel{
	"(encoding/binary.bigEndian).Uint16":       {preLen: 2, preArg: 1},
	"(encoding/binary.bigEndian).Uint32":       {preLen: 4, preArg: 1},
	"(encoding/binary.bigEndian).Uint64":       {preLen: 8, preArg: 1},
	"(encoding/binary.bigEndian).PutUint16":    {preLen: 2, preArg: 1},
	"(encoding/binary.bigEndian).PutUint32":    {preLen: 4, preArg: 1},
	"(encoding/binary.bigEndian).PutUint64":    {preLen: 8, preArg: 1},
	"(encoding/binary.bigEndian).AppendUint16": {special: "append2"},
	"(encoding/binary.bigEndian).AppendUint32": {special: "append4"},
	"(encoding/binary.bigEndian).AppendUint64": {special: "append8"},
	"math/bits.Len":               {special: "bitlen64"},
	"math/bits.Len64":             {special: "bitlen64"},
	"math/bits.Len32":             {special: "bitlen32"},
	"math/bits.Len16":             {special: "bitlen16"},
	"math/bits.Len8":              {special: "bitlen8"},
	"encoding/binary.PutUvarint":  {preLen: 10, preArg: 0, special: "putuvarint"},
	"bytes.Clone":                 {special: "clone"},
	"slices.Clone":                {special: "clone"},
	"bytes.Index":                 {special: "index"},
	"fmt.Errorf":                  {nonNil: true},
	"errors.New":                  {nonNil: true},
	"fmt.Sprintf":                 {},
	"fmt.Sprint":                  {},
	"errors.Is":                   {},
	"strings.Join":                {},
	"time.Now":                    {},
	"time.Unix":                   {},
	"(time.Time).UnixNano":        {},
	"(time.Duration).Nanoseconds": {},
	"(*sync.Mutex).Lock":          {},
	"(*sync.Mutex).Unlock":        {},
	"github.com/pion/randutil.NewMathRandomGenerator": {},
}

func (it *interp) execCall(s *state, f frameID, fn *ssa.Function, x *ssa.Call) *state {
	cc := x.Common()
	set := func(mk func(d *disjunct) rep) {
		for _, d := range s.ds {
			d.vals[valKey{f, x}] = mk(d)
		}
	}
	if b, ok := cc.Value.(*ssa.Builtin); ok {
		switch b.Name() {
		case "len":
			set(func(d *disjunct) rep { l, _ := it.lenCap(d, f, cc.Args[0]); return rep{kind: kInt, lin: l} })
		case "cap":
			set(func(d *disjunct) rep { _, c := it.lenCap(d, f, cc.Args[0]); return rep{kind: kInt, lin: c} })
		case "append":
			set(func(d *disjunct) rep {
				la, _ := it.lenCap(d, f, cc.Args[0])
				nl := la
				if len(cc.Args) > 1 {
					lb, _ := it.lenCap(d, f, cc.Args[1])
					nl = la.Add(lb)
				}
				_, c := it.lenAtom(f, x)
				d.addFact(lin.LE(nl, c))
				r := rep{kind: kSlice, len: nl, cap: c, isnil: it.nilAtom(f, x)}
				return it.listAppend(d, f, x, r)
			})
		case "copy":
			out := &state{}
			used := len(*x.Referrers()) > 0
			for _, d := range s.ds {
				ld, _ := it.lenCap(d, f, cc.Args[0])
				ls, _ := it.lenCap(d, f, cc.Args[1])
				if !used {
					d.vals[valKey{f, x}] = rep{kind: kInt, lin: it.valAtom(f, x)}
					out.ds = append(out.ds, d)
					continue
				}
				// n = min(len(dst), len(src)): split
				d1 := d.clone()
				d1.addFact(lin.LE(ls, ld))
				d1.vals[valKey{f, x}] = rep{kind: kInt, lin: ls}
				d2 := d
				d2.addFact(lin.LT(ld, ls))
				d2.vals[valKey{f, x}] = rep{kind: kInt, lin: ld}
				if it.feasible(d1) {
					out.ds = append(out.ds, d1)
				}
				if it.feasible(d2) {
					out.ds = append(out.ds, d2)
				}
			}
			return out
		case "min", "max":
			if len(cc.Args) == 2 && kindOf(x.Type()) == kInt {
				out := &state{}
				isMin := b.Name() == "min"
				for _, d := range s.ds {
					a, bb := it.intLin(d, f, cc.Args[0]), it.intLin(d, f, cc.Args[1])
					d1 := d.clone()
					d1.addFact(lin.LE(a, bb))
					d2 := d
					d2.addFact(lin.LT(bb, a))
					if isMin {
						d1.vals[valKey{f, x}] = rep{kind: kInt, lin: a}
						d2.vals[valKey{f, x}] = rep{kind: kInt, lin: bb}
					} else {
						d1.vals[valKey{f, x}] = rep{kind: kInt, lin: bb}
						d2.vals[valKey{f, x}] = rep{kind: kInt, lin: a}
					}
					if it.feasible(d1) {
						out.ds = append(out.ds, d1)
					}
					if it.feasible(d2) {
						out.ds = append(out.ds, d2)
					}
				}
				return out
			}
			set(func(d *disjunct) rep { return it.freshRep(d, f, x, x.Type()) })
		default:
			if x.Type() != nil {
				set(func(d *disjunct) rep { return it.freshRep(d, f, x, x.Type()) })
			}
		}
		return s
	}
	name := core.CalleeFullName(x)
	callee := cc.StaticCallee()
	if callee != nil && !cc.IsInvoke() {
		if core.InModule(callee) && len(callee.Blocks) > 0 {
			if ms := it.modular[name]; ms != nil {
				// analysed as an entry of its own under ms.Pre: here only the precondition is owed
				it.need(s, fn, x, "PRE", shortName(name)+": "+ms.Text, func(d *disjunct) []lin.Ineq {
					return ms.Pre(&Disjunct{d: d, it: it, f: f}, cc.Args)
				})
				it.lemmasUsed["modular:"+shortName(name)] = true
				pure := it.writesNoMemory(callee, 0)
				if ms.Post != nil && kindOf(x.Type()) == kInt {
					out := &state{}
					for _, d := range s.ds {
						if !pure {
							it.havoc(d, nil)
						}
						res := it.valAtom(f, x)
						d.vals[valKey{f, x}] = rep{kind: kInt, lin: res}
						common, alts := ms.Post(&Disjunct{d: d, it: it, f: f}, cc.Args, res)
						d.addFacts(common...)
						for _, a := range alts {
							nd := d.clone()
							nd.addFacts(a.Guard...)
							nd.addFacts(a.Concl...)
							if it.feasible(nd) {
								out.ds = append(out.ds, nd)
							}
						}
					}
					return out
				}
				for _, d := range s.ds {
					if !pure {
						it.havoc(d, nil)
					}
					if x.Type() != nil {
						d.vals[valKey{f, x}] = it.freshRep(d, f, x, x.Type())
					}
				}
				return s
			}
			if it.lemmas[name] == "leb128len" && len(cc.Args) == 1 && kindOf(x.Type()) == kSlice {
				return it.leb128LenLemma(s, f, x)
			}
			if kindOf(x.Type()) == kInt && it.writesNoMemory(callee, 0) {
				// a function of its arguments and of memory it only reads: a repeated call with the same
				// arguments and unchanged memory returns what the first call returned
				argReps := func(d *disjunct) []rep {
					var rs []rep
					for _, a := range cc.Args {
						rs = append(rs, it.repOf(d, f, a))
					}
					return rs
				}
				hit, miss := &state{}, &state{}
				for _, d := range s.ds {
					ars := argReps(d)
					found := false
					for _, me := range d.memo {
						if me.callee != callee || len(me.args) != len(ars) {
							continue
						}
						same := true
						for i := range ars {
							if !repEqual(ars[i], me.args[i]) {
								same = false
							}
						}
						if same {
							d.vals[valKey{f, x}] = me.res
							found = true
							break
						}
					}
					if os.Getenv("RTPCHECK_MEMODBG") != "" {
						fmt.Printf("MEMO %s at %s: found=%v memo=%d record=%v\n", callee.Name(), x.Name(), found, len(d.memo), it.record)
					}
					if found {
						hit.ds = append(hit.ds, d)
					} else {
						miss.ds = append(miss.ds, d)
					}
				}
				if len(miss.ds) == 0 {
					return hit
				}
				out := it.inline(miss, f, fn, x, callee, nil)
				for _, d := range out.ds {
					if r, ok := d.vals[valKey{f, x}]; ok && r.kind == kInt && r.lin != nil {
						d.memo = append(d.memo[:len(d.memo):len(d.memo)], memoEnt{callee: callee, args: argReps(d), res: r, loads: it.loadTypes(callee, 0)})
					}
				}
				out.ds = append(out.ds, hit.ds...)
				return out
			}
			return it.inline(s, f, fn, x, callee, nil)
		}
		mname := name
		if i := strings.Index(mname, "["); i > 0 {
			mname = mname[:i] // instantiation of a generic function
		}
		if m, ok := extModels[mname]; ok {
			if m.preLen > 0 {
				it.need(s, fn, x, "PRE", shortName(name), func(d *disjunct) []lin.Ineq {
					l, _ := it.lenCap(d, f, cc.Args[m.preArg])
					return []lin.Ineq{lin.GE(l, lin.Const(m.preLen))}
				})
			}
			switch m.special {
			case "append2", "append4", "append8":
				k := map[string]int64{"append2": 2, "append4": 4, "append8": 8}[m.special]
				set(func(d *disjunct) rep {
					la, _ := it.lenCap(d, f, cc.Args[1])
					_, c := it.lenAtom(f, x)
					nl := la.AddConst(k)
					d.addFact(lin.LE(nl, c))
					return rep{kind: kSlice, len: nl, cap: c, isnil: lin.Const(0)}
				})
			case "bitlen64", "bitlen32", "bitlen16", "bitlen8":
				// number of significant bits: 0 <= r <= width, and r == 0 exactly when the argument is 0 is not
				// stated (only the range is needed for sizes computed from it)
				w := map[string]int64{"bitlen64": 64, "bitlen32": 32, "bitlen16": 16, "bitlen8": 8}[m.special]
				set(func(d *disjunct) rep {
					r := it.valAtom(f, x)
					d.addFact(lin.GE(r, lin.Const(0)))
					d.addFact(lin.LE(r, lin.Const(w)))
					return rep{kind: kInt, lin: r}
				})
			case "putuvarint":
				// writes 1..10 octets (MaxVarintLen64) at the start of the buffer, whose length >= 10 is the obligation above
				set(func(d *disjunct) rep {
					r := it.valAtom(f, x)
					d.addFact(lin.GE(r, lin.Const(1)))
					d.addFact(lin.LE(r, lin.Const(10)))
					return rep{kind: kInt, lin: r}
				})
			case "clone":
				// a copy of the argument: same length, nil stays nil
				set(func(d *disjunct) rep {
					src := it.repOf(d, f, cc.Args[0])
					la, _ := it.lenCap(d, f, cc.Args[0])
					_, c := it.lenAtom(f, x)
					d.addFact(lin.LE(la, c))
					r := rep{kind: kSlice, len: la, cap: c}
					if src.isnil != nil {
						r.isnil = src.isnil
					} else {
						r.isnil = it.nilAtom(f, x)
					}
					return r
				})
			case "index":
				out := &state{}
				for _, d := range s.ds {
					ls, _ := it.lenCap(d, f, cc.Args[0])
					lp, _ := it.lenCap(d, f, cc.Args[1])
					d1 := d.clone()
					d1.vals[valKey{f, x}] = rep{kind: kInt, lin: lin.Const(-1)}
					d2 := d
					r := it.valAtom(f, x)
					d2.vals[valKey{f, x}] = rep{kind: kInt, lin: r}
					d2.addFact(lin.GE(r, lin.Const(0)))
					d2.addFact(lin.LE(r.Add(lp), ls))
					out.ds = append(out.ds, d1)
					if it.feasible(d2) {
						out.ds = append(out.ds, d2)
					}
				}
				return out
			default:
				set(func(d *disjunct) rep {
					r := it.freshRep(d, f, x, x.Type())
					if m.nonNil && r.kind == kPtr {
						r.isnil = lin.Const(0)
					}
					return r
				})
			}
			return s
		}
		if pureStdlib(callee) {
			// a standard-library function without a specific model: it cannot reach this program's
			// memory except through its arguments, and its result is unconstrained
			for _, d := range s.ds {
				for _, a := range cc.Args {
					if _, isPtr := a.Type().Underlying().(*types.Pointer); isPtr {
						if ad, ok := it.addrOf(d, f, a); ok {
							prefix := fmt.Sprintf("%d:%p", ad.root.f, ad.root.v)
							for mk := range d.mem {
								if strings.HasPrefix(mk, prefix) {
									d.forget(mk)
								}
							}
							delete(d.mem, zeroMarker(ad))
						}
					}
				}
				if x.Type() != nil {
					d.vals[valKey{f, x}] = it.freshRep(d, f, x, x.Type())
				}
			}
			return s
		}
		// unmodelled external callee
		it.oblige(fn, x, "EXT", shortName(name), false, func() string { return "call to an external function that is not in the stdlib model" })
	}
	// dynamic call through a closure value created in an analysed frame: expand it in place
	if !cc.IsInvoke() && len(s.ds) > 0 {
		var cr *closRef
		same := true
		for i, d := range s.ds {
			r := it.repOf(d, f, cc.Value)
			if i == 0 {
				cr = r.clos
			} else if (r.clos == nil) != (cr == nil) || (cr != nil && *r.clos != *cr) {
				same = false
			}
		}
		if same && cr != nil {
			if cf, ok := cr.mc.Fn.(*ssa.Function); ok && len(cf.Blocks) > 0 {
				it.inlinedClosures[cf] = true
				return it.inlineClosure(s, f, fn, x, cf, cr)
			}
		}
	}
	// unknown callee: forget memory it may change; result unconstrained
	escaped := map[string]bool{}
	for _, d := range s.ds {
		for _, a := range cc.Args {
			if kindOf(a.Type()) == kPtr {
				if ad, ok := it.addrOf(d, f, a); ok {
					escaped[fmt.Sprintf("%d:%p", ad.root.f, ad.root.v)] = true
				}
			}
		}
		it.havoc(d, escaped)
		if x.Type() != nil {
			d.vals[valKey{f, x}] = it.freshRep(d, f, x, x.Type())
		}
	}
	return s
}

// pureStdlib: packages whose functions neither keep references to nor modify memory other than
// what their arguments point to (no callbacks into this module are passed to them here).
var pureStdlibPkgs = map[string]bool{"encoding/binary": true, "bytes": true, "slices": true, "errors": true, "fmt": true,
	"strings": true, "math": true, "math/bits": true, "time": true, "sort": true, "unicode/utf8": true, "strconv": true, "cmp": true}

func pureStdlib(fn *ssa.Function) bool {
	if fn == nil || fn.Pkg == nil || fn.Pkg.Pkg == nil {
		// generic instantiations have no Pkg: use the origin's package
		if fn != nil && fn.Origin() != nil && fn.Origin().Pkg != nil {
			return pureStdlibPkgs[fn.Origin().Pkg.Pkg.Path()]
		}
		return false
	}
	return pureStdlibPkgs[fn.Pkg.Pkg.Path()]
}

func shortName(n string) string {
	if i := strings.LastIndex(n, "/"); i >= 0 {
		return n[i+1:]
	}
	return n
}

// inline interprets callee in place.
// inlineClosure expands a closure whose captured variables are evaluated in the frame that
// created it.
func (it *interp) inlineClosure(s *state, f frameID, fn *ssa.Function, x *ssa.Call, callee *ssa.Function, cr *closRef) *state {
	it.bindFrame = &cr.f
	defer func() { it.bindFrame = nil }()
	return it.inline(s, f, fn, x, callee, cr.mc.Bindings)
}

func (it *interp) inline(s *state, f frameID, fn *ssa.Function, x *ssa.Call, callee *ssa.Function, bindings []ssa.Value) *state {
	bf := f
	if it.bindFrame != nil {
		bf = *it.bindFrame
		it.bindFrame = nil
	}
	if it.finfo[f].depth >= it.maxDepth {
		it.oblige(fn, x, "EXT", "inline depth exceeded: "+core.FuncName(callee), false, func() string { return "call chain deeper than the expansion bound" })
		for _, d := range s.ds {
			it.havoc(d, nil)
			if x.Type() != nil {
				d.vals[valKey{f, x}] = it.freshRep(d, f, x, x.Type())
			}
		}
		return s
	}
	// recursion guard
	for p := f; p >= 0; p = it.finfo[p].parent {
		if it.finfo[p].fn == callee {
			it.oblige(fn, x, "EXT", "recursive call: "+core.FuncName(callee), false, func() string { return "recursion is not supported" })
			return s
		}
		if it.finfo[p].parent == p {
			break
		}
	}
	it.funcs[callee] = true
	cf := it.frameFor(f, x, callee)
	args := x.Common().Args
	for _, d := range s.ds {
		for i, p := range callee.Params {
			if i < len(args) {
				d.vals[valKey{cf, p}] = it.repOf(d, f, args[i])
			}
		}
		for i, fv := range callee.FreeVars {
			if i < len(bindings) {
				d.vals[valKey{cf, fv}] = it.repOf(d, bf, bindings[i])
			}
		}
	}
	// remember which caller path each return state descends from: the summary below merges the
	// callee's outcomes of one caller path before it merges different caller paths
	callTag := fmt.Sprintf("call|%d", cf)
	nCallers := len(s.ds)
	for i, d := range s.ds {
		if d.tags == nil {
			d.tags = map[string]string{}
		}
		d.tags[callTag] = fmt.Sprintf("c%d", i)
	}
	it.retStack = append(it.retStack, nil)
	it.runRegion(cf, callee, nil, callee.Blocks[0], s)
	rets := it.retStack[len(it.retStack)-1]
	it.retStack = it.retStack[:len(it.retStack)-1]
	out := &state{}
	canProject := len(callee.AnonFuncs) == 0
	for _, d := range rets {
		switch {
		case len(d.rets) == 1:
			d.vals[valKey{f, x}] = d.rets[0]
		case len(d.rets) > 1:
			d.vals[valKey{f, x}] = rep{kind: kTuple, tuple: d.rets}
		}
		d.rets = nil
		if canProject {
			it.project(d, cf)
		}
		out.ds = append(out.ds, d)
	}
	if canProject && len(out.ds) > 1 {
		out = it.dedupe(out)
	}
	// summarise: callee-internal path distinctions rarely matter to the caller; keep at most
	// retCap disjuncts (reduce never merges an error return with a success return if avoidable)
	limit := it.retCap
	if nCallers > limit {
		limit = nCallers // a call never costs the caller the path distinctions it already had
	}
	if limit > it.K {
		limit = it.K
	}
	if len(out.ds) > limit {
		saveK := it.K
		it.K = limit
		it.reduceTag = callTag
		out = it.reduce(out)
		it.reduceTag = ""
		it.K = saveK
	}
	for _, d := range out.ds {
		delete(d.tags, callTag)
	}
	return out
}

var _ = types.Identical

// leb128LenLemma models a call to the module's LEB128 writer by the length of its result instead of
// expanding its loop: a value below 2^(7k) and not below 2^(7(k-1)) is written in exactly k octets.
// The lemma is not trusted: rule LEB.len (props/leb.go) derives the same table from the function's
// code in every run of the checks that use it, and reports a violation when it does not hold.
func (it *interp) leb128LenLemma(s *state, f frameID, x *ssa.Call) *state {
	it.lemmasUsed["leb128len"] = true
	out := &state{}
	for _, d := range s.ds {
		n := it.intLin(d, f, x.Call.Args[0])
		lo := int64(0)
		for k := int64(1); k <= 7; k++ {
			nd := d.clone()
			_, c := it.lenAtom(f, x)
			if k <= 6 {
				hi := int64(1)<<(7*uint(k)) - 1
				nd.addFact(lin.GE(n, lin.Const(lo)))
				nd.addFact(lin.LE(n, lin.Const(hi)))
				nd.addFact(lin.GE(c, lin.Const(k)))
				nd.vals[valKey{f, x}] = rep{kind: kSlice, len: lin.Const(k), cap: c, isnil: lin.Const(0)}
				lo = hi + 1
			} else {
				l, _ := it.lenAtom(f, x)
				nd.addFact(lin.GE(n, lin.Const(lo)))
				nd.addFact(lin.GE(l, lin.Const(7)))
				nd.addFact(lin.LE(l, lin.Const(10)))
				nd.addFact(lin.LE(l, c))
				nd.vals[valKey{f, x}] = rep{kind: kSlice, len: l, cap: c, isnil: lin.Const(0)}
			}
			if it.feasible(nd) {
				out.ds = append(out.ds, nd)
			}
		}
	}
	return it.reduce(out)
}

// writesNoMemory: fn and the module functions it calls statically contain no store, no map update, no
// channel operation, no go/defer and no call other than to builtins without side effects and to module
// functions of the same kind (so a call to it leaves every tracked memory cell as it was).
func (it *interp) writesNoMemory(fn *ssa.Function, depth int) bool {
	if depth > 4 || len(fn.Blocks) == 0 {
		return false
	}
	for _, b := range fn.Blocks {
		for _, in := range b.Instrs {
			switch x := in.(type) {
			case *ssa.Store, *ssa.MapUpdate, *ssa.Send, *ssa.Go, *ssa.Defer, *ssa.Select, *ssa.Panic:
				return false
			case *ssa.Call:
				if bi, ok := x.Call.Value.(*ssa.Builtin); ok {
					switch bi.Name() {
					case "len", "cap", "min", "max":
						continue
					}
					return false
				}
				cal := x.Call.StaticCallee()
				if cal == nil || x.Call.IsInvoke() || !core.InModule(cal) || !it.writesNoMemory(cal, depth+1) {
					return false
				}
			}
		}
	}
	return true
}

// loadTypes: the types of the values fn (and the module functions it calls) loads from memory.
func (it *interp) loadTypes(fn *ssa.Function, depth int) []types.Type {
	var out []types.Type
	if depth > 4 {
		return out
	}
	for _, b := range fn.Blocks {
		for _, in := range b.Instrs {
			switch x := in.(type) {
			case *ssa.UnOp:
				if x.Op == token.MUL {
					out = append(out, x.Type())
				}
			case *ssa.Call:
				if cal := x.Call.StaticCallee(); cal != nil && core.InModule(cal) {
					out = append(out, it.loadTypes(cal, depth+1)...)
				}
			}
		}
	}
	return out
}
