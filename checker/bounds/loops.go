package bounds

import (
	"fmt"
	"go/token"
	"go/types"
	"os"
	"sort"
	"strings"

	"golang.org/x/tools/go/ssa"

	"rtpcheck/core"
	"rtpcheck/lin"
)

// lvar is a loop variable: an integer quantity that may change per iteration.
type lvar struct {
	intVar bool // an integer variable (phi or memory cell), as opposed to a len/cap
	lenVar bool // the length of a slice-valued phi or memory cell
	name   string
	head   *lin.Lin // the atom standing for its value at the loop head
	// init: value on entry in head-disjunct d (nil = unknown)
	init func(d *disjunct) *lin.Lin
	// next: value after one iteration in back-edge disjunct b arriving from block `from`
	next func(b *disjunct, from *ssa.BasicBlock) *lin.Lin
}

// term is a loop-invariant linear quantity, resolved per disjunct.
type term struct {
	name string
	get  func(d *disjunct) *lin.Lin
}

// cand is a candidate invariant: Σ coef_i * lvar_i + Σ tcoef_j * term_j + c <= 0, where
// useInit marks lvars whose *initial* value (a loop-invariant quantity) is meant.
type cand struct {
	stage int // 1: single-variable bounds; 2: relations between two loop variables
	name  string
	// build instantiates the inequality in disjunct d; cur(i) yields the lin for lvar i
	build func(d *disjunct, cur func(i int) *lin.Lin, init func(i int) *lin.Lin) ([]lin.Ineq, bool)
}

type loopMemo struct {
	variantMem map[string]bool
	dropped    map[string]bool
}

// analyzeLoop computes an inductive invariant for loop L by Houdini and returns the exit states.
func (it *interp) analyzeLoop(f frameID, fn *ssa.Function, L *loop, ins []edgeIn) map[edgeKey]*state {
	head := L.head
	// entry state with phis assigned to their initial values
	var sts []*state
	for _, e := range ins {
		sts = append(sts, it.applyPhis(e.st, f, e.from, head))
	}
	entry := it.joinStates(sts)
	if entry.empty() {
		return nil
	}
	if it.loopEntryCap > 0 && len(entry.ds) > it.loopEntryCap {
		// the body's own case splits multiply with the paths that reach the loop: a loop entered on more
		// paths than this is analysed from a coarser entry state (sound: merging only forgets)
		saveK := it.K
		it.K = it.loopEntryCap
		entry = it.reduce(entry)
		it.K = saveK
	}
	if n := it.constTripBound(f, L, entry); n > 0 {
		exits, ok := it.unrollLoop(f, fn, L, entry, n)
		if os.Getenv("RTPCHECK_LOOPDBG") != "" {
			fmt.Printf("UNROLL %s b%d frame %d bound %d ok=%v\n", fn.Name(), head.Index, f, n, ok)
		}
		if ok {
			return exits
		}
	}
	memoKey := fmt.Sprintf("%d|%p", f, head)
	for i, d := range entry.ds {
		if d.tags == nil {
			d.tags = map[string]string{}
		}
		d.tags[memoKey] = fmt.Sprintf("h%d", i)
	}
	var phis []*ssa.Phi
	for _, in := range head.Instrs {
		p, ok := in.(*ssa.Phi)
		if !ok {
			break
		}
		phis = append(phis, p)
	}
	backIdx := func(from *ssa.BasicBlock) int {
		for i, p := range head.Preds {
			if p == from {
				return i
			}
		}
		return -1
	}
	byTag := map[string]*disjunct{}
	for _, d := range entry.ds {
		byTag[d.tags[memoKey]] = d
	}
	// ---- loop variables from phis
	var lvars []lvar
	for _, p := range phis {
		p := p
		switch kindOf(p.Type()) {
		case kInt:
			at := it.valAtom(f, p)
			lvars = append(lvars, lvar{intVar: true, name: p.Name(), head: at,
				init: func(d *disjunct) *lin.Lin {
					r := byTag[firstTag(d.tags[memoKey])]
					if r == nil {
						return nil
					}
					rr := it.repOf(r, f, p)
					return rr.lin
				},
				next: func(b *disjunct, from *ssa.BasicBlock) *lin.Lin {
					i := backIdx(from)
					if i < 0 {
						return nil
					}
					return it.intLin(b, f, p.Edges[i])
				}})
		case kSlice:
			l, c := it.lenAtom(f, p)
			for k, at := range []*lin.Lin{l, c} {
				k := k
				nm := "len(" + p.Name() + ")"
				if k == 1 {
					nm = "cap(" + p.Name() + ")"
				}
				lvars = append(lvars, lvar{lenVar: k == 0, name: nm, head: at,
					init: func(d *disjunct) *lin.Lin {
						r := byTag[firstTag(d.tags[memoKey])]
						if r == nil {
							return nil
						}
						rr := it.repOf(r, f, p)
						if k == 0 {
							return rr.len
						}
						return rr.cap
					},
					next: func(b *disjunct, from *ssa.BasicBlock) *lin.Lin {
						i := backIdx(from)
						if i < 0 {
							return nil
						}
						ll, cc := it.lenCap(b, f, p.Edges[i])
						if k == 0 {
							return ll
						}
						return cc
					}})
			}
		}
	}
	nPhiVars := len(lvars)
	// ---- invariant terms: operands of comparisons in the loop defined outside it, lens of slices used
	var terms []term
	termSeen := map[string]bool{}
	addTerm := func(name string, get func(d *disjunct) *lin.Lin) {
		if termSeen[name] {
			return
		}
		termSeen[name] = true
		terms = append(terms, term{name, get})
	}
	definedInLoop := func(v ssa.Value) bool {
		in, ok := v.(ssa.Instruction)
		if !ok {
			return false
		}
		return in.Parent() == fn && L.blocks[in.Block()]
	}
	var blocks []*ssa.BasicBlock
	for b := range L.blocks {
		blocks = append(blocks, b)
	}
	sort.Slice(blocks, func(i, j int) bool { return blocks[i].Index < blocks[j].Index })
	for _, b := range blocks {
		for _, in := range b.Instrs {
			switch x := in.(type) {
			case *ssa.BinOp:
				switch x.Op {
				case token.LSS, token.LEQ, token.GTR, token.GEQ, token.EQL, token.NEQ:
					for _, op := range []ssa.Value{x.X, x.Y} {
						op := op
						if kindOf(op.Type()) != kInt {
							continue
						}
						if _, isC := op.(*ssa.Const); isC {
							continue
						}
						if definedInLoop(op) {
							// an expression recomputed in every iteration from values defined outside the
							// loop (go/ssa does not hoist `hi - lo` out of `i < hi-lo`) is invariant too
							if get := invariantExpr(it, f, op, definedInLoop, 3); get != nil {
								addTerm(op.Name(), get)
							}
							continue
						}
						addTerm(op.Name(), func(d *disjunct) *lin.Lin { return it.intLin(d, f, op) })
					}
				}
			case *ssa.IndexAddr:
				if !definedInLoop(x.X) && kindOf(x.X.Type()) == kSlice {
					v := x.X
					addTerm("len("+v.Name()+")", func(d *disjunct) *lin.Lin { l, _ := it.lenCap(d, f, v); return l })
				}
			case *ssa.Slice:
				if !definedInLoop(x.X) && kindOf(x.X.Type()) == kSlice {
					v := x.X
					addTerm("len("+v.Name()+")", func(d *disjunct) *lin.Lin { l, _ := it.lenCap(d, f, v); return l })
				}
			case *ssa.Call:
				if b, ok := x.Call.Value.(*ssa.Builtin); ok && (b.Name() == "len" || b.Name() == "cap") {
					v := x.Call.Args[0]
					if !definedInLoop(v) && kindOf(v.Type()) == kSlice {
						addTerm("len("+v.Name()+")", func(d *disjunct) *lin.Lin { l, _ := it.lenCap(d, f, v); return l })
					}
				}
			}
		}
	}

	// candidates refuted (and cells found variant) in an earlier analysis of this loop in this
	// frame stay refuted: entry states only get weaker over the enclosing Houdini rounds, and
	// assuming fewer invariants is always sound.
	memo := it.loopMemo[memoKey]
	if memo == nil {
		memo = &loopMemo{variantMem: map[string]bool{}, dropped: map[string]bool{}}
		it.loopMemo[memoKey] = memo
	}
	// field names loaded inside the loop: only those memory cells can matter as invariant terms
	loadedFields := map[string]bool{}
	for _, b := range blocks {
		for _, in := range b.Instrs {
			if u, ok := in.(*ssa.UnOp); ok && u.Op == token.MUL {
				if fa, ok := u.X.(*ssa.FieldAddr); ok {
					loadedFields[fieldNameOf(fa)] = true
				}
			}
		}
	}
	variantMem := memo.variantMem // memory cells that change in the loop
	dropped := memo.dropped       // candidate names refuted so far
	var finalOut regionOut
	for round := 0; round < 12; round++ {
		// ---- memory loop variables for variant cells
		mvars := lvars[:nPhiVars:nPhiVars]
		var mkeys []string
		for k := range variantMem {
			mkeys = append(mkeys, k)
		}
		sort.Strings(mkeys)
		type memVar struct {
			key      string
			isSlice  bool
			lenA     *lin.Lin
			capA     *lin.Lin
			valA     *lin.Lin
			cellType *memCell
		}
		var memVars []memVar
		for _, k := range mkeys {
			k := k
			var cell *memCell
			for _, d := range entry.ds {
				if c, ok := d.mem[k]; ok {
					cell = c
					break
				}
			}
			if cell == nil {
				continue
			}
			switch cell.val.kind {
			case kInt:
				id := it.at.get(aMem, valKey{f, head.Instrs[0].(ssa.Value)}, "")
				_ = id
				a := it.memAtom(f, head, k, "val", cell)
				memVars = append(memVars, memVar{key: k, valA: a, cellType: cell})
				mvars = append(mvars, lvar{intVar: true, name: "mem" + cell.a.path, head: a,
					init: func(d *disjunct) *lin.Lin {
						r := byTag[firstTag(d.tags[memoKey])]
						if r == nil {
							return nil
						}
						if c, ok := r.mem[k]; ok && c.val.kind == kInt {
							return c.val.lin
						}
						return nil
					},
					next: func(b *disjunct, from *ssa.BasicBlock) *lin.Lin {
						if c, ok := b.mem[k]; ok && c.val.kind == kInt {
							return c.val.lin
						}
						return nil
					}})
			case kSlice:
				la := it.memAtom(f, head, k, "len", cell)
				ca := it.memAtom(f, head, k, "cap", cell)
				memVars = append(memVars, memVar{key: k, isSlice: true, lenA: la, capA: ca, cellType: cell})
				for w, at := range []*lin.Lin{la, ca} {
					w := w
					mvars = append(mvars, lvar{lenVar: w == 0, name: fmt.Sprintf("mem%s.%d", cell.a.path, w), head: at,
						init: func(d *disjunct) *lin.Lin {
							r := byTag[firstTag(d.tags[memoKey])]
							if r == nil {
								return nil
							}
							if c, ok := r.mem[k]; ok && c.val.kind == kSlice {
								if w == 0 {
									return c.val.len
								}
								return c.val.cap
							}
							return nil
						},
						next: func(b *disjunct, from *ssa.BasicBlock) *lin.Lin {
							if c, ok := b.mem[k]; ok && c.val.kind == kSlice {
								if w == 0 {
									return c.val.len
								}
								return c.val.cap
							}
							return nil
						}})
				}
			}
		}
		// invariant memory cells contribute terms
		allTerms := append([]term(nil), terms...)
		if len(entry.ds) > 0 {
			var ks []string
			for k, c := range entry.ds[0].mem {
				if variantMem[k] || strings.HasSuffix(k, "|zero") {
					continue
				}
				if i := strings.LastIndex(c.a.path, "."); i < 0 || !loadedFields[c.a.path[i+1:]] {
					continue
				}
				if c.val.kind == kSlice || c.val.kind == kInt {
					ks = append(ks, k)
				}
			}
			sort.Strings(ks)
			for _, k := range ks {
				k := k
				c := entry.ds[0].mem[k]
				if c.val.kind == kSlice {
					allTerms = append(allTerms, term{"len(mem" + c.a.path + ")", func(d *disjunct) *lin.Lin {
						if cc, ok := d.mem[k]; ok && cc.val.kind == kSlice {
							return cc.val.len
						}
						return nil
					}})
				} else if c.val.lin != nil {
					if _, isC := c.val.lin.ConstVal(); !isC {
						allTerms = append(allTerms, term{"mem" + c.a.path, func(d *disjunct) *lin.Lin {
							if cc, ok := d.mem[k]; ok && cc.val.kind == kInt {
								return cc.val.lin
							}
							return nil
						}})
					}
				}
			}
		}
		cands := genCandidates(mvars, allTerms)
		// ---- head state: phis and variant memory become their own atoms; candidates assumed
		mkHead := func(active []cand) *state {
			hs := &state{}
			for _, d := range entry.ds {
				nd := d.clone()
				for _, p := range phis {
					switch kindOf(p.Type()) {
					case kInt:
						nd.vals[valKey{f, p}] = rep{kind: kInt, lin: it.valAtom(f, p)}
					case kSlice:
						l, c := it.lenAtom(f, p)
						nd.vals[valKey{f, p}] = rep{kind: kSlice, len: l, cap: c, isnil: it.nilAtom(f, p)}
						nd.addFact(lin.LE(l, c))
					default:
						delete(nd.vals, valKey{f, p})
						nd.vals[valKey{f, p}] = it.freshRep(nd, f, p, p.Type())
					}
				}
				for _, mv := range memVars {
					c := mv.cellType
					if mv.isSlice {
						nd.mem[mv.key] = &memCell{a: c.a, typ: c.typ, val: rep{kind: kSlice, len: mv.lenA, cap: mv.capA, isnil: it.nilAtomKey(f, head, mv.key)}}
						nd.addFact(lin.LE(mv.lenA, mv.capA))
					} else {
						nd.mem[mv.key] = &memCell{a: c.a, typ: c.typ, val: rep{kind: kInt, lin: mv.valA}}
					}
				}
				for k := range variantMem {
					found := false
					for _, mv := range memVars {
						if mv.key == k {
							found = true
						}
					}
					if !found {
						nd.forget(k)
					}
				}
				cur := func(i int) *lin.Lin { return mvars[i].head }
				ini := func(i int) *lin.Lin { return mvars[i].init(nd) }
				for _, c := range active {
					if qs, ok := c.build(nd, cur, ini); ok {
						nd.addFacts(qs...)
					}
				}
				hs.ds = append(hs.ds, nd)
			}
			return hs
		}
		// initial filter: candidates must hold on entry
		var active []cand
		for _, c := range cands {
			if dropped[c.name] {
				continue
			}
			ok := true
			for _, d := range entry.ds {
				ini := func(i int) *lin.Lin { return mvars[i].init(d) }
				qs, built := c.build(d, ini, ini)
				if !built || !it.entailsAll(d, qs) {
					ok = false
					break
				}
			}
			if ok {
				active = append(active, c)
			} else {
				dropped[c.name] = true
				if os.Getenv("RTPCHECK_LOOPDBG") == "2" {
					fmt.Printf("  drop(init) %s b%d round %d: %s\n", fn.Name(), head.Index, round, c.name)
				}
			}
		}
		saveRec := it.record
		it.record = false
		changedMem := false
		// staged Houdini: first the single-variable bounds alone, then the pair relations on
		// top of the surviving bounds (which stay inductive whatever is added)
		allActive := active
		var settled []cand
		for stage := 1; stage <= 2 && !changedMem; stage++ {
			active = append([]cand(nil), settled...)
			for _, c := range allActive {
				if c.stage == stage {
					active = append(active, c)
				}
			}
			for inner := 0; inner < 30; inner++ {
				hs := mkHead(active)
				it.retStack = append(it.retStack, nil)
				ro := it.runRegion(f, fn, L, head, hs)
				rets := it.retStack[len(it.retStack)-1]
				it.retStack = it.retStack[:len(it.retStack)-1]
				_ = rets
				// memory variance
				for _, be := range ro.backs {
					for _, b := range be.st.ds {
						// a merged disjunct descends from several head disjuncts: a cell is invariant
						// only if it still has the value it had in every one of them
						var heads []*disjunct
						for _, t := range strings.Split(b.tags[memoKey], "+") {
							if hh := byTag[t]; hh != nil {
								heads = append(heads, hh)
							}
						}
						if len(heads) == 0 {
							heads = entry.ds
						}
						for _, h := range heads {
							for k, bc := range b.mem {
								if strings.HasSuffix(k, "|zero") || variantMem[k] {
									continue
								}
								if _, ok := h.mem[k]; ok {
									continue
								}
								if _, z := h.mem[zeroMarker(bc.a)]; z && bc.typ != nil {
									// cell of a zero-initialised object first touched inside the loop:
									// make its entry value explicit so that variance is detected
									for _, e := range entry.ds {
										if _, has := e.mem[k]; !has {
											if zr := it.zeroRep(bc.typ); zr.kind != kNone {
												e.mem[k] = &memCell{a: bc.a, typ: bc.typ, val: zr}
												changedMem = true
											}
										}
									}
								}
							}
							for k, c := range h.mem {
								if strings.HasSuffix(k, "|zero") || variantMem[k] {
									continue
								}
								bc, ok := b.mem[k]
								if !ok || !(bc == c || repEqual(bc.val, c.val)) {
									variantMem[k] = true
									changedMem = true
								}
							}
						}
					}
				}
				if changedMem {
					break
				}
				// preservation
				var keep []cand
				removed := false
				for _, c := range active {
					ok := true
					if c.stage < stage {
						keep = append(keep, c)
						continue
					}
					for _, be := range ro.backs {
						for _, b := range be.st.ds {
							from := be.from
							nxt := func(i int) *lin.Lin { return mvars[i].next(b, from) }
							ini := func(i int) *lin.Lin { return mvars[i].init(b) }
							qs, built := c.build(b, nxt, ini)
							if !built || !it.entailsAll(b, qs) {
								if os.Getenv("RTPCHECK_LOOPDBG") == "2" && built {
									fmt.Printf("    fail %s from b%d tag=%s: %s\n", c.name, from.Index, b.tags[memoKey], it.describe(b, qs[0]))
								}
								ok = false
								break
							}
						}
						if !ok {
							break
						}
					}
					if ok {
						keep = append(keep, c)
					} else {
						removed = true
						dropped[c.name] = true
						if os.Getenv("RTPCHECK_LOOPDBG") == "2" {
							fmt.Printf("  drop(preserve) %s b%d round %d inner %d: %s\n", fn.Name(), head.Index, round, inner, c.name)
						}
					}
				}
				active = keep
				if !removed {
					break
				}
			}
			settled = active
		}
		it.record = saveRec
		if changedMem {
			continue
		}
		if os.Getenv("RTPCHECK_LOOPDBG") != "" {
			var names []string
			for _, c := range active {
				names = append(names, c.name)
			}
			fmt.Printf("LOOP %s b%d frame %d round %d: %d vars, %d terms, %d cands, %d kept: %v variantMem=%d\n", fn.Name(), head.Index, f, round, len(mvars), len(allTerms), len(cands), len(active), names, len(variantMem))
		}
		// final run with the inductive invariant, recording obligations
		hs := mkHead(active)
		finalOut = it.runRegionKeepReturns(f, fn, L, head, hs)
		break
	}
	return finalOut.exits
}

// runRegionKeepReturns runs a loop region letting returns inside it reach the enclosing frame.
func (it *interp) runRegionKeepReturns(f frameID, fn *ssa.Function, L *loop, head *ssa.BasicBlock, hs *state) regionOut {
	return it.runRegion(f, fn, L, head, hs)
}

func (it *interp) memAtom(f frameID, head *ssa.BasicBlock, key, what string, c *memCell) *lin.Lin {
	k := fmt.Sprintf("memphi|%d|%p|%s|%s", f, head, key, what)
	id, ok := it.at.byKey[k]
	if !ok {
		id = len(it.at.info)
		it.at.byKey[k] = id
		info := atomInfo{kind: aMem, name: fmt.Sprintf("%s(mem%s)@b%d", what, c.a.path, head.Index)}
		if what == "val" {
			lo, hi, hl, hh := intRange(c.typ)
			info.lo, info.hi, info.hasLo, info.hasHi = lo, hi, hl, hh
		} else {
			info.lo, info.hasLo = 0, true
		}
		it.at.info = append(it.at.info, info)
	}
	return lin.Var(id)
}

func (it *interp) nilAtomKey(f frameID, head *ssa.BasicBlock, key string) *lin.Lin {
	k := fmt.Sprintf("memphi|%d|%p|%s|nil", f, head, key)
	id, ok := it.at.byKey[k]
	if !ok {
		id = len(it.at.info)
		it.at.byKey[k] = id
		it.at.info = append(it.at.info, atomInfo{kind: aNil, name: "isnil(mem)", lo: 0, hi: 1, hasLo: true, hasHi: true})
	}
	return lin.Var(id)
}

// genCandidates instantiates the invariant templates.
// invariantExpr returns an evaluator for an integer expression built with + and - (and * by a constant)
// from values defined outside the loop, or nil when v is not of that shape. Only wide (non-wrapping)
// arithmetic is accepted.
func invariantExpr(it *interp, f frameID, v ssa.Value, inLoop func(ssa.Value) bool, depth int) func(d *disjunct) *lin.Lin {
	if c, ok := v.(*ssa.Const); ok {
		if n, ok := core.ConstInt(c); ok {
			return func(*disjunct) *lin.Lin { return lin.Const(n) }
		}
		return nil
	}
	if !inLoop(v) {
		return func(d *disjunct) *lin.Lin { return it.intLin(d, f, v) }
	}
	b, ok := v.(*ssa.BinOp)
	if !ok || depth == 0 || !isWide(b.Type()) || isUnsigned(b.Type()) {
		return nil
	}
	switch b.Op {
	case token.ADD, token.SUB:
		x, y := invariantExpr(it, f, b.X, inLoop, depth-1), invariantExpr(it, f, b.Y, inLoop, depth-1)
		if x == nil || y == nil {
			return nil
		}
		sub := b.Op == token.SUB
		return func(d *disjunct) *lin.Lin {
			l, r := x(d), y(d)
			if l == nil || r == nil {
				return nil
			}
			if sub {
				return l.Sub(r)
			}
			return l.Add(r)
		}
	}
	return nil
}

func genCandidates(vars []lvar, terms []term) []cand {
	var out []cand
	stage := 1
	add := func(name string, b func(d *disjunct, cur func(int) *lin.Lin, init func(int) *lin.Lin) ([]lin.Ineq, bool)) {
		out = append(out, cand{stage, name, b})
	}
	for i := range vars {
		i := i
		n := vars[i].name
		// A: x >= init, x <= init
		add(n+">=init", func(d *disjunct, cur, init func(int) *lin.Lin) ([]lin.Ineq, bool) {
			c, in := cur(i), init(i)
			if c == nil || in == nil {
				return nil, false
			}
			return []lin.Ineq{lin.GE(c, in)}, true
		})
		add(n+"<=init", func(d *disjunct, cur, init func(int) *lin.Lin) ([]lin.Ineq, bool) {
			c, in := cur(i), init(i)
			if c == nil || in == nil {
				return nil, false
			}
			return []lin.Ineq{lin.LE(c, in)}, true
		})
		// B: x >= c
		for _, k := range []int64{-1, 0, 1} {
			k := k
			add(fmt.Sprintf("%s>=%d", n, k), func(d *disjunct, cur, init func(int) *lin.Lin) ([]lin.Ineq, bool) {
				c := cur(i)
				if c == nil {
					return nil, false
				}
				return []lin.Ineq{lin.GE(c, lin.Const(k))}, true
			})
		}
		// C: x <= t + c, x >= t + c
		for j := range terms {
			j := j
			for _, k := range []int64{-1, 0, 1} {
				k := k
				add(fmt.Sprintf("%s<=%s%+d", n, terms[j].name, k), func(d *disjunct, cur, init func(int) *lin.Lin) ([]lin.Ineq, bool) {
					c, t := cur(i), terms[j].get(d)
					if c == nil || t == nil {
						return nil, false
					}
					return []lin.Ineq{lin.LE(c, t.AddConst(k))}, true
				})
			}
			add(fmt.Sprintf("%s>=%s", n, terms[j].name), func(d *disjunct, cur, init func(int) *lin.Lin) ([]lin.Ineq, bool) {
				c, t := cur(i), terms[j].get(d)
				if c == nil || t == nil {
					return nil, false
				}
				return []lin.Ineq{lin.GE(c, t)}, true
			})
		}
	}
	// D/E: pairs
	stage = 2
	for i := range vars {
		for j := i + 1; j < len(vars); j++ {
			i, j := i, j
			ni, nj := vars[i].name, vars[j].name
			if !(vars[i].intVar || vars[i].lenVar) || !(vars[j].intVar || vars[j].lenVar) || (vars[i].lenVar && vars[j].lenVar) {
				continue // pair templates relate integer counters, or one counter and one slice length
			}
			// relations between two counters are kept only as equalities (x ± y and x - k*y are
			// constant over the loop): one-sided pair relations are almost always noise
			for _, sgn := range []int64{1, -1} {
				sgn := sgn
				if sgn == 1 && (vars[i].lenVar || vars[j].lenVar) {
					continue
				}
				add(fmt.Sprintf("%s%+d*%s == init", ni, sgn, nj), func(d *disjunct, cur, init func(int) *lin.Lin) ([]lin.Ineq, bool) {
					ci, cj, ii, ij := cur(i), cur(j), init(i), init(j)
					if ci == nil || cj == nil || ii == nil || ij == nil {
						return nil, false
					}
					return lin.EQ(ci.Add(cj.Scale(sgn)), ii.Add(ij.Scale(sgn))), true
				})
			}
			if vars[i].lenVar != vars[j].lenVar {
				// an index that trails a slice length by a constant (cur = len(list)-1 while the list is
				// appended to): stated absolutely, so it survives merged entry states
				a, b := i, j // a: the counter, b: the length
				if vars[i].lenVar {
					a, b = j, i
				}
				for _, k := range []int64{-1, 0} {
					k := k
					add(fmt.Sprintf("%s == %s%+d", vars[a].name, vars[b].name, k), func(d *disjunct, cur, init func(int) *lin.Lin) ([]lin.Ineq, bool) {
						ca, cb := cur(a), cur(b)
						if ca == nil || cb == nil {
							return nil, false
						}
						return lin.EQ(ca, cb.AddConst(k)), true
					})
				}
			}
			for _, k := range []int64{4, 5} {
				k := k
				if vars[i].lenVar || vars[j].lenVar {
					// a slice cursor consumed k bytes per step of a counter: len(cursor) + k*i is constant
					if k == 4 && (vars[i].lenVar != vars[j].lenVar) {
						a, b := i, j // a: the length, b: the counter
						if vars[j].lenVar {
							a, b = j, i
						}
						add(fmt.Sprintf("%s+%d*%s == init", vars[a].name, k, vars[b].name), func(d *disjunct, cur, init func(int) *lin.Lin) ([]lin.Ineq, bool) {
							ca, cb, ia, ib := cur(a), cur(b), init(a), init(b)
							if ca == nil || cb == nil || ia == nil || ib == nil {
								return nil, false
							}
							return lin.EQ(ca.Add(cb.Scale(k)), ia.Add(ib.Scale(k))), true
						})
					}
					continue
				}
				for _, swap := range []bool{false, true} {
					swap := swap
					add(fmt.Sprintf("%s-%d*%s sw%v == init", ni, k, nj, swap), func(d *disjunct, cur, init func(int) *lin.Lin) ([]lin.Ineq, bool) {
						a, b := i, j
						if swap {
							a, b = j, i
						}
						ca, cb, ia, ib := cur(a), cur(b), init(a), init(b)
						if ca == nil || cb == nil || ia == nil || ib == nil {
							return nil, false
						}
						return lin.EQ(ca.Sub(cb.Scale(k)), ia.Sub(ib.Scale(k))), true
					})
				}
			}
			stage = 2
			for t := range terms {
				t := t
				add(fmt.Sprintf("%s+%s<=%s", ni, nj, terms[t].name), func(d *disjunct, cur, init func(int) *lin.Lin) ([]lin.Ineq, bool) {
					ci, cj, tt := cur(i), cur(j), terms[t].get(d)
					if ci == nil || cj == nil || tt == nil {
						return nil, false
					}
					return []lin.Ineq{lin.LE(ci.Add(cj), tt)}, true
				})
			}
		}
	}
	return out
}

func fieldNameOf(fa *ssa.FieldAddr) string {
	st := fa.X.Type().Underlying().(*types.Pointer).Elem().Underlying().(*types.Struct)
	return st.Field(fa.Field).Name()
}

// firstTag returns the tag when it names a single head disjunct ("" for merged ones: their
// initial values are not unique, so init-relative candidates cannot be instantiated).
func firstTag(t string) string {
	if strings.Contains(t, "+") {
		return ""
	}
	return t
}

// ---- full unrolling of loops with a small constant trip count -------------------------------------
//
// A loop whose exit test compares a counter that starts at a constant and is stepped by one with a bound
// that is the same small constant on every path that enters the loop (a range over a fixed-size table, `i < 3`)
// is interpreted iteration by iteration instead of through an inductive invariant: exact, and it keeps
// memory cells that a callee advances in every iteration (a bit cursor behind a pointer) precise.

const maxUnroll = 8

// constTripBound returns K+1 (an upper bound on the number of times the head is reached) when the loop has
// that shape, 0 otherwise.
func (it *interp) constTripBound(f frameID, L *loop, entry *state) int {
	// Off by default: on this code base it buys nothing that the invariant-based analysis does not already
	// prove (the VLA loops get five times slower), and the two refactorings it was written for (a bit cursor
	// advanced by a callee inside a three-step table loop) are still not proved in the payloader's context,
	// where the per-iteration projection drops the cursor's exact value. RTPCHECK_UNROLL=1 enables it.
	if os.Getenv("RTPCHECK_UNROLL") == "" || len(L.kids) > 0 {
		return 0
	}
	inLoop := func(v ssa.Value) bool {
		in, ok := v.(ssa.Instruction)
		return ok && in.Block() != nil && L.blocks[in.Block()]
	}
	counter := func(v ssa.Value) bool { // a head phi with a constant start, or such a phi plus one
		if b, ok := v.(*ssa.BinOp); ok && b.Op == token.ADD {
			if k, isC := core.ConstInt(b.Y); isC && k == 1 {
				v = b.X
			}
		}
		p, ok := v.(*ssa.Phi)
		if !ok || p.Block() != L.head {
			return false
		}
		for i, pr := range L.head.Preds {
			if !L.blocks[pr] {
				if _, isC := core.ConstInt(p.Edges[i]); !isC {
					return false
				}
			}
		}
		return true
	}
	best := 0
	for b := range L.blocks {
		if len(b.Instrs) == 0 {
			continue
		}
		iff, ok := b.Instrs[len(b.Instrs)-1].(*ssa.If)
		if !ok {
			continue
		}
		// the test leaves the loop on one side
		if L.blocks[b.Succs[0]] == L.blocks[b.Succs[1]] {
			continue
		}
		cmp, ok := iff.Cond.(*ssa.BinOp)
		if !ok || cmp.Op != token.LSS || !counter(cmp.X) {
			continue
		}
		bound := cmp.Y
		if inLoop(bound) {
			// len(x) recomputed in the loop of a value defined outside it
			c, ok := bound.(*ssa.Call)
			if !ok || len(c.Call.Args) != 1 || inLoop(c.Call.Args[0]) {
				continue
			}
			if bi, ok := c.Call.Value.(*ssa.Builtin); !ok || bi.Name() != "len" {
				continue
			}
		}
		k := int64(-1)
		for _, d := range entry.ds {
			var l *lin.Lin
			if c, ok := bound.(*ssa.Call); ok && inLoop(bound) {
				l, _ = it.lenCap(d, f, c.Call.Args[0])
			} else {
				l = it.intLin(d, f, bound)
			}
			cv, isC := l.ConstVal()
			if !isC || cv < 1 || cv > maxUnroll || (k >= 0 && cv != k) {
				k = -2
				break
			}
			k = cv
		}
		if k > 0 && int(k)+1 > best {
			best = int(k) + 1
		}
	}
	return best
}

// unrollLoop interprets the loop iteration by iteration; ok=false when back edges are still taken after max
// head visits (the caller then falls back to the invariant-based analysis). The first pass does not record
// obligations; when it shows the loop to be bounded the interpretation is repeated with recording.
func (it *interp) unrollLoop(f frameID, fn *ssa.Function, L *loop, entry *state, max int) (map[edgeKey]*state, bool) {
	// values computed by one iteration: instructions of the loop's blocks other than the head's phis, and
	// everything in frames created at call sites inside the loop
	headPhi := map[ssa.Value]bool{}
	for _, in := range L.head.Instrs {
		if p, ok := in.(*ssa.Phi); ok {
			headPhi[p] = true
		}
	}
	isDead := func(k valKey) bool {
		if k.v == nil {
			return false
		}
		fr := k.f
		for i := 0; i < 64 && fr >= 0 && int(fr) < len(it.finfo); i++ {
			if fr == f {
				break
			}
			par := it.finfo[fr].parent
			if par == f {
				// a frame created under f: dead when its call site is in the loop
				site := it.finfo[fr].site
				return site != nil && site.Block() != nil && L.blocks[site.Block()]
			}
			if par == fr || par < 0 {
				return false
			}
			fr = par
		}
		if k.f != f {
			return false
		}
		if headPhi[k.v] {
			return false
		}
		var in ssa.Instruction
		switch x := k.v.(type) {
		case tupleElem:
			in, _ = x.Value.(ssa.Instruction)
		case fieldKey:
			in, _ = x.Value.(ssa.Instruction)
		default:
			in, _ = k.v.(ssa.Instruction)
		}
		return in != nil && in.Parent() == fn && in.Block() != nil && L.blocks[in.Block()]
	}
	run := func() (map[edgeKey]*state, bool) {
		exits := map[edgeKey]*state{}
		hs := entry.clone()
		for iter := 0; iter <= max; iter++ {
			ro := it.runRegion(f, fn, L, L.head, hs)
			if os.Getenv("RTPCHECK_LOOPDBG") == "3" {
				nb := 0
				for _, be := range ro.backs {
					nb += len(be.st.ds)
				}
				ne := 0
				for _, st := range ro.exits {
					ne += len(st.ds)
				}
				fmt.Printf("  unroll %s b%d iter %d: head=%d backs=%d exits=%d record=%v\n", fn.Name(), L.head.Index, iter, len(hs.ds), nb, ne, it.record)
				for _, d := range hs.ds {
					for k, c := range d.mem {
						if c != nil && c.val.kind == kInt && c.val.lin != nil {
							fmt.Printf("      cell %s = %s\n", k, c.val.lin.String(it.at.name))
						}
					}
				}
			}
			for k, st := range ro.exits {
				if st.empty() {
					continue
				}
				if cur, ok := exits[k]; ok {
					exits[k] = it.joinStates([]*state{cur, st})
				} else {
					exits[k] = st
				}
			}
			var sts []*state
			for _, be := range ro.backs {
				if !be.st.empty() {
					ns := it.applyPhis(be.st, f, be.from, L.head)
					for _, d := range ns.ds {
						it.projectIter(d, isDead)
					}
					sts = append(sts, ns)
				}
			}
			if len(sts) == 0 {
				return exits, true
			}
			hs = it.joinStates(sts)
			if hs.empty() {
				return exits, true
			}
		}
		return nil, false
	}
	saveRec := it.record
	it.record = false
	it.retStack = append(it.retStack, nil)
	_, ok := run()
	it.retStack = it.retStack[:len(it.retStack)-1]
	it.record = saveRec
	if !ok {
		return nil, false
	}
	return run()
}
