package bounds

import (
	"fmt"
	"go/token"
	"go/types"

	"golang.org/x/tools/go/ssa"

	"rtpcheck/core"
	"rtpcheck/lin"
)

// fits reports whether d entails lo <= l <= hi.
func (it *interp) fits(d *disjunct, l *lin.Lin, lo, hi int64, hasLo, hasHi bool) bool {
	if hasLo && !it.entails(d, lin.GE(l, lin.Const(lo))) {
		return false
	}
	if hasHi && !it.entails(d, lin.LE(l, lin.Const(hi))) {
		return false
	}
	return true
}

// bounds of a linear expression in d by probing a few constants is avoided; instead callers ask
// specific entailment questions.

// execValue computes the representation of a value-producing instruction in disjunct d.
// It may add facts to d. Obligations are registered by the caller (execInstr) on the state.
func (it *interp) execBinOp(d *disjunct, f frameID, x *ssa.BinOp) rep {
	switch x.Op {
	case token.EQL, token.NEQ, token.LSS, token.LEQ, token.GTR, token.GEQ:
		return rep{kind: kInt, cmp: &cmpRef{f: f, op: x}}
	}
	if kindOf(x.Type()) != kInt {
		if kindOf(x.Type()) == kSlice { // string concatenation
			l1, _ := it.lenCap(d, f, x.X)
			l2, _ := it.lenCap(d, f, x.Y)
			s := l1.Add(l2)
			return rep{kind: kSlice, len: s, cap: s, isnil: lin.Const(0)}
		}
		return rep{kind: kNone}
	}
	a := it.intLin(d, f, x.X)
	var b *lin.Lin
	if kindOf(x.Y.Type()) == kInt {
		b = it.intLin(d, f, x.Y)
	}
	res := it.valAtom(f, x)
	lo, hi, hasLo, hasHi := intRange(x.Type())
	wide := isWide(x.Type())
	exact := func(l *lin.Lin) rep {
		if wide && !isUnsigned(x.Type()) {
			return rep{kind: kInt, lin: l}
		}
		if wide && isUnsigned(x.Type()) {
			// unsigned 64-bit: exact unless it goes negative (wrap)
			if it.entails(d, lin.GE(l, lin.Const(0))) {
				return rep{kind: kInt, lin: l}
			}
			return rep{kind: kInt, lin: res}
		}
		if it.fits(d, l, lo, hi, hasLo, hasHi) {
			return rep{kind: kInt, lin: l}
		}
		it.wrapSeen = true
		return rep{kind: kInt, lin: res}
	}
	nonneg := func(l *lin.Lin) bool { return it.entails(d, lin.GE(l, lin.Const(0))) }
	switch x.Op {
	case token.ADD:
		return exact(a.Add(b))
	case token.SUB:
		return exact(a.Sub(b))
	case token.MUL:
		if c, ok := b.ConstVal(); ok {
			return exact(a.Scale(c))
		}
		if c, ok := a.ConstVal(); ok {
			return exact(b.Scale(c))
		}
		if nonneg(a) && nonneg(b) {
			d.addFact(lin.GE(res, lin.Const(0)))
		}
		return rep{kind: kInt, lin: res}
	case token.QUO:
		if c, ok := b.ConstVal(); ok && c > 0 {
			if q, ok := a.DivExact(c); ok && wide {
				return exact(q) // a is a multiple of c term by term: (4*x)/4 = x
			}
		}
		if c, ok := b.ConstVal(); ok && c > 0 && nonneg(a) {
			// c*q <= a <= c*q + c - 1
			d.addFact(lin.LE(res.Scale(c), a))
			d.addFact(lin.LE(a, res.Scale(c).AddConst(c-1)))
			d.addFact(lin.GE(res, lin.Const(0)))
		}
		return rep{kind: kInt, lin: res}
	case token.REM:
		if c, ok := b.ConstVal(); ok && c > 0 && nonneg(a) {
			d.addFact(lin.GE(res, lin.Const(0)))
			d.addFact(lin.LE(res, lin.Const(c-1)))
			d.addFact(lin.LE(res, a))
		}
		return rep{kind: kInt, lin: res}
	case token.AND:
		ca, aC := a.ConstVal()
		cb, bC := b.ConstVal()
		if aC && bC {
			return rep{kind: kInt, lin: lin.Const(ca & cb)}
		}
		if bC && cb >= 0 {
			d.addFact(lin.GE(res, lin.Const(0)))
			d.addFact(lin.LE(res, lin.Const(cb)))
			if nonneg(a) {
				d.addFact(lin.LE(res, a))
			}
		} else if aC && ca >= 0 {
			d.addFact(lin.GE(res, lin.Const(0)))
			d.addFact(lin.LE(res, lin.Const(ca)))
			if nonneg(b) {
				d.addFact(lin.LE(res, b))
			}
		} else if nonneg(a) && nonneg(b) {
			d.addFact(lin.GE(res, lin.Const(0)))
			d.addFact(lin.LE(res, a))
			d.addFact(lin.LE(res, b))
		}
		return rep{kind: kInt, lin: res}
	case token.AND_NOT:
		if cb, ok := b.ConstVal(); ok && cb >= 0 && nonneg(a) {
			d.addFact(lin.GE(res, lin.Const(0)))
			d.addFact(lin.LE(res, a))
			if hasHi {
				d.addFact(lin.LE(res, lin.Const(hi&^cb)))
			}
		}
		return rep{kind: kInt, lin: res}
	case token.OR, token.XOR:
		ca, aC := a.ConstVal()
		cb, bC := b.ConstVal()
		if aC && bC {
			if x.Op == token.OR {
				return rep{kind: kInt, lin: lin.Const(ca | cb)}
			}
			return rep{kind: kInt, lin: lin.Const(ca ^ cb)}
		}
		if nonneg(a) && nonneg(b) {
			d.addFact(lin.GE(res, lin.Const(0)))
			if x.Op == token.OR {
				d.addFact(lin.GE(res, a))
				d.addFact(lin.GE(res, b))
			}
			d.addFact(lin.LE(res, a.Add(b)))
		}
		return rep{kind: kInt, lin: res}
	case token.SHL:
		if c, ok := b.ConstVal(); ok && c >= 0 && c < 62 {
			return exact(a.Scale(int64(1) << uint(c)))
		}
		if nonneg(a) {
			d.addFact(lin.GE(res, lin.Const(0)))
		}
		return rep{kind: kInt, lin: res}
	case token.SHR:
		if c, ok := b.ConstVal(); ok && c >= 0 && c < 62 && wide {
			if q, ok := a.DivExact(int64(1) << uint(c)); ok {
				return exact(q)
			}
		}
		if c, ok := b.ConstVal(); ok && c >= 0 && c < 62 && nonneg(a) {
			p := int64(1) << uint(c)
			d.addFact(lin.LE(res.Scale(p), a))
			d.addFact(lin.LE(a, res.Scale(p).AddConst(p-1)))
			d.addFact(lin.GE(res, lin.Const(0)))
			return rep{kind: kInt, lin: res}
		}
		if nonneg(a) {
			d.addFact(lin.GE(res, lin.Const(0)))
			d.addFact(lin.LE(res, a))
		}
		return rep{kind: kInt, lin: res}
	}
	return rep{kind: kInt, lin: res}
}

func (it *interp) execConvert(d *disjunct, f frameID, x *ssa.Convert) rep {
	sk, dk := kindOf(x.X.Type()), kindOf(x.Type())
	if sk == kInt && dk == kInt {
		l := it.intLin(d, f, x.X)
		lo, hi, hasLo, hasHi := intRange(x.Type())
		if !hasLo && !hasHi {
			// to int/int64: exact if the source is not a huge unsigned (assumed < 2^63 only if bounded)
			if isUnsigned(x.X.Type()) && isWide(x.X.Type()) {
				// uint -> int: value-preserving only below 2^63; no such bound is known in general
				if it.entails(d, lin.LE(l, lin.Const(1<<62))) {
					return rep{kind: kInt, lin: l}
				}
				return rep{kind: kInt, lin: it.valAtom(f, x)}
			}
			return rep{kind: kInt, lin: l}
		}
		if it.fits(d, l, lo, hi, hasLo, hasHi) {
			return rep{kind: kInt, lin: l}
		}
		return rep{kind: kInt, lin: it.valAtom(f, x)}
	}
	if sk == kSlice && dk == kSlice { // string <-> []byte
		l, _ := it.lenCap(d, f, x.X)
		c := it.at.fresh("convcap")
		it.at.setRange(c, 0, 0, true, false)
		d.addFact(lin.LE(l, lin.Var(c)))
		return rep{kind: kSlice, len: l, cap: lin.Var(c), isnil: lin.Const(0)}
	}
	return it.freshRep(d, f, x, x.Type())
}

// cmpFacts returns the alternatives (a disjunction of conjunctions) under which comparison c
// has the given truth value, or ok=false when nothing linear is known.
func (it *interp) cmpFacts(d *disjunct, c *cmpRef, truth bool) (alts [][]lin.Ineq, ok bool) {
	if c.neg {
		truth = !truth
	}
	switch x := c.op.(type) {
	case *ssa.UnOp:
		if x.Op == token.NOT {
			return it.condFacts(d, c.f, x.X, !truth)
		}
		return nil, false
	case *ssa.BinOp:
		op := x.Op
		if !truth {
			switch op {
			case token.LSS:
				op = token.GEQ
			case token.LEQ:
				op = token.GTR
			case token.GTR:
				op = token.LEQ
			case token.GEQ:
				op = token.LSS
			case token.EQL:
				op = token.NEQ
			case token.NEQ:
				op = token.EQL
			}
		}
		xk, yk := kindOf(x.X.Type()), kindOf(x.Y.Type())
		// nil comparisons
		if core.IsNilConst(x.X) || core.IsNilConst(x.Y) {
			other := x.X
			if core.IsNilConst(x.X) {
				other = x.Y
			}
			r := it.repOf(d, c.f, other)
			if r.isnil == nil {
				return nil, false
			}
			if op == token.EQL {
				fs := lin.EQ(r.isnil, lin.Const(1))
				if r.kind == kSlice && r.len != nil {
					fs = append(fs, lin.EQ(r.len, lin.Const(0))...)
					fs = append(fs, lin.EQ(r.cap, lin.Const(0))...)
				}
				return [][]lin.Ineq{fs}, true
			}
			return [][]lin.Ineq{lin.EQ(r.isnil, lin.Const(0))}, true
		}
		if xk != kInt || yk != kInt {
			return nil, false
		}
		// booleans compared with each other / constants are handled as 0/1 integers
		a, b := it.intLin(d, c.f, x.X), it.intLin(d, c.f, x.Y)
		switch op {
		case token.LSS:
			return [][]lin.Ineq{{lin.LT(a, b)}}, true
		case token.LEQ:
			return [][]lin.Ineq{{lin.LE(a, b)}}, true
		case token.GTR:
			return [][]lin.Ineq{{lin.GT(a, b)}}, true
		case token.GEQ:
			return [][]lin.Ineq{{lin.GE(a, b)}}, true
		case token.EQL:
			return [][]lin.Ineq{lin.EQ(a, b)}, true
		case token.NEQ:
			return [][]lin.Ineq{{lin.LT(a, b)}, {lin.GT(a, b)}}, true
		}
	}
	return nil, false
}

// condFacts: alternatives under which boolean value v is `truth`.
func (it *interp) condFacts(d *disjunct, f frameID, v ssa.Value, truth bool) ([][]lin.Ineq, bool) {
	if b, ok := core.ConstBool(v); ok {
		if b == truth {
			return [][]lin.Ineq{{}}, true
		}
		return nil, true // infeasible
	}
	r := it.repOf(d, f, v)
	if r.kind == kInt && r.cmp != nil {
		return it.cmpFacts(d, r.cmp, truth)
	}
	if u, ok := v.(*ssa.UnOp); ok && u.Op == token.NOT {
		return it.condFacts(d, f, u.X, !truth)
	}
	if r.kind == kInt && r.lin != nil {
		want := int64(0)
		if truth {
			want = 1
		}
		return [][]lin.Ineq{lin.EQ(r.lin, lin.Const(want))}, true
	}
	return nil, false
}

// branch splits state s on condition v.
func (it *interp) branch(s *state, f frameID, v ssa.Value) (t, e *state) {
	t, e = &state{}, &state{}
	for _, d := range s.ds {
		for _, side := range []bool{true, false} {
			alts, ok := it.condFacts(d, f, v, side)
			out := t
			if !side {
				out = e
			}
			if !ok {
				out.ds = append(out.ds, d.clone())
				continue
			}
			for _, alt := range alts {
				nd := d.clone()
				nd.addFacts(alt...)
				if len(alt) > 0 && !it.feasible(nd) {
					continue
				}
				out.ds = append(out.ds, nd)
			}
		}
	}
	return t, e
}

// maybeNil reports whether pointer value v may be nil in d (and builds the goal isnil == 0).
func (it *interp) nonNilGoal(d *disjunct, f frameID, v ssa.Value) []lin.Ineq {
	switch v.(type) {
	case *ssa.Alloc, *ssa.FieldAddr, *ssa.IndexAddr, *ssa.Global, *ssa.FreeVar, *ssa.MakeClosure, *ssa.Function:
		return nil
	}
	r := it.repOf(d, f, v)
	if r.isnil == nil {
		return nil
	}
	return lin.EQ(r.isnil, lin.Const(0))
}

// execInstr executes one non-terminator instruction on the whole state.
func (it *interp) execInstr(s *state, f frameID, fn *ssa.Function, in ssa.Instruction) *state {
	it.steps++
	if it.record && it.hooks != nil && it.hooks.AtInstr != nil {
		for _, d := range s.ds {
			it.hooks.AtInstr(&Helper{it: it, f: f, fn: fn, in: in}, fn, in, &Disjunct{d: d, it: it, f: f})
		}
	}
	set := func(v ssa.Value, mk func(d *disjunct) rep) {
		for _, d := range s.ds {
			d.vals[valKey{f, v}] = mk(d)
		}
	}
	switch x := in.(type) {
	case *ssa.Alloc:
		for _, d := range s.ds {
			a := addr{root: valKey{f, x}}
			// a re-executed allocation is a new zeroed object
			prefix := fmt.Sprintf("%d:%p", f, ssa.Value(x))
			for mk := range d.mem {
				if len(mk) >= len(prefix) && mk[:len(prefix)] == prefix {
					delete(d.mem, mk)
				}
			}
			d.mem[zeroMarker(a)] = &memCell{a: a}
			d.vals[valKey{f, x}] = rep{kind: kPtr, isnil: lin.Const(0), at: &a}
		}
	case *ssa.MakeSlice:
		it.need(s, fn, x, "MK", "", func(d *disjunct) []lin.Ineq {
			l, c := it.intLin(d, f, x.Len), it.intLin(d, f, x.Cap)
			return []lin.Ineq{lin.GE(l, lin.Const(0)), lin.LE(l, c)}
		})
		set(x, func(d *disjunct) rep {
			return rep{kind: kSlice, len: it.intLin(d, f, x.Len), cap: it.intLin(d, f, x.Cap), isnil: lin.Const(0)}
		})
	case *ssa.MakeClosure:
		set(x, func(d *disjunct) rep { return rep{kind: kPtr, isnil: lin.Const(0), clos: &closRef{f: f, mc: x}} })
	case *ssa.MakeMap, *ssa.MakeChan:
		set(x.(ssa.Value), func(d *disjunct) rep { return rep{kind: kPtr, isnil: lin.Const(0)} })
	case *ssa.BinOp:
		if x.Op == token.QUO || x.Op == token.REM {
			if kindOf(x.Type()) == kInt {
				if _, isC := core.ConstInt(x.Y); !isC {
					it.need(s, fn, x, "DIV", "", func(d *disjunct) []lin.Ineq {
						return []lin.Ineq{lin.GE(it.intLin(d, f, x.Y), lin.Const(1))}
					})
				}
			}
		}
		if x.Op == token.SHL || x.Op == token.SHR {
			if _, isC := core.ConstInt(x.Y); !isC && !isUnsigned(x.Y.Type()) {
				it.need(s, fn, x, "SHF", "", func(d *disjunct) []lin.Ineq {
					return []lin.Ineq{lin.GE(it.intLin(d, f, x.Y), lin.Const(0))}
				})
			}
		}
		it.wrapSeen = false
		set(x, func(d *disjunct) rep { return it.execBinOp(d, f, x) })
		if !isWide(x.Type()) && kindOf(x.Type()) == kInt && (x.Op == token.ADD || x.Op == token.SUB || x.Op == token.MUL || x.Op == token.SHL) {
			it.oblige(fn, x, "WRAP", "", !it.wrapSeen, func() string {
				return "narrow integer arithmetic may wrap around here (the result is not proven to fit its type)"
			})
		}
	case *ssa.UnOp:
		switch x.Op {
		case token.NOT:
			set(x, func(d *disjunct) rep {
				r := it.repOf(d, f, x.X)
				if r.cmp != nil {
					return rep{kind: kInt, cmp: &cmpRef{f: r.cmp.f, op: r.cmp.op, neg: !r.cmp.neg}}
				}
				if r.lin != nil {
					return rep{kind: kInt, lin: lin.Const(1).Sub(r.lin)}
				}
				return rep{kind: kInt, cmp: &cmpRef{f: f, op: x}}
			})
		case token.SUB:
			set(x, func(d *disjunct) rep {
				if isWide(x.Type()) && !isUnsigned(x.Type()) {
					return rep{kind: kInt, lin: it.intLin(d, f, x.X).Scale(-1)}
				}
				return rep{kind: kInt, lin: it.valAtom(f, x)}
			})
		case token.MUL: // load
			it.need(s, fn, x, "NIL", "", func(d *disjunct) []lin.Ineq { return it.nonNilGoal(d, f, x.X) })
			set(x, func(d *disjunct) rep {
				a, ok := it.addrOf(d, f, x.X)
				if !ok {
					return it.freshRep(d, f, x, x.Type())
				}
				r := it.load(d, f, a, x.Type(), x)
				if g, isG := x.X.(*ssa.Global); isG && it.sentinel(g) {
					if IsErrorType(x.Type()) {
						r.isnil = lin.Const(0) // error sentinel initialised once with errors.New and never reassigned
					}
					if n, ok := it.globalSliceLen(g); ok && r.kind == kSlice {
						// package-level slice initialised with a literal and never reassigned
						r = rep{kind: kSlice, len: lin.Const(n), cap: lin.Const(n), isnil: lin.Const(0)}
					}
				}
				return r
			})
		default:
			set(x, func(d *disjunct) rep { return it.freshRep(d, f, x, x.Type()) })
		}
	case *ssa.Convert:
		set(x, func(d *disjunct) rep { return it.execConvert(d, f, x) })
	case *ssa.ChangeType:
		set(x, func(d *disjunct) rep { return it.repOf(d, f, x.X) })
	case *ssa.ChangeInterface:
		set(x, func(d *disjunct) rep { return it.repOf(d, f, x.X) })
	case *ssa.MakeInterface:
		set(x, func(d *disjunct) rep {
			r := it.repOf(d, f, x.X)
			return rep{kind: kPtr, isnil: lin.Const(0), at: r.at}
		})
	case *ssa.SliceToArrayPointer:
		set(x, func(d *disjunct) rep { return rep{kind: kPtr, isnil: lin.Const(0)} })
	case *ssa.Slice:
		it.execSlice(s, f, fn, x)
	case *ssa.IndexAddr:
		it.need(s, fn, x, "NIL", "", func(d *disjunct) []lin.Ineq {
			if _, isArr := arrayLen(x.X.Type()); isArr {
				return it.nonNilGoal(d, f, x.X)
			}
			return nil
		})
		it.need(s, fn, x, "IDX", "", func(d *disjunct) []lin.Ineq {
			i := it.intLin(d, f, x.Index)
			l, _ := it.lenCap(d, f, x.X)
			return []lin.Ineq{lin.GE(i, lin.Const(0)), lin.LT(i, l)}
		})
		set(x, func(d *disjunct) rep {
			if a, ok := it.listElemAddr(d, f, x); ok {
				return rep{kind: kPtr, isnil: lin.Const(0), at: &a}
			}
			if a, ok := it.addrOf(d, f, x); ok {
				return rep{kind: kPtr, isnil: lin.Const(0), at: &a}
			}
			return rep{kind: kPtr, isnil: lin.Const(0)}
		})
	case *ssa.Index:
		it.need(s, fn, x, "IDX", "", func(d *disjunct) []lin.Ineq {
			i := it.intLin(d, f, x.Index)
			l, _ := it.lenCap(d, f, x.X)
			return []lin.Ineq{lin.GE(i, lin.Const(0)), lin.LT(i, l)}
		})
		set(x, func(d *disjunct) rep { return it.freshRep(d, f, x, x.Type()) })
	case *ssa.Lookup:
		if kindOf(x.X.Type()) == kSlice { // string index
			it.need(s, fn, x, "IDX", "", func(d *disjunct) []lin.Ineq {
				i := it.intLin(d, f, x.Index)
				l, _ := it.lenCap(d, f, x.X)
				return []lin.Ineq{lin.GE(i, lin.Const(0)), lin.LT(i, l)}
			})
		}
		set(x, func(d *disjunct) rep { return it.freshRep(d, f, x, x.Type()) })
	case *ssa.FieldAddr:
		it.need(s, fn, x, "NIL", "", func(d *disjunct) []lin.Ineq { return it.nonNilGoal(d, f, x.X) })
		set(x, func(d *disjunct) rep {
			if a, ok := it.addrOf(d, f, x); ok {
				return rep{kind: kPtr, isnil: lin.Const(0), at: &a}
			}
			return rep{kind: kPtr, isnil: lin.Const(0)}
		})
	case *ssa.Field:
		set(x, func(d *disjunct) rep {
			base := it.repOf(d, f, x.X)
			name := core.FieldOfValue(x)
			if base.at != nil {
				sub := addr{root: base.at.root, path: base.at.path + "." + name}
				return it.load(d, f, sub, x.Type(), x)
			}
			if len(base.tuple) > 0 {
				return it.freshRep(d, f, x, x.Type())
			}
			return it.freshRep(d, f, fieldKey{x.X, "." + name}, x.Type())
		})
	case *ssa.Extract:
		set(x, func(d *disjunct) rep {
			t := it.repOf(d, f, x.Tuple)
			if t.kind == kTuple && x.Index < len(t.tuple) {
				return t.tuple[x.Index]
			}
			return it.freshRep(d, f, x, x.Type())
		})
	case *ssa.TypeAssert:
		if !x.CommaOk {
			it.oblige(fn, x, "ASRT", "type assertion without ok", s.empty(), func() string { return "type assertion may panic" })
		}
		set(x, func(d *disjunct) rep { return it.freshRep(d, f, x, x.Type()) })
	case *ssa.Store:
		it.need(s, fn, x, "NIL", "", func(d *disjunct) []lin.Ineq { return it.nonNilGoal(d, f, x.Addr) })
		for _, d := range s.ds {
			a, ok := it.addrOf(d, f, x.Addr)
			if !ok {
				continue
			}
			it.store(d, f, a, x.Val.Type(), it.repOf(d, f, x.Val), x.Val)
		}
	case *ssa.Call:
		return it.execCall(s, f, fn, x)
	case *ssa.Panic:
		it.oblige(fn, x, "ASRT", "explicit panic", s.empty(), func() string { return "explicit panic is reachable" })
		return &state{}
	case *ssa.Range, *ssa.Next, *ssa.Select:
		set(in.(ssa.Value), func(d *disjunct) rep { return it.freshRep(d, f, in.(ssa.Value), in.(ssa.Value).Type()) })
	case *ssa.MapUpdate, *ssa.Send, *ssa.Defer, *ssa.Go, *ssa.RunDefers, *ssa.DebugRef:
	case *ssa.Phi:
		// handled on edges
	default:
		if v, ok := in.(ssa.Value); ok {
			set(v, func(d *disjunct) rep { return it.freshRep(d, f, v, v.Type()) })
		}
	}
	return s
}

func (it *interp) execSlice(s *state, f frameID, fn *ssa.Function, x *ssa.Slice) {
	isStr := false
	if b, ok := x.X.Type().Underlying().(*types.Basic); ok && b.Info()&types.IsString != 0 {
		isStr = true
	}
	parts := func(d *disjunct) (lo, hi, mx, ln, cp *lin.Lin) {
		ln, cp = it.lenCap(d, f, x.X)
		if isStr {
			cp = ln
		}
		lo = lin.Const(0)
		if x.Low != nil {
			lo = it.intLin(d, f, x.Low)
		}
		hi = ln
		if x.High != nil {
			hi = it.intLin(d, f, x.High)
		}
		mx = cp
		if x.Max != nil {
			mx = it.intLin(d, f, x.Max)
		}
		return
	}
	if _, isArr := arrayLen(x.X.Type()); isArr {
		it.need(s, fn, x, "NIL", "", func(d *disjunct) []lin.Ineq { return it.nonNilGoal(d, f, x.X) })
	}
	it.need(s, fn, x, "SLC", "", func(d *disjunct) []lin.Ineq {
		lo, hi, mx, _, cp := parts(d)
		return []lin.Ineq{lin.GE(lo, lin.Const(0)), lin.LE(lo, hi), lin.LE(hi, mx), lin.LE(mx, cp)}
	})
	for _, d := range s.ds {
		lo, hi, mx, _, _ := parts(d)
		base := it.repOf(d, f, x.X)
		r := rep{kind: kSlice, len: hi.Sub(lo), cap: mx.Sub(lo)}
		if isStr {
			r.cap = r.len
		}
		switch {
		case base.kind == kSlice && base.isnil != nil:
			r.isnil = base.isnil
		default:
			r.isnil = lin.Const(0)
		}
		d.vals[valKey{f, x}] = r
	}
}

// sentinel reports whether global g is only ever stored in its package initialiser.
func (it *interp) sentinel(g *ssa.Global) bool {
	if v, ok := it.sentinels[g]; ok {
		return v
	}
	ok := true
	for _, fn := range it.prog.Funcs {
		for _, b := range fn.Blocks {
			for _, in := range b.Instrs {
				if st, isSt := in.(*ssa.Store); isSt && st.Addr == g {
					ok = false
				}
			}
		}
	}
	// the store in the synthetic package initialiser (not in prog.Funcs) is the only one allowed
	stored := false
	if init := g.Pkg.Func("init"); init != nil {
		for _, b := range init.Blocks {
			for _, in := range b.Instrs {
				if st, isSt := in.(*ssa.Store); isSt && st.Addr == g {
					stored = true
				}
			}
		}
	}
	it.sentinels[g] = ok && stored
	return ok && stored
}

// globalSliceLen returns the length of the composite literal stored to g in the package
// initialiser.
func (it *interp) globalSliceLen(g *ssa.Global) (int64, bool) {
	init := g.Pkg.Func("init")
	if init == nil {
		return 0, false
	}
	for _, b := range init.Blocks {
		for _, in := range b.Instrs {
			st, ok := in.(*ssa.Store)
			if !ok || st.Addr != g {
				continue
			}
			sl, ok := st.Val.(*ssa.Slice)
			if !ok || sl.Low != nil || sl.High != nil || sl.Max != nil {
				return 0, false
			}
			return arrayLen(sl.X.Type())
		}
	}
	return 0, false
}
