package bounds

import (
	"fmt"
	"os"
	"go/constant"
	"go/token"
	"go/types"
	"sort"
	"strings"
	"time"

	"golang.org/x/tools/go/ssa"

	"rtpcheck/core"
	"rtpcheck/lin"
)

// MaxLen is the assumed bound on every slice/string length (stated in the evidence).
const MaxLen = int64(1) << 40

type frameInfo struct {
	fn     *ssa.Function
	parent frameID
	site   ssa.Instruction
	depth  int
	// ptrBind: pointer parameters bound to caller addresses are stored in the disjunct's vals
}

// Oblig is an aggregated obligation: one per (instruction, kind); OK only if discharged in every
// context in which the instruction was analysed.
type Oblig struct {
	Fn       *ssa.Function
	Instr    ssa.Instruction
	Kind     string // IDX, SLC, MK, SHF, DIV, NIL, PRE, ASRT, EXT, CTR
	Text     string // extra text (contract name, callee)
	OK       bool
	Contexts int
	Detail   string
	Pos      token.Pos
	// Fails: indexes of the sub-goals (lower bound, upper bound, ...) that some path condition does
	// not entail. Part of the obligation's key when it is not discharged, so that an entry of the
	// assumed table covers exactly the sub-goal that was argued by hand.
	Fails map[int]bool
	// NoSrc: the obligation is named by its text alone (no source excerpt): its key survives edits that move or
	// re-word the construct it is about
	NoSrc bool
}

type interp struct {
	prog            *core.Program
	at              *atoms
	K               int
	maxDepth        int
	frames          map[string]frameID
	finfo           []frameInfo
	obls            map[string]*Oblig
	oblOrder        []string
	record          bool
	forests         map[*ssa.Function]*forest
	nEntail         int
	nFeas           int
	funcs           map[*ssa.Function]bool
	hooks           *Hooks
	retStack        [][]*disjunct
	warnings        []string
	steps           int
	loopMemo        map[string]*loopMemo
	sentinels       map[*ssa.Global]bool
	maxJoin         int
	wrapSeen        bool
	reduceTag       string // tag key naming the caller path of each disjunct during a call summary
	retCap          int
	bindFrame       *frameID
	inlinedClosures map[*ssa.Function]bool
	tTrue, tFalse   [4]time.Duration
	nTrue, nFalse   [4]int
	nFast           int
	nMerges         int
	listIDs         map[valKey]int // identities of slice-of-slices values (lists.go)
	lemmas          map[string]string // module callee (full name) -> lemma used instead of expanding it
	lemmasUsed      map[string]bool
	modular         map[string]*ModSpec
	loopEntryCap    int // > 0: entry states of loops are reduced to this many disjuncts
}

// Hooks lets a property attach contracts.
type Hooks struct {
	// AtReturn is called for every return of an *entry* function (frame depth 0) with each
	// reaching disjunct; it may register CTR obligations through the helper.
	AtReturn func(h *Helper, fn *ssa.Function, ret *ssa.Return, d *Disjunct)
	// AtInstr is called before executing any instruction (any frame) while recording.
	AtInstr func(h *Helper, fn *ssa.Function, in ssa.Instruction, d *Disjunct)
}

func newInterp(prog *core.Program, K, depth int) *interp {
	return &interp{prog: prog, at: newAtoms(), K: K, maxDepth: depth, frames: map[string]frameID{},
		obls: map[string]*Oblig{}, forests: map[*ssa.Function]*forest{}, funcs: map[*ssa.Function]bool{}, loopMemo: map[string]*loopMemo{}, sentinels: map[*ssa.Global]bool{}, retCap: 8, inlinedClosures: map[*ssa.Function]bool{}, lemmasUsed: map[string]bool{}}
}

func (it *interp) frameFor(parent frameID, site ssa.Instruction, fn *ssa.Function) frameID {
	k := fmt.Sprintf("%d|%p|%p", parent, site, fn)
	if id, ok := it.frames[k]; ok {
		return id
	}
	id := frameID(len(it.finfo))
	d := 0
	if parent >= 0 && int(parent) < len(it.finfo) {
		d = it.finfo[parent].depth + 1
	}
	it.finfo = append(it.finfo, frameInfo{fn: fn, parent: parent, site: site, depth: d})
	it.frames[k] = id
	return id
}

// ---- type classification ------------------------------------------------------------------------

func kindOf(t types.Type) repKind {
	switch u := t.Underlying().(type) {
	case *types.Basic:
		if u.Info()&(types.IsInteger|types.IsBoolean) != 0 {
			return kInt
		}
		if u.Info()&types.IsString != 0 {
			return kSlice
		}
		if u.Kind() == types.UntypedNil || u.Kind() == types.UnsafePointer {
			return kPtr
		}
		return kNone
	case *types.Slice:
		return kSlice
	case *types.Pointer, *types.Interface, *types.Map, *types.Signature, *types.Chan:
		return kPtr
	case *types.Tuple:
		return kTuple
	}
	return kNone
}

func intRange(t types.Type) (lo, hi int64, hasLo, hasHi bool) {
	b, ok := t.Underlying().(*types.Basic)
	if !ok {
		return
	}
	if b.Info()&types.IsBoolean != 0 {
		return 0, 1, true, true
	}
	switch b.Kind() {
	case types.Int8:
		return -128, 127, true, true
	case types.Int16:
		return -32768, 32767, true, true
	case types.Int32:
		return -1 << 31, 1<<31 - 1, true, true
	case types.Uint8:
		return 0, 255, true, true
	case types.Uint16:
		return 0, 65535, true, true
	case types.Uint32:
		return 0, 1<<32 - 1, true, true
	case types.Uint, types.Uint64, types.Uintptr:
		return 0, 0, true, false
	}
	return
}

func isUnsigned(t types.Type) bool {
	b, ok := t.Underlying().(*types.Basic)
	return ok && b.Info()&types.IsUnsigned != 0
}

func isWide(t types.Type) bool {
	b, ok := t.Underlying().(*types.Basic)
	if !ok {
		return false
	}
	switch b.Kind() {
	case types.Int, types.Int64, types.Uint, types.Uint64, types.Uintptr, types.UntypedInt:
		return true
	}
	return false
}

// ---- value representations ----------------------------------------------------------------------

func (it *interp) valAtom(f frameID, v ssa.Value) *lin.Lin {
	id := it.at.get(aVal, valKey{f, v}, fmt.Sprintf("%s@%d", v.Name(), f))
	lo, hi, hl, hh := intRange(v.Type())
	it.at.setRange(id, lo, hi, hl, hh)
	return lin.Var(id)
}

func (it *interp) lenAtom(f frameID, v ssa.Value) (*lin.Lin, *lin.Lin) {
	l := it.at.get(aLen, valKey{f, v}, fmt.Sprintf("len(%s@%d)", v.Name(), f))
	c := it.at.get(aCap, valKey{f, v}, fmt.Sprintf("cap(%s@%d)", v.Name(), f))
	it.at.setRange(l, 0, MaxLen, true, true)
	it.at.setRange(c, 0, MaxLen, true, true)
	return lin.Var(l), lin.Var(c)
}

func (it *interp) nilAtom(f frameID, v ssa.Value) *lin.Lin {
	id := it.at.get(aNil, valKey{f, v}, fmt.Sprintf("isnil(%s@%d)", v.Name(), f))
	it.at.setRange(id, 0, 1, true, true)
	return lin.Var(id)
}

// freshRep builds an unconstrained representation for a value of type t keyed by (f, v).
func (it *interp) freshRep(d *disjunct, f frameID, v ssa.Value, t types.Type) rep {
	switch kindOf(t) {
	case kInt:
		// the range comes from t: for a synthetic key (a field of a struct value, an element of a
		// tuple) v.Type() is the type of the enclosing value, not of the part
		id := it.at.get(aVal, valKey{f, v}, fmt.Sprintf("%s@%d", v.Name(), f))
		lo, hi, hl, hh := intRange(t)
		it.at.setRange(id, lo, hi, hl, hh)
		return rep{kind: kInt, lin: lin.Var(id)}
	case kSlice:
		l, c := it.lenAtom(f, v)
		if _, isStr := t.Underlying().(*types.Basic); isStr {
			return rep{kind: kSlice, len: l, cap: l, isnil: lin.Const(0)}
		}
		d.addFact(lin.LE(l, c))
		n := it.nilAtom(f, v)
		return rep{kind: kSlice, len: l, cap: c, isnil: n}
	case kPtr:
		return rep{kind: kPtr, isnil: it.nilAtom(f, v)}
	case kTuple:
		tup := t.(*types.Tuple)
		r := rep{kind: kTuple}
		for i := 0; i < tup.Len(); i++ {
			r.tuple = append(r.tuple, it.freshRep(d, f, tupleElem{v, i}, tup.At(i).Type()))
		}
		return r
	}
	return rep{kind: kNone}
}

// tupleElem is a synthetic ssa.Value used only as an atom key.
type tupleElem struct {
	ssa.Value
	i int
}

func (t tupleElem) Name() string { return fmt.Sprintf("%s.%d", t.Value.Name(), t.i) }

// fieldKey is a synthetic value naming "field path of struct value v".
type fieldKey struct {
	ssa.Value
	path string
}

func (t fieldKey) Name() string { return t.Value.Name() + t.path }

func (it *interp) repOf(d *disjunct, f frameID, v ssa.Value) rep {
	if r, ok := d.vals[valKey{f, v}]; ok {
		return r
	}
	switch x := v.(type) {
	case *ssa.Const:
		return it.constRep(x)
	case *ssa.Global:
		a := addr{root: valKey{0, x}}
		return rep{kind: kPtr, isnil: lin.Const(0), at: &a}
	case *ssa.FreeVar:
		a := addr{root: valKey{f, x}}
		return rep{kind: kPtr, isnil: lin.Const(0), at: &a}
	case *ssa.MakeClosure:
		return rep{kind: kPtr, isnil: lin.Const(0), clos: &closRef{f: f, mc: x}}
	case *ssa.Function, *ssa.Builtin:
		return rep{kind: kPtr, isnil: lin.Const(0)}
	case *ssa.Parameter:
		r := it.freshRep(d, f, v, v.Type())
		if r.kind == kPtr {
			if _, isPtr := x.Type().Underlying().(*types.Pointer); isPtr {
				r.isnil = lin.Const(0) // receivers and pointer arguments of entry points are assumed non-nil
			}
		}
		if r.kind == kPtr {
			a := addr{root: valKey{f, x}}
			r.at = &a
		}
		d.vals[valKey{f, v}] = r
		return r
	}
	r := it.freshRep(d, f, v, v.Type())
	d.vals[valKey{f, v}] = r
	return r
}

func (it *interp) constRep(c *ssa.Const) rep {
	t := c.Type()
	if c.Value == nil {
		switch kindOf(t) {
		case kSlice:
			return rep{kind: kSlice, len: lin.Const(0), cap: lin.Const(0), isnil: lin.Const(1)}
		case kPtr:
			return rep{kind: kPtr, isnil: lin.Const(1)}
		case kInt:
			return rep{kind: kInt, lin: lin.Const(0)}
		}
		return rep{kind: kNone}
	}
	switch c.Value.Kind() {
	case constant.Int:
		if n, ok := constant.Int64Val(c.Value); ok {
			return rep{kind: kInt, lin: lin.Const(n)}
		}
		if u, ok := constant.Uint64Val(c.Value); ok && isUnsigned(t) {
			// large unsigned constant: keep exact via big is unnecessary; clip
			_ = u
		}
		return rep{kind: kNone}
	case constant.Bool:
		if constant.BoolVal(c.Value) {
			return rep{kind: kInt, lin: lin.Const(1)}
		}
		return rep{kind: kInt, lin: lin.Const(0)}
	case constant.String:
		n := int64(len(constant.StringVal(c.Value)))
		return rep{kind: kSlice, len: lin.Const(n), cap: lin.Const(n), isnil: lin.Const(0)}
	}
	return rep{kind: kNone}
}

// intLin returns the linear form of an integer/bool value.
func (it *interp) intLin(d *disjunct, f frameID, v ssa.Value) *lin.Lin {
	r := it.repOf(d, f, v)
	if r.kind == kInt && r.lin != nil {
		return r.lin
	}
	if r.kind == kInt && r.cmp != nil {
		return it.valAtom(f, v)
	}
	return it.valAtom(f, v)
}

// lenCap returns len and cap of a slice/string/array-pointer value.
func (it *interp) lenCap(d *disjunct, f frameID, v ssa.Value) (*lin.Lin, *lin.Lin) {
	if n, ok := arrayLen(v.Type()); ok {
		return lin.Const(n), lin.Const(n)
	}
	r := it.repOf(d, f, v)
	if r.kind == kSlice && r.len != nil {
		return r.len, r.cap
	}
	l, c := it.lenAtom(f, v)
	return l, c
}

func arrayLen(t types.Type) (int64, bool) {
	switch u := t.Underlying().(type) {
	case *types.Array:
		return u.Len(), true
	case *types.Pointer:
		if a, ok := u.Elem().Underlying().(*types.Array); ok {
			return a.Len(), true
		}
	}
	return 0, false
}

// ---- memory -------------------------------------------------------------------------------------

// addrOf resolves an address-valued SSA value; ok=false when the location is not tracked
// (slice elements).
func (it *interp) addrOf(d *disjunct, f frameID, v ssa.Value) (addr, bool) {
	if r, ok := d.vals[valKey{f, v}]; ok && r.kind == kPtr && r.at != nil {
		return *r.at, true // bound parameter / captured variable / known pointer
	}
	switch x := v.(type) {
	case *ssa.Alloc:
		return addr{root: valKey{f, x}}, true
	case *ssa.FieldAddr:
		b, ok := it.addrOf(d, f, x.X)
		if !ok {
			return addr{}, false
		}
		b.path += "." + core.FieldName(x)
		return b, true
	case *ssa.IndexAddr:
		if _, isArr := arrayLen(x.X.Type()); !isArr {
			return addr{}, false
		}
		b, ok := it.addrOf(d, f, x.X)
		if !ok {
			return addr{}, false
		}
		il := it.intLin(d, f, x.Index)
		if c, isC := il.ConstVal(); isC {
			b.path += fmt.Sprintf("[%d]", c)
		} else {
			b.path += "[*]"
		}
		return b, true
	case *ssa.Global:
		return addr{root: valKey{0, x}}, true
	case *ssa.FreeVar:
		return addr{root: valKey{f, x}}, true
	}
	r := it.repOf(d, f, v)
	if r.kind == kPtr && r.at != nil {
		return *r.at, true
	}
	if r.kind == kPtr {
		return addr{root: valKey{f, v}}, true
	}
	return addr{}, false
}

func zeroMarker(a addr) string { return fmt.Sprintf("%d:%p|zero", a.root.f, a.root.v) }

// forget drops a memory cell whose content is no longer known. The zero marker of its object says
// "cells that are not materialised are still zero", so it has to go as well: otherwise a later load
// of the forgotten cell would read the constant 0 instead of an unknown value.
func (d *disjunct) forget(mk string) {
	if c := d.mem[mk]; c != nil && c.typ != nil {
		d.dropMemo(c.typ)
	} else if c != nil {
		d.memo = nil
	}
	if c := d.mem[mk]; c != nil && !strings.HasSuffix(mk, "|zero") {
		delete(d.mem, zeroMarker(c.a))
	}
	delete(d.mem, mk)
}

// dropMemo forgets the memoised results of calls that read memory of type t (type-based alias filter).
func (d *disjunct) dropMemo(t types.Type) {
	if len(d.memo) == 0 {
		return
	}
	_, isStruct := t.Underlying().(*types.Struct)
	var keep []memoEnt
	for _, me := range d.memo {
		hit := isStruct
		for _, lt := range me.loads {
			if types.Identical(lt, t) {
				hit = true
			}
		}
		if !hit {
			keep = append(keep, me)
		}
	}
	d.memo = keep
}

func (it *interp) zeroRep(t types.Type) rep {
	switch kindOf(t) {
	case kInt:
		return rep{kind: kInt, lin: lin.Const(0)}
	case kSlice:
		return rep{kind: kSlice, len: lin.Const(0), cap: lin.Const(0), isnil: lin.Const(1)}
	case kPtr:
		return rep{kind: kPtr, isnil: lin.Const(1)}
	}
	return rep{kind: kNone}
}

// load reads location a of type t. Unknown content gets a fresh representation keyed by the
// loading instruction and is remembered so that a re-load observes the same value.
func (it *interp) load(d *disjunct, f frameID, a addr, t types.Type, by ssa.Value) rep {
	if strings.Contains(a.path, "[*]") || (isListAddr(a) && !strings.HasSuffix(a.path, ".last")) {
		return it.freshRep(d, f, by, t)
	}
	k := a.key()
	if c, ok := d.mem[k]; ok {
		return c.val
	}
	if st, ok := t.Underlying().(*types.Struct); ok {
		_ = st
		return rep{kind: kNone, at: &a} // struct values: fields are read lazily through `at`
	}
	var r rep
	if _, z := d.mem[zeroMarker(a)]; z {
		r = it.zeroRep(t)
	} else {
		r = it.freshRep(d, f, by, t)
	}
	if r.kind != kNone {
		d.mem[k] = &memCell{a: a, val: r, typ: t}
	}
	return r
}

// store writes location a; invalidates overlapping and possibly aliasing cells.
func (it *interp) store(d *disjunct, f frameID, a addr, t types.Type, val rep, v ssa.Value) {
	d.dropMemo(t)
	if isListAddr(a) {
		// the ghost cell "last element of list Ln" (lists.go): a store to the last element rewrites it, a
		// store to an element that may be the last one forgets it, a store to an earlier element leaves it
		// alone; a store into a list without identity forgets every ghost cell
		switch {
		case strings.HasPrefix(a.path, "L0."):
			for mk, c := range d.mem {
				if c != nil && isListAddr(c.a) {
					delete(d.mem, mk)
				}
			}
		case strings.HasSuffix(a.path, ".before"):
		default:
			last := strings.TrimSuffix(strings.TrimSuffix(a.path, ".maybe"), ".last") + ".last"
			lk := addr{root: a.root, path: last}
			delete(d.mem, lk.key())
			if strings.HasSuffix(a.path, ".last") && val.kind == kSlice {
				d.mem[lk.key()] = &memCell{a: lk, val: val, typ: t}
			}
		}
		return
	}
	k := a.key()
	rootPrefix := fmt.Sprintf("%d:%p", a.root.f, a.root.v)
	for mk, c := range d.mem {
		if strings.HasSuffix(mk, "|zero") {
			continue
		}
		if strings.HasPrefix(mk, rootPrefix) {
			// same object: overlapping paths are invalidated
			p := c.a.path
			if p == a.path {
				delete(d.mem, mk) // rewritten below (or the marker is dropped there)
			} else if strings.HasPrefix(p, a.path+".") || strings.HasPrefix(p, a.path+"[") ||
				strings.HasPrefix(a.path, p+".") || strings.HasPrefix(a.path, p+"[") || pathsMayOverlap(p, a.path) {
				d.forget(mk)
			}
			continue
		}
		// different root: may alias only if the types are identical and the two roots may denote
		// the same object
		if types.Identical(c.typ, t) && rootsMayAlias(c.a.root.v, a.root.v) {
			d.forget(mk)
		}
	}
	if strings.Contains(a.path, "[*]") {
		// some element was written: the object is no longer known to be zero elsewhere
		delete(d.mem, zeroMarker(a))
		return
	}
	if st, ok := t.Underlying().(*types.Struct); ok {
		// struct copy: copy known fields
		it.storeStruct(d, f, a, st, val, v)
		return
	}
	if val.kind == kNone {
		// an untracked value was written: unmaterialised cells of the object are not zero any more
		delete(d.mem, zeroMarker(a))
		return
	}
	d.mem[k] = &memCell{a: a, val: val, typ: t}
}

func pathsMayOverlap(p, q string) bool {
	// variable-index array cells overlap any constant index of the same array
	if !strings.Contains(p, "[") || !strings.Contains(q, "[") {
		return false
	}
	norm := func(s string) string {
		var b strings.Builder
		in := false
		for _, r := range s {
			switch {
			case r == '[':
				in = true
				b.WriteRune(r)
			case r == ']':
				in = false
				b.WriteRune(r)
			case in:
			default:
				b.WriteRune(r)
			}
		}
		return b.String()
	}
	if norm(p) != norm(q) {
		return false
	}
	return strings.Contains(p, "[*]") || strings.Contains(q, "[*]")
}

// rootsMayAlias: two distinct root values may denote the same object. An allocation is a new
// object: it is distinct from every other allocation and from anything that existed before it
// (unbound parameters of the entry point, captured variables, globals). A pointer loaded from
// unknown memory may point to an escaped (heap) allocation.
func rootsMayAlias(x, y ssa.Value) bool {
	ax, xa := x.(*ssa.Alloc)
	ay, ya := y.(*ssa.Alloc)
	old := func(v ssa.Value) bool {
		switch v.(type) {
		case *ssa.Parameter, *ssa.Global, *ssa.FreeVar:
			return true
		}
		return false
	}
	switch {
	case xa && ya:
		return false
	case xa:
		return !old(y) && ax.Heap
	case ya:
		return !old(x) && ay.Heap
	}
	return true
}

func isLocalRoot(v ssa.Value) bool {
	a, ok := v.(*ssa.Alloc)
	return ok && !a.Heap
}

func (it *interp) storeStruct(d *disjunct, f frameID, a addr, st *types.Struct, val rep, v ssa.Value) {
	for i := 0; i < st.NumFields(); i++ {
		fld := st.Field(i)
		sub := addr{root: a.root, path: a.path + "." + fld.Name()}
		if inner, ok := fld.Type().Underlying().(*types.Struct); ok {
			var iv rep
			if val.at != nil {
				iv = rep{kind: kNone, at: &addr{root: val.at.root, path: val.at.path + "." + fld.Name()}}
			}
			it.storeStruct(d, f, sub, inner, iv, v)
			continue
		}
		if kindOf(fld.Type()) == kNone {
			continue
		}
		var fr rep
		switch {
		case val.at != nil:
			// value was loaded from memory at val.at: copy that field's current content
			fr = it.load(d, f, addr{root: val.at.root, path: val.at.path + "." + fld.Name()}, fld.Type(), fieldKey{v, sub.path})
		case v != nil:
			if c, isC := v.(*ssa.Const); isC && c.Value == nil {
				fr = it.zeroRep(fld.Type())
			} else {
				fr = it.freshRep(d, f, fieldKey{v, "." + fld.Name()}, fld.Type())
			}
		default:
			delete(d.mem, zeroMarker(a)) // content unknown: the object is no longer known to be zero
			continue
		}
		if fr.kind == kNone {
			delete(d.mem, zeroMarker(a))
		}
		if fr.kind != kNone {
			d.mem[sub.key()] = &memCell{a: sub, val: fr, typ: fld.Type()}
		}
	}
}

// havoc forgets every memory cell that a callee we cannot see might change.
func (it *interp) havoc(d *disjunct, escaped map[string]bool) {
	d.memo = nil
	for mk, c := range d.mem {
		if strings.HasSuffix(mk, "|zero") {
			// zero markers of escaped or heap objects are dropped
			continue
		}
		if isLocalRoot(c.a.root.v) && !escaped[fmt.Sprintf("%d:%p", c.a.root.f, c.a.root.v)] {
			continue
		}
		delete(d.mem, mk)
	}
	for mk := range d.mem {
		if strings.HasSuffix(mk, "|zero") {
			root := strings.TrimSuffix(mk, "|zero")
			if escaped[root] {
				delete(d.mem, mk)
			}
		}
	}
}

// ---- obligations --------------------------------------------------------------------------------

func (it *interp) oblige(fn *ssa.Function, in ssa.Instruction, kind, text string, ok bool, detail func() string) {
	it.obligeParts(fn, in, kind, text, ok, nil, detail)
}

func (it *interp) obligeParts(fn *ssa.Function, in ssa.Instruction, kind, text string, ok bool, fails []int, detail func() string) {
	if !it.record {
		return
	}
	k := fmt.Sprintf("%p|%s|%s", in, kind, text)
	o := it.obls[k]
	if o == nil {
		o = &Oblig{Fn: fn, Instr: in, Kind: kind, Text: text, OK: true, Pos: in.Pos()}
		it.obls[k] = o
		it.oblOrder = append(it.oblOrder, k)
	}
	o.Contexts++
	for _, i := range fails {
		if o.Fails == nil {
			o.Fails = map[int]bool{}
		}
		o.Fails[i] = true
	}
	if !ok && o.OK {
		o.OK = false
		if detail != nil {
			o.Detail = detail()
		}
	}
}

// need checks that every disjunct of s entails all goals built by mk; it records an obligation and
// which of the goals (by index) are not entailed.
func (it *interp) need(s *state, fn *ssa.Function, in ssa.Instruction, kind, text string, mk func(d *disjunct) []lin.Ineq) {
	if !it.record {
		return
	}
	ok := true
	var detail func() string
	var fails []int
	failed := map[int]bool{}
	type pendingFact struct {
		d *disjunct
		g lin.Ineq
	}
	var assume []pendingFact
	for _, d := range s.ds {
		for gi, g := range mk(d) {
			if dbg := os.Getenv("RTPCHECK_NEEDDBG"); dbg != "" && strings.Contains(core.FuncName(fn), dbg) && (kind == "IDX" || kind == os.Getenv("RTPCHECK_NEEDKIND")) {
				fmt.Printf("NEED %s %s entails=%v :: %s\n", it.prog.Position(in.Pos()), kind, it.entails(d, g), it.describe(d, g))
			}
			if !it.entails(d, g) {
				if !failed[gi] {
					failed[gi] = true
					fails = append(fails, gi)
				}
				if ok {
					ok = false
					dd, gg := d, g
					detail = func() string { return it.describe(dd, gg) }
				}
				// whatever the verdict, execution continues past this instruction only if the goal
				// holds (it panics otherwise): an undischarged goal is assumed from here on, so that
				// one unproven access does not make everything computed from it look unsafe too
				if g.L != nil && !g.L.Bad() {
					assume = append(assume, pendingFact{d, g})
				}
			}
		}
	}
	for _, pf := range assume {
		pf.d.addFact(pf.g)
	}
	it.obligeParts(fn, in, kind, text, ok, fails, detail)
}

func (it *interp) sortedObligs() []*Oblig {
	var out []*Oblig
	for _, k := range it.oblOrder {
		out = append(out, it.obls[k])
	}
	sort.SliceStable(out, func(i, j int) bool {
		a, b := out[i], out[j]
		if a.Fn != b.Fn {
			return core.FuncName(a.Fn) < core.FuncName(b.Fn)
		}
		return a.Pos < b.Pos
	})
	return out
}
