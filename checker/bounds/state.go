// Package bounds is engine E1: a path-sensitive linear-inequality abstract interpreter over
// go/ssa that decides panic-freedom obligations and linear contracts.
package bounds

import (
	"os"
	"fmt"
	"go/types"
	"sort"
	"strings"
	"time"

	"golang.org/x/tools/go/ssa"

	"rtpcheck/lin"
)

// frameID identifies one activation context (entry function or an inlined call chain).
type frameID int

type valKey struct {
	f frameID
	v ssa.Value
}

type repKind int

const (
	kNone  repKind = iota
	kInt           // integers and booleans (0/1)
	kSlice         // slices and strings: len/cap (+ nilness)
	kPtr           // pointers, interfaces, maps, funcs: nilness (+ address)
	kTuple
)

// addr is an abstract address: a root identity plus a field/index path.
type addr struct {
	root valKey // the SSA value (in its frame) that is the base object: Alloc, Parameter, loaded pointer ...
	path string
}

func (a addr) key() string {
	return fmt.Sprintf("%d:%p%s", a.root.f, a.root.v, a.path)
}

// rep is the symbolic representation of one SSA value in one disjunct.
type rep struct {
	kind  repKind
	lin   *lin.Lin // kInt
	cmp   *cmpRef  // kInt (bool) defined by a comparison: lets a later branch re-derive its facts
	len   *lin.Lin // kSlice
	cap   *lin.Lin
	isnil *lin.Lin // kSlice/kPtr: 1 = nil, 0 = non-nil
	at    *addr    // kPtr: where it points (for memory keys)
	tuple []rep    // kTuple
	clos  *closRef // kPtr: a closure created in an analysed frame (lets dynamic calls be expanded)
	lst   int      // kSlice of slices: identity of the list value (0 = not tracked); see lists.go
}

type closRef struct {
	f  frameID
	mc *ssa.MakeClosure
}

type cmpRef struct {
	f   frameID
	op  ssa.Value // *ssa.BinOp comparison or *ssa.UnOp NOT
	neg bool
}

// memCell is the tracked content of a memory location.
type memCell struct {
	a   addr
	val rep
	typ types.Type
}

// disjunct is one conjunction: path facts + value representations + memory.
type disjunct struct {
	facts []lin.Ineq
	fkeys map[string]bool
	vals  map[valKey]rep
	mem   map[string]*memCell
	// rets: set at Return inside an inlined callee
	rets []rep
	// tags: for each loop under analysis (key frame|head) the set of head disjuncts this
	// disjunct descends from ("h1" or "h1+h4")
	tags map[string]string
	// memo: results of calls to module functions that write no memory, valid while no memory cell has
	// changed since (a second call with the same arguments returns the same value)
	memo []memoEnt
}

type memoEnt struct {
	callee *ssa.Function
	args   []rep
	res    rep
	loads  []types.Type // types of the memory the callee reads: a store of another type cannot change its result
}

func newDisjunct() *disjunct {
	return &disjunct{fkeys: map[string]bool{}, vals: map[valKey]rep{}, mem: map[string]*memCell{}}
}

func (d *disjunct) clone() *disjunct {
	r := &disjunct{facts: append([]lin.Ineq(nil), d.facts...), fkeys: make(map[string]bool, len(d.fkeys)),
		vals: make(map[valKey]rep, len(d.vals)), mem: make(map[string]*memCell, len(d.mem))}
	if len(d.tags) > 0 {
		r.tags = make(map[string]string, len(d.tags))
		for k, v := range d.tags {
			r.tags[k] = v
		}
	}
	for k := range d.fkeys {
		r.fkeys[k] = true
	}
	for k, v := range d.vals {
		r.vals[k] = v
	}
	for k, v := range d.mem {
		r.mem[k] = v
	}
	r.memo = d.memo[:len(d.memo):len(d.memo)]
	return r
}

func (d *disjunct) addFact(q lin.Ineq) {
	if t, h := q.Trivial(); t && h {
		return
	}
	k := q.Key()
	if d.fkeys[k] {
		return
	}
	d.fkeys[k] = true
	d.facts = append(d.facts, q)
}

func (d *disjunct) addFacts(qs ...lin.Ineq) {
	for _, q := range qs {
		d.addFact(q)
	}
}

// state is a disjunction.
type state struct{ ds []*disjunct }

func (s *state) empty() bool { return s == nil || len(s.ds) == 0 }

func (s *state) clone() *state {
	if s == nil {
		return nil
	}
	r := &state{}
	for _, d := range s.ds {
		r.ds = append(r.ds, d.clone())
	}
	return r
}

func union(a, b *state) *state {
	if a == nil {
		return b
	}
	if b == nil {
		return a
	}
	return &state{ds: append(append([]*disjunct(nil), a.ds...), b.ds...)}
}

// ---- atoms -----------------------------------------------------------------------------------

type atomKind int

const (
	aVal atomKind = iota
	aLen
	aCap
	aNil
	aMem
	aFresh
)

type atomInfo struct {
	kind         atomKind
	key          valKey
	name         string
	lo           int64 // type range (valid when hasLo/hasHi)
	hi           int64
	hasLo, hasHi bool
}

type atoms struct {
	byKey map[string]int
	info  []atomInfo
}

func newAtoms() *atoms { return &atoms{byKey: map[string]int{}} }

func (a *atoms) get(kind atomKind, k valKey, name string) int {
	key := fmt.Sprintf("%d|%d|%p", kind, k.f, k.v)
	if id, ok := a.byKey[key]; ok {
		return id
	}
	id := len(a.info)
	a.byKey[key] = id
	a.info = append(a.info, atomInfo{kind: kind, key: k, name: name})
	return id
}

func (a *atoms) fresh(name string) int {
	id := len(a.info)
	a.info = append(a.info, atomInfo{kind: aFresh, name: fmt.Sprintf("%s#%d", name, id)})
	return id
}

func (a *atoms) name(id int) string {
	if id < 0 || id >= len(a.info) {
		return fmt.Sprintf("v%d", id)
	}
	return a.info[id].name
}

func (a *atoms) rangeOf(v int) (int64, int64, bool, bool) {
	if v < 0 || v >= len(a.info) {
		return 0, 0, false, false
	}
	in := a.info[v]
	return in.lo, in.hi, in.hasLo, in.hasHi
}

func (a *atoms) setRange(id int, lo, hi int64, hasLo, hasHi bool) {
	a.info[id].lo, a.info[id].hi, a.info[id].hasLo, a.info[id].hasHi = lo, hi, hasLo, hasHi
}

// rangeFacts returns the type-range facts of the atoms mentioned (transitively irrelevant:
// only for the given variable ids).
func (a *atoms) rangeFacts(vars []int) []lin.Ineq {
	var out []lin.Ineq
	for _, v := range vars {
		if v < 0 || v >= len(a.info) {
			continue
		}
		in := a.info[v]
		if in.hasLo {
			out = append(out, lin.GE(lin.Var(v), lin.Const(in.lo)))
		}
		if in.hasHi {
			out = append(out, lin.LE(lin.Var(v), lin.Const(in.hi)))
		}
	}
	return out
}

// ---- entailment --------------------------------------------------------------------------------

// allFacts returns the disjunct's facts plus range facts of every atom they (and extra) mention.
func (it *interp) allFacts(d *disjunct, extra ...lin.Ineq) []lin.Ineq {
	seen := map[int]bool{}
	var vars []int
	collect := func(q lin.Ineq) {
		for _, v := range q.L.Vars() {
			if !seen[v] {
				seen[v] = true
				vars = append(vars, v)
			}
		}
	}
	for _, q := range d.facts {
		collect(q)
	}
	for _, q := range extra {
		collect(q)
	}
	out := append([]lin.Ineq(nil), d.facts...)
	out = append(out, it.at.rangeFacts(vars)...)
	return out
}

func (it *interp) entails(d *disjunct, goal lin.Ineq) bool {
	if goal.L.Bad() {
		return false // arithmetic overflow while building the goal: undecided
	}
	if t, h := goal.Trivial(); t && h {
		return true
	}
	it.nEntail++
	if d.fkeys[goal.Key()] {
		return true
	}
	// fast path: the goal follows from the type ranges of its atoms alone
	if ub, ok := goal.L.UpperBound(it.at.rangeOf); ok && ub <= 0 {
		it.nFast++
		return true
	}
	neg := goal.Neg()
	seed := neg.L.Vars()
	if len(seed) == 0 {
		return lin.Infeasible(it.allFacts(d), 6000)
	}
	t0 := time.Now()
	for hi, hops := range []int{1, 2, 4, 1 << 30} {
		sl, complete := lin.SliceHops(d.facts, seed, hops)
		all := append(append(make([]lin.Ineq, 0, len(sl)+8), sl...), neg)
		all = append(all, it.at.rangeFacts(lin.VarsOf(all))...)
		if lin.Infeasible(all, 4000) {
			it.tTrue[hi] += time.Since(t0)
			it.nTrue[hi]++
			return true
		}
		if complete {
			it.tFalse[hi] += time.Since(t0)
			it.nFalse[hi]++
			return false
		}
	}
	return false
}

func (it *interp) entailsAll(d *disjunct, goals []lin.Ineq) bool {
	for _, g := range goals {
		if !it.entails(d, g) {
			return false
		}
	}
	return true
}

// feasible is a sufficient infeasibility test around the most recently added facts; keeping an
// infeasible disjunct is sound (obligations must then hold on it too).
func (it *interp) feasible(d *disjunct) bool {
	it.nFeas++
	n := len(d.facts)
	if n == 0 {
		return true
	}
	from := n - 4
	if from < 0 {
		from = 0
	}
	seed := lin.VarsOf(d.facts[from:])
	for _, hops := range []int{2, 4} {
		sl, complete := lin.SliceHops(d.facts, seed, hops)
		all := append(append(make([]lin.Ineq, 0, len(sl)+8), sl...), it.at.rangeFacts(lin.VarsOf(sl))...)
		if lin.Infeasible(all, 3000) {
			return false
		}
		if complete {
			break
		}
	}
	return true
}

// stateEntails: every disjunct entails the goal.
func (it *interp) stateEntails(s *state, goal func(d *disjunct) []lin.Ineq) (bool, *disjunct) {
	for _, d := range s.ds {
		if !it.entailsAll(d, goal(d)) {
			return false, d
		}
	}
	return true, nil
}

// describe renders the facts relevant to a goal (for diagnostics).
func (it *interp) describe(d *disjunct, goal lin.Ineq) string {
	facts := lin.Slice(it.allFacts(d, goal), goal.L.Vars())
	var parts []string
	for _, f := range facts {
		parts = append(parts, f.String(it.at.name))
	}
	sort.Strings(parts)
	if len(parts) > 14 && os.Getenv("RTPCHECK_NEEDDBG") == "" {
		parts = append(parts[:14], fmt.Sprintf("... (%d more)", len(parts)-14))
	}
	return "goal " + goal.String(it.at.name) + " ; facts: " + strings.Join(parts, " ; ")
}
