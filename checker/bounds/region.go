package bounds

import (
	"os"
	"fmt"
	"go/types"
	"sort"
	"strings"

	"golang.org/x/tools/go/ssa"

	"rtpcheck/lin"
)

// ---- loop forest --------------------------------------------------------------------------------

type loop struct {
	head   *ssa.BasicBlock
	blocks map[*ssa.BasicBlock]bool
	parent *loop
	kids   []*loop
}

type forest struct {
	loops     map[*ssa.BasicBlock]*loop // by head
	innermost map[*ssa.BasicBlock]*loop
	rpo       []*ssa.BasicBlock
	rpoIdx    map[*ssa.BasicBlock]int
}

func buildForest(fn *ssa.Function) *forest {
	fr := &forest{loops: map[*ssa.BasicBlock]*loop{}, innermost: map[*ssa.BasicBlock]*loop{}, rpoIdx: map[*ssa.BasicBlock]int{}}
	// reverse post-order
	seen := map[*ssa.BasicBlock]bool{}
	var post []*ssa.BasicBlock
	var dfs func(b *ssa.BasicBlock)
	dfs = func(b *ssa.BasicBlock) {
		seen[b] = true
		for _, s := range b.Succs {
			if !seen[s] {
				dfs(s)
			}
		}
		post = append(post, b)
	}
	if len(fn.Blocks) > 0 {
		dfs(fn.Blocks[0])
	}
	for i := len(post) - 1; i >= 0; i-- {
		fr.rpoIdx[post[i]] = len(fr.rpo)
		fr.rpo = append(fr.rpo, post[i])
	}
	// natural loops
	for _, t := range fr.rpo {
		for _, h := range t.Succs {
			if !h.Dominates(t) {
				continue
			}
			l := fr.loops[h]
			if l == nil {
				l = &loop{head: h, blocks: map[*ssa.BasicBlock]bool{h: true}}
				fr.loops[h] = l
			}
			stack := []*ssa.BasicBlock{t}
			for len(stack) > 0 {
				x := stack[len(stack)-1]
				stack = stack[:len(stack)-1]
				if l.blocks[x] {
					continue
				}
				l.blocks[x] = true
				for _, p := range x.Preds {
					if seen[p] {
						stack = append(stack, p)
					}
				}
			}
		}
	}
	var all []*loop
	for _, l := range fr.loops {
		all = append(all, l)
	}
	sort.Slice(all, func(i, j int) bool {
		if len(all[i].blocks) != len(all[j].blocks) {
			return len(all[i].blocks) < len(all[j].blocks)
		}
		return all[i].head.Index < all[j].head.Index
	})
	for i, l := range all {
		for _, m := range all[i+1:] {
			if m != l && m.blocks[l.head] && len(m.blocks) > len(l.blocks) {
				l.parent = m
				m.kids = append(m.kids, l)
				break
			}
		}
	}
	for _, b := range fr.rpo {
		for _, l := range all { // smallest first
			if l.blocks[b] {
				fr.innermost[b] = l
				break
			}
		}
	}
	return fr
}

func (it *interp) forestOf(fn *ssa.Function) *forest {
	if fr, ok := it.forests[fn]; ok {
		return fr
	}
	fr := buildForest(fn)
	it.forests[fn] = fr
	return fr
}

// ---- edges and joins ------------------------------------------------------------------------------

type edgeIn struct {
	from *ssa.BasicBlock
	st   *state
}

// applyPhis assigns the phis of block `to` for the edge from `from` (parallel assignment).
func (it *interp) applyPhis(s *state, f frameID, from, to *ssa.BasicBlock) *state {
	idx := -1
	for i, p := range to.Preds {
		if p == from {
			idx = i
			break
		}
	}
	if idx < 0 {
		return s
	}
	var phis []*ssa.Phi
	for _, in := range to.Instrs {
		p, ok := in.(*ssa.Phi)
		if !ok {
			break
		}
		phis = append(phis, p)
	}
	if len(phis) == 0 {
		return s
	}
	out := &state{}
	for _, d := range s.ds {
		nd := d.clone()
		reps := make([]rep, len(phis))
		for i, p := range phis {
			reps[i] = it.repOf(d, f, p.Edges[idx])
			if reps[i].kind == kInt && reps[i].lin == nil {
				// boolean defined by a comparison: keep the reference
			}
		}
		for i, p := range phis {
			nd.vals[valKey{f, p}] = reps[i]
		}
		out.ds = append(out.ds, nd)
	}
	return out
}

// joinStates unions incoming states, pruning to K disjuncts by merging.
func (it *interp) joinStates(ins []*state) *state {
	out := &state{}
	for _, s := range ins {
		if s != nil {
			out.ds = append(out.ds, s.ds...)
		}
	}
	if len(out.ds) > it.K {
		if len(out.ds) > it.maxJoin {
			it.maxJoin = len(out.ds)
		}
		it.nMerges += len(out.ds) - it.K
		out = it.reduce(out)
	}
	return out
}

// reduce merges disjuncts until at most K remain. A merge keeps the facts of either side that
// the other side entails, and the value/memory representations on which both agree.
func (it *interp) reduce(s *state) *state {
	ds := append([]*disjunct(nil), s.ds...)
	type pair struct{ a, b *disjunct }
	scores := map[pair]int{}
	sigs := map[*disjunct]string{}
	sigOf := func(d *disjunct) string {
		if sg, ok := sigs[d]; ok {
			return sg
		}
		sg := nilSig(d)
		sigs[d] = sg
		return sg
	}
	msigs := map[*disjunct]string{}
	msigOf := func(d *disjunct) string {
		if sg, ok := msigs[d]; ok {
			return sg
		}
		sg := memNilSig(d)
		msigs[d] = sg
		return sg
	}
	score := func(x, y *disjunct) int {
		if v, ok := scores[pair{x, y}]; ok {
			return v
		}
		common := 0
		small, big := x, y
		if len(y.fkeys) < len(x.fkeys) {
			small, big = y, x
		}
		for k := range small.fkeys {
			if big.fkeys[k] {
				common++
			}
		}
		v := common*2 - len(x.fkeys) - len(y.fkeys)
		if sigOf(x) != sigOf(y) {
			v -= 100000 // never merge an error path with a success path if avoidable
		}
		if msigOf(x) != msigOf(y) {
			v -= 1000
		}
		if nf := it.flagDisagreements(x, y); nf > 0 {
			v -= flagPenalty * nf // the paths took different arms of a flag test: facts that hold only under the flag would be lost
		}
		if listSig(x) != listSig(y) {
			v -= 3000 // the paths know the last element of different lists (lists.go): merging forgets both
		}
		if it.reduceTag != "" && x.tags[it.reduceTag] != y.tags[it.reduceTag] {
			v -= 5000 // different caller paths: merge the callee's outcomes of one path first
		}
		scores[pair{x, y}] = v
		return v
	}
	for len(ds) > it.K {
		bi, bj, best := 0, 1, -1<<30
		lim := len(ds)
		if lim > 48 {
			lim = 48
		}
		for i := 0; i < lim; i++ {
			for j := i + 1; j < lim; j++ {
				if sc := score(ds[i], ds[j]); sc > best {
					best, bi, bj = sc, i, j
				}
			}
		}
		m := it.merge(ds[bi], ds[bj])
		nds := ds[:0:0]
		for k, d := range ds {
			if k != bi && k != bj {
				nds = append(nds, d)
			}
		}
		// the merged disjunct goes to the front so that it takes part in the next comparisons
		ds = append([]*disjunct{m}, nds...)
	}
	return &state{ds: ds}
}

func repEqual(a, b rep) bool {
	if a.kind != b.kind || a.lst != b.lst {
		return false
	}
	le := func(x, y *lin.Lin) bool {
		if x == nil || y == nil {
			return x == y
		}
		return x.Equal(y)
	}
	if !le(a.lin, b.lin) || !le(a.len, b.len) || !le(a.cap, b.cap) || !le(a.isnil, b.isnil) {
		return false
	}
	if (a.cmp == nil) != (b.cmp == nil) {
		return false
	}
	if a.cmp != nil && (*a.cmp != *b.cmp) {
		return false
	}
	if (a.at == nil) != (b.at == nil) {
		return false
	}
	if a.at != nil && a.at.key() != b.at.key() {
		return false
	}
	if len(a.tuple) != len(b.tuple) {
		return false
	}
	for i := range a.tuple {
		if !repEqual(a.tuple[i], b.tuple[i]) {
			return false
		}
	}
	return true
}

func (it *interp) merge(a, b *disjunct) *disjunct {
	m := newDisjunct()
	for k, ta := range a.tags {
		if tb, ok := b.tags[k]; ok {
			if t := mergeTags(ta, tb); t != "" {
				if m.tags == nil {
					m.tags = map[string]string{}
				}
				m.tags[k] = t
			}
		}
	}
	// memoised call results that both sides hold in the same form survive
	for _, ea := range a.memo {
		for _, eb := range b.memo {
			if ea.callee != eb.callee || len(ea.args) != len(eb.args) || !repEqual(ea.res, eb.res) {
				continue
			}
			same := true
			for i := range ea.args {
				if !repEqual(ea.args[i], eb.args[i]) {
					same = false
				}
			}
			if same {
				m.memo = append(m.memo, ea)
				break
			}
		}
	}
	// values: equal reps are kept; differing integer reps become a fresh atom constrained by
	// what both sides entail about them
	type pending struct {
		k      valKey
		la, lb *lin.Lin
		at     *lin.Lin
		isLen  bool // the length of a slice value or cell (the constant-difference hull is tried for these only)
	}
	var pend []pending
	var mergeRep func(k valKey, ra, rb rep, depth int) (rep, bool)
	mergeRep = func(k valKey, ra, rb rep, depth int) (rep, bool) {
		if repEqual(ra, rb) {
			return ra, true
		}
		if k.v == nil {
			return rep{}, false
		}
		switch {
		case ra.kind == kInt && rb.kind == kInt && ra.lin != nil && rb.lin != nil:
			at := it.valAtom(k.f, k.v)
			pend = append(pend, pending{k, ra.lin, rb.lin, at, false})
			return rep{kind: kInt, lin: at}, true
		case ra.kind == kSlice && rb.kind == kSlice && ra.len != nil && rb.len != nil:
			l, c := it.lenAtom(k.f, k.v)
			pend = append(pend, pending{k, ra.len, rb.len, l, true}, pending{k, ra.cap, rb.cap, c, false})
			m.addFact(lin.LE(l, c))
			nl := it.nilAtom(k.f, k.v)
			if ra.isnil != nil && rb.isnil != nil {
				pend = append(pend, pending{k, ra.isnil, rb.isnil, nl, false})
			}
			return rep{kind: kSlice, len: l, cap: c, isnil: nl}, true
		case ra.kind == kPtr && rb.kind == kPtr:
			nl := it.nilAtom(k.f, k.v)
			if ra.isnil != nil && rb.isnil != nil {
				pend = append(pend, pending{k, ra.isnil, rb.isnil, nl, false})
			}
			r := rep{kind: kPtr, isnil: nl}
			if ra.at != nil && rb.at != nil && ra.at.key() == rb.at.key() {
				r.at = ra.at
			}
			return r, true
		case ra.kind == kTuple && rb.kind == kTuple && len(ra.tuple) == len(rb.tuple) && depth < 2:
			r := rep{kind: kTuple}
			for i := range ra.tuple {
				e, ok := mergeRep(valKey{k.f, tupleElem{k.v, i}}, ra.tuple[i], rb.tuple[i], depth+1)
				if !ok {
					e = it.freshRep(m, k.f, tupleElem{k.v, i}, tupleElemType(k.v, i))
				}
				r.tuple = append(r.tuple, e)
			}
			return r, true
		}
		return rep{}, false
	}
	for k, ra := range a.vals {
		rb, ok := b.vals[k]
		if !ok {
			continue
		}
		if r, ok := mergeRep(k, ra, rb, 0); ok {
			m.vals[k] = r
		}
	}
	// memory: a cell survives when both sides agree; cells that differ get a fresh atom constrained by
	// what both sides entail (a side on which the cell is not materialised but whose object is still
	// zero-initialised contributes the zero value). A cell that cannot be merged is forgotten, and
	// with it the "still zero" marker of its object — otherwise a later load would read 0.
	var mkeys []string
	seenKey := map[string]bool{}
	for k := range a.mem {
		mkeys = append(mkeys, k)
		seenKey[k] = true
	}
	for k := range b.mem {
		if !seenKey[k] {
			mkeys = append(mkeys, k)
		}
	}
	sort.Strings(mkeys)
	dirty := map[string]bool{} // zero markers that must not survive
	sideRep := func(d *disjunct, k string, other *memCell) (rep, bool) {
		if c, ok := d.mem[k]; ok {
			return c.val, true
		}
		if _, z := d.mem[zeroMarker(other.a)]; z && other.typ != nil {
			if zr := it.zeroRep(other.typ); zr.kind != kNone {
				return zr, true
			}
		}
		return rep{}, false
	}
	for _, k := range mkeys {
		if strings.HasSuffix(k, "|zero") {
			continue
		}
		ca, cb := a.mem[k], b.mem[k]
		ref := ca
		if ref == nil {
			ref = cb
		}
		if ca != nil && cb != nil && (ca == cb || repEqual(ca.val, cb.val)) {
			m.mem[k] = ca
			continue
		}
		ra, oka := sideRep(a, k, ref)
		rb, okb := sideRep(b, k, ref)
		merged := false
		if oka && okb {
			switch {
			case repEqual(ra, rb):
				m.mem[k] = &memCell{a: ref.a, typ: ref.typ, val: ra}
				merged = true
			case ra.kind == kInt && rb.kind == kInt && ra.lin != nil && rb.lin != nil && ref.typ != nil:
				id := it.at.fresh("mem" + ref.a.path)
				lo, hi, hl, hh := intRange(ref.typ)
				it.at.setRange(id, lo, hi, hl, hh)
				at := lin.Var(id)
				pend = append(pend, pending{valKey{}, ra.lin, rb.lin, at, false})
				m.mem[k] = &memCell{a: ref.a, typ: ref.typ, val: rep{kind: kInt, lin: at}}
				merged = true
			case ra.kind == kSlice && rb.kind == kSlice && ra.len != nil && rb.len != nil && ra.cap != nil && rb.cap != nil:
				li, ci := it.at.fresh("len(mem"+ref.a.path+")"), it.at.fresh("cap(mem"+ref.a.path+")")
				it.at.setRange(li, 0, 0, true, false)
				it.at.setRange(ci, 0, 0, true, false)
				l, c := lin.Var(li), lin.Var(ci)
				pend = append(pend, pending{valKey{}, ra.len, rb.len, l, true}, pending{valKey{}, ra.cap, rb.cap, c, false})
				m.addFact(lin.LE(l, c))
				r := rep{kind: kSlice, len: l, cap: c}
				if ra.isnil != nil && rb.isnil != nil {
					ni := it.at.fresh("isnil(mem" + ref.a.path + ")")
					it.at.setRange(ni, 0, 1, true, true)
					r.isnil = lin.Var(ni)
					pend = append(pend, pending{valKey{}, ra.isnil, rb.isnil, r.isnil, false})
				}
				m.mem[k] = &memCell{a: ref.a, typ: ref.typ, val: r}
				merged = true
			case ra.kind == kPtr && rb.kind == kPtr:
				r := rep{kind: kPtr}
				if ra.isnil != nil && rb.isnil != nil {
					ni := it.at.fresh("isnil(mem" + ref.a.path + ")")
					it.at.setRange(ni, 0, 1, true, true)
					r.isnil = lin.Var(ni)
					pend = append(pend, pending{valKey{}, ra.isnil, rb.isnil, r.isnil, false})
				}
				if ra.at != nil && rb.at != nil && ra.at.key() == rb.at.key() {
					r.at = ra.at
				}
				m.mem[k] = &memCell{a: ref.a, typ: ref.typ, val: r}
				merged = true
			}
		}
		if !merged {
			dirty[zeroMarker(ref.a)] = true
		}
	}
	for _, k := range mkeys {
		if !strings.HasSuffix(k, "|zero") || dirty[k] {
			continue
		}
		if ca, ok := a.mem[k]; ok {
			if _, ok := b.mem[k]; ok {
				m.mem[k] = ca
			}
		}
	}
	// facts entailed by both sides
	fa := append([]lin.Ineq(nil), a.facts...)
	fb := append([]lin.Ineq(nil), b.facts...)
	for _, p := range pend {
		fa = append(fa, lin.EQ(p.at, p.la)...)
		fb = append(fb, lin.EQ(p.at, p.lb)...)
	}
	// a value that is v + c on one side (the loop index plus one, returned from inside the loop) and something
	// else on the other: what the side knows about v is restated for the merged atom (v := at - c), so that
	// "i < len(x)" can survive as "at <= len(x)" when the other side entails it too
	if os.Getenv("RTPCHECK_NOSUBST") == "" {
		restate := func(own []lin.Ineq, get func(p pending) *lin.Lin) []lin.Ineq {
			var extra []lin.Ineq
			for _, p := range pend {
				if len(extra) >= 12 {
					break
				}
				l := get(p)
				v, cst, ok := l.VarPlusConst()
				if !ok || l.Coef(v) != 1 {
					continue
				}
				e := p.at.AddConst(-cst)
				k := 0
				for _, q := range own {
					if k >= 4 {
						break
					}
					if q.L.Has(v) && len(q.L.Vars()) <= 5 {
						extra = append(extra, q.Subst(v, e))
						k++
					}
				}
			}
			return extra
		}
		ea := restate(a.facts, func(p pending) *lin.Lin { return p.la })
		eb := restate(b.facts, func(p pending) *lin.Lin { return p.lb })
		fa = append(fa, ea...)
		fb = append(fb, eb...)
	}
	da, db := a.clone(), b.clone()
	da.facts, db.facts = fa, fb
	// facts present on both sides are kept for free; for the others only a bounded number of
	// entailment attempts is made, shortest facts first (dropping a fact is always sound)
	const maxTries = 32
	var flagsHere, flagsOther map[int]int64
	tryKeep := func(fs []lin.Ineq, otherKeys map[string]bool, other *disjunct) {
		var rest []lin.Ineq
		for _, q := range fs {
			k := q.Key()
			if m.fkeys[k] {
				continue
			}
			if otherKeys[k] {
				m.addFact(q)
				continue
			}
			rest = append(rest, q)
		}
		sort.SliceStable(rest, func(i, j int) bool { return len(rest[i].L.Vars()) < len(rest[j].L.Vars()) })
		if len(rest) > maxTries {
			rest = rest[:maxTries]
		}
		for _, q := range rest {
			if it.entails(other, q) {
				m.addFact(q)
				continue
			}
			// a lower bound x >= c (c > 0) that holds on this side only, where this side has a 0/1 flag b
			// pinned to 1 and the other side has it pinned to 0: x >= c*b holds on both when the other side
			// knows x >= 0 ("Padding implies PaddingSize >= 1" survives the merge as PaddingSize >= Padding)
			v, c, ok := q.L.Scale(-1).VarPlusConst() // q: -x + c <= 0  <=>  x - c >= 0
			if !ok || c >= 0 || len(flagsHere) == 0 {
				continue
			}
			for b, val := range flagsHere {
				if val != 1 || flagsOther[b] != 0 {
					continue
				}
				if _, pinned := flagsOther[b]; !pinned {
					continue
				}
				cand := lin.GE(lin.Var(v), lin.Var(b).Scale(-c))
				if !m.fkeys[cand.Key()] && it.entails(other, cand) {
					m.addFact(cand)
				}
			}
		}
	}
	pa, pb := it.flagPins(a), it.flagPins(b)
	flagsHere, flagsOther = pa, pb
	tryKeep(fa, b.fkeys, db)
	flagsHere, flagsOther = pb, pa
	tryKeep(fb, a.fkeys, da)
	// values that differ on the two sides but whose difference (or sum) is the same expression on both
	// keep that relation between their merged atoms (r = n - w stays r + w = n when w and r are merged)
	if len(pend) <= 40 && os.Getenv("RTPCHECK_NOPAIR") == "" {
		for i := 0; i < len(pend); i++ {
			for j := i + 1; j < len(pend); j++ {
				p, q := pend[i], pend[j]
				if p.la == nil || p.lb == nil || q.la == nil || q.lb == nil || p.la.Bad() || p.lb.Bad() || q.la.Bad() || q.lb.Bad() {
					continue
				}
				if da, db := p.la.Sub(q.la), p.lb.Sub(q.lb); da.Equal(db) && len(da.Vars()) <= 3 {
					for _, e := range lin.EQ(p.at.Sub(q.at), da) {
						m.addFact(e)
					}
				} else if sa, sb := p.la.Add(q.la), p.lb.Add(q.lb); sa.Equal(sb) && len(sa.Vars()) <= 3 {
					for _, e := range lin.EQ(p.at.Add(q.at), sa) {
						m.addFact(e)
					}
				}
			}
		}
	}
	// hull candidates for the pending atoms: bounds by each side's expression and small
	// constants, plus every fact one side knows about its own value (when that value is a single
	// variable) re-stated for the merged atom
	for _, p := range pend {
		cands := []lin.Ineq{lin.LE(p.at, p.la), lin.GE(p.at, p.la), lin.LE(p.at, p.lb), lin.GE(p.at, p.lb)}
		for side, l := range []*lin.Lin{p.la, p.lb} {
			v, off, single := l.VarPlusConst()
			if !single {
				continue
			}
			repl := p.at.AddConst(-off) // l = v + off, hence v = merged - off
			src := a.facts
			if side == 1 {
				src = b.facts
			}
			n := 0
			for _, q := range src {
				if q.L.Has(v) && len(q.L.Vars()) <= 5 {
					cands = append(cands, q.Subst(v, repl))
					n++
					if n > 12 {
						break
					}
				}
			}
		}
		// both sides give the value as a constant (1 octet on one path, 2 on the other): a fact that the two
		// sides state with the same linear part and constants that differ by a multiple of the values'
		// difference is the same fact about the merged atom (x + 1 <= y and x + 2 <= y become x + at <= y)
		if ca, okA := p.la.ConstVal(); okA && p.isLen && os.Getenv("RTPCHECK_NOCDIFF") == "" {
			if cb, okB := p.lb.ConstVal(); okB && ca != cb {
				byPart := map[string]int64{}
				for _, q := range b.facts {
					if len(q.L.Vars()) >= 1 && len(q.L.Vars()) <= 4 {
						byPart[q.L.AddConst(-q.L.ConstTerm()).Key()] = q.L.ConstTerm()
					}
				}
				n := 0
				for _, q := range a.facts {
					if len(q.L.Vars()) < 1 || len(q.L.Vars()) > 4 {
						continue
					}
					part := q.L.AddConst(-q.L.ConstTerm())
					kb, ok := byPart[part.Key()]
					ka := q.L.ConstTerm()
					if !ok || ka == kb || (ka-kb)%(ca-cb) != 0 {
						continue
					}
					lam := (ka - kb) / (ca - cb)
					cands = append(cands, lin.Ineq{L: q.L.Add(p.at.AddConst(-ca).Scale(lam))})
					if n++; n > 6 {
						break
					}
				}
			}
		}
		for _, c := range []int64{-1, 0, 1, 2, 3, 4} {
			cands = append(cands, lin.GE(p.at, lin.Const(c)))
		}
		for _, q := range cands {
			if m.fkeys[q.Key()] {
				continue
			}
			if it.entails(da, q) && it.entails(db, q) {
				m.addFact(q)
			}
		}
	}
	return m
}

// ---- region interpretation ------------------------------------------------------------------------

type edgeKey struct{ from, to *ssa.BasicBlock }

type backEdge struct {
	from *ssa.BasicBlock
	st   *state
}

type regionOut struct {
	exits map[edgeKey]*state
	backs []backEdge
}

// runRegion interprets the blocks of loop L (or the whole function when L == nil) starting at
// entry with state s0. Child loops are analysed as units.
func (it *interp) runRegion(f frameID, fn *ssa.Function, L *loop, entry *ssa.BasicBlock, s0 *state) regionOut {
	fr := it.forestOf(fn)
	out := regionOut{exits: map[edgeKey]*state{}}
	incoming := map[*ssa.BasicBlock][]edgeIn{}
	deliver := func(from, to *ssa.BasicBlock, st *state) {
		if st.empty() {
			return
		}
		if L != nil && to == L.head {
			out.backs = append(out.backs, backEdge{from, st})
			return
		}
		if L != nil && !L.blocks[to] {
			k := edgeKey{from, to}
			out.exits[k] = union(out.exits[k], st)
			return
		}
		incoming[to] = append(incoming[to], edgeIn{from, st})
	}
	for _, b := range fr.rpo {
		if b == fn.Recover {
			continue
		}
		if L != nil && !L.blocks[b] {
			continue
		}
		inner := fr.innermost[b]
		isChildHead := false
		if inner != L {
			// b belongs to a nested loop: only its head is handled here, and only for direct children
			if inner != nil && inner.head == b && inner.parent == L {
				isChildHead = true
			} else {
				continue
			}
		}
		var s *state
		if b == entry {
			s = s0
		} else {
			ins := incoming[b]
			if len(ins) == 0 {
				continue
			}
			if isChildHead {
				exits := it.analyzeLoop(f, fn, inner, ins)
				var keys []edgeKey
				for k := range exits {
					keys = append(keys, k)
				}
				sort.Slice(keys, func(i, j int) bool {
					if keys[i].from.Index != keys[j].from.Index {
						return keys[i].from.Index < keys[j].from.Index
					}
					return keys[i].to.Index < keys[j].to.Index
				})
				for _, k := range keys {
					deliver(k.from, k.to, exits[k])
				}
				continue
			}
			var sts []*state
			for _, e := range ins {
				sts = append(sts, it.applyPhis(e.st, f, e.from, b))
			}
			s = it.joinStates(sts)
		}
		if s.empty() {
			continue
		}
		s = it.execBlock(f, fn, b, s, deliver)
	}
	return out
}

// execBlock runs the instructions of b and delivers the resulting states to the successors.
func (it *interp) execBlock(f frameID, fn *ssa.Function, b *ssa.BasicBlock, s *state, deliver func(from, to *ssa.BasicBlock, st *state)) *state {
	for _, in := range b.Instrs {
		if s.empty() {
			return s
		}
		switch x := in.(type) {
		case *ssa.Phi:
			continue
		case *ssa.If:
			it.hookTerminator(s, f, fn, in)
			t, e := it.branch(s, f, x.Cond)
			deliver(b, b.Succs[0], t)
			deliver(b, b.Succs[1], e)
			return s
		case *ssa.Jump:
			it.hookTerminator(s, f, fn, in)
			deliver(b, b.Succs[0], s)
			return s
		case *ssa.Return:
			it.doReturn(f, fn, x, s)
			return s
		default:
			s = it.execInstr(s, f, fn, in)
		}
	}
	return s
}

// hookTerminator hands If and Jump instructions to AtInstr (contracts anchored at a loop's entry edge).
func (it *interp) hookTerminator(s *state, f frameID, fn *ssa.Function, in ssa.Instruction) {
	if it.record && it.hooks != nil && it.hooks.AtInstr != nil {
		for _, d := range s.ds {
			it.hooks.AtInstr(&Helper{it: it, f: f, fn: fn, in: in}, fn, in, &Disjunct{d: d, it: it, f: f})
		}
	}
}

func (it *interp) doReturn(f frameID, fn *ssa.Function, ret *ssa.Return, s *state) {
	for _, d := range s.ds {
		nd := d.clone()
		nd.rets = nil
		for _, r := range ret.Results {
			nd.rets = append(nd.rets, it.repOf(nd, f, r))
		}
		if it.finfo[f].depth == 0 && it.record {
			if ms := it.modular[funcFullName(fn)]; ms != nil && ms.Post != nil && len(nd.rets) == 1 && nd.rets[0].kind == kInt && nd.rets[0].lin != nil {
				it.checkPost(f, fn, ret, nd, ms)
			}
		}
		if it.finfo[f].depth == 0 && it.record && it.hooks != nil && it.hooks.AtReturn != nil {
			it.hooks.AtReturn(&Helper{it: it, f: f, fn: fn, in: ret}, fn, ret, &Disjunct{d: nd, it: it, f: f})
		}
		top := len(it.retStack) - 1
		it.retStack[top] = append(it.retStack[top], nd)
	}
}

var _ = fmt.Sprintf

func tupleElemType(v ssa.Value, i int) types.Type {
	if t, ok := v.Type().(*types.Tuple); ok && i < t.Len() {
		return t.At(i).Type()
	}
	return types.Typ[types.Int]
}

// nilSig summarises the constant nil-ness of call results (error / pointer returns) in d.
func nilSig(d *disjunct) string {
	var parts []string
	add := func(k valKey, name string, r rep) {
		if r.isnil == nil {
			return
		}
		if c, ok := r.isnil.ConstVal(); ok {
			parts = append(parts, fmt.Sprintf("%d:%s=%d", k.f, name, c))
		}
	}
	for k, r := range d.vals {
		switch k.v.(type) {
		case *ssa.Call:
			if r.kind == kTuple {
				for i, e := range r.tuple {
					add(k, fmt.Sprintf("%s.%d", k.v.Name(), i), e)
				}
			} else {
				add(k, k.v.Name(), r)
			}
		}
	}
	sort.Strings(parts)
	return strings.Join(parts, ",")
}

// memNilSig summarises the nil-ness this path has decided for pointer / slice memory cells (a field
// that is set on one path only: merging the two paths loses the correlation between the field and
// everything computed from it, so such merges are taken last among same-verdict paths).
func memNilSig(d *disjunct) string {
	var parts []string
	// pointer / slice memory cells whose nil-ness this path has decided (a field that is set on one
	// path only: merging the two paths would lose the correlation between the field and everything
	// computed from it)
	for mk, c := range d.mem {
		if c == nil || strings.HasSuffix(mk, "|zero") {
			continue
		}
		if c.val.isnil == nil {
			continue
		}
		if k, ok := c.val.isnil.ConstVal(); ok {
			parts = append(parts, fmt.Sprintf("m%s=%d", mk, k))
			continue
		}
		if d.fkeys[lin.LE(c.val.isnil, lin.Const(0)).Key()] {
			parts = append(parts, fmt.Sprintf("m%s=0", mk))
		} else if d.fkeys[lin.GE(c.val.isnil, lin.Const(1)).Key()] {
			parts = append(parts, fmt.Sprintf("m%s=1", mk))
		}
	}
	sort.Strings(parts)
	return strings.Join(parts, ",")
}

// mergeTags unions two "+"-separated sets of loop-head disjunct tags.
func mergeTags(a, b string) string {
	if a == b {
		return a
	}
	if a == "" || b == "" {
		return ""
	}
	set := map[string]bool{}
	for _, t := range strings.Split(a, "+") {
		set[t] = true
	}
	for _, t := range strings.Split(b, "+") {
		set[t] = true
	}
	var ts []string
	for t := range set {
		ts = append(ts, t)
	}
	sort.Strings(ts)
	return strings.Join(ts, "+")
}

// checkPost proves the postcondition of a modularly analysed function at one of its returns.
func (it *interp) checkPost(f frameID, fn *ssa.Function, ret *ssa.Return, nd *disjunct, ms *ModSpec) {
	var params []ssa.Value
	for _, pa := range fn.Params {
		params = append(params, pa)
	}
	res := nd.rets[0].lin
	common, alts := ms.Post(&Disjunct{d: nd, it: it, f: f}, params, res)
	ok := it.entailsAll(nd, common)
	why := ""
	if !ok {
		why = "common part not entailed"
	}
	// the guards cover every result: no result satisfies common and falsifies every guard. Each guard is
	// a conjunction; its negation is a disjunction, so coverage is checked guard by guard on the interval
	// structure the specs use: a result outside all guards would make every guard infeasible.
	covered := false
	for _, a := range alts {
		t := nd.clone()
		t.addFacts(a.Guard...)
		if !it.feasible(t) {
			continue
		}
		covered = true
		if !it.entailsAll(t, a.Concl) {
			ok = false
			if why == "" {
				why = "under guard " + it.describe(t, a.Concl[0])
			}
		}
	}
	if !covered && it.feasible(nd) {
		ok, why = false, "no alternative of the postcondition is feasible at this return"
	}
	// coverage: no result at this return falsifies every guard (one negated literal per guard, all
	// combinations infeasible); a.L <= 0 negated is -a.L + 1 <= 0 over the integers
	if ok && len(alts) <= 4 {
		var rec func(i int, t *disjunct) bool
		rec = func(i int, t *disjunct) bool {
			if i == len(alts) {
				return !it.feasible(t)
			}
			for _, g := range alts[i].Guard {
				t2 := t.clone()
				t2.addFact(lin.Ineq{L: g.L.Scale(-1).AddConst(1)})
				if !rec(i+1, t2) {
					return false
				}
			}
			return true
		}
		if !rec(0, nd.clone()) {
			ok, why = false, "a result outside every guard of the postcondition is possible at this return"
		}
	}
	it.oblige(fn, ret, "CTR", "post: "+ms.PostText, ok, func() string { return why })
}

// flagPins: the 0/1-valued atoms that the path condition pins to a constant (b <= 0, or -b+1 <= 0).
func (it *interp) flagPins(d *disjunct) map[int]int64 {
	pins := map[int]int64{}
	for _, q := range d.facts {
		vs := q.L.Vars()
		if len(vs) != 1 {
			continue
		}
		lo, hi, hl, hh := it.at.rangeOf(vs[0])
		if !hl || !hh || lo != 0 || hi != 1 || !it.inputFlag(vs[0]) {
			continue
		}
		v, c, ok := q.L.VarPlusConst()
		if ok && c == 0 { // b <= 0
			pins[v] = 0
		} else if q.L.Scale(-1).AddConst(1).Equal(lin.Var(vs[0])) { // -b + 1 <= 0
			pins[vs[0]] = 1
		}
	}
	return pins
}

func (it *interp) flagDisagreements(x, y *disjunct) int {
	px, py := it.flagPins(x), it.flagPins(y)
	n := 0
	for v, a := range px {
		if b, ok := py[v]; ok && a != b {
			n++
		}
	}
	return n
}

var flagPenalty = func() int {
	if s := os.Getenv("RTPCHECK_FLAGPEN"); s != "" {
		var n int
		fmt.Sscan(s, &n)
		return n
	}
	return 0 // disabled: it protects input flags at the price of merging cursor-different paths (VP9 header parser)
}()

// inputFlag: the atom is the value of a boolean parameter, or of a boolean field loaded from an object that
// is a parameter of its frame (the flags a caller sets: p.Header.Padding, isLast), as opposed to a flag the
// analysed code computed itself.
func (it *interp) inputFlag(v int) bool {
	if v < 0 || v >= len(it.at.info) {
		return false
	}
	in := it.at.info[v]
	if in.kind != aVal || in.key.v == nil {
		return false
	}
	switch x := in.key.v.(type) {
	case *ssa.Parameter:
		return true
	case *ssa.UnOp:
		root := x.X
		for {
			switch y := root.(type) {
			case *ssa.FieldAddr:
				root = y.X
				continue
			case *ssa.Parameter:
				return true
			case *ssa.Alloc:
				// a value parameter spilled to a local (its only stores copy the parameter in)
				for _, ref := range *y.Referrers() {
					if st, ok := ref.(*ssa.Store); ok && st.Addr == ssa.Value(y) {
						if _, isP := st.Val.(*ssa.Parameter); isP {
							return true
						}
					}
				}
				return false
			}
			return false
		}
	case fieldKey:
		_, isP := x.Value.(*ssa.Parameter)
		return isP
	}
	return false
}
