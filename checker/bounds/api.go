package bounds

import (
	"fmt"
	"go/types"

	"golang.org/x/tools/go/ssa"

	"rtpcheck/core"
	"rtpcheck/lin"
)

// Config selects precision.
type Config struct {
	K        int // disjunct cap
	MaxDepth int // callee expansion depth
	RetCap   int // disjuncts kept per expanded call
	// Lemmas: module functions (full name) that are modelled by a lemma instead of being expanded; the
	// caller is responsible for checking the lemma against the function's code (see leb128LenLemma)
	Lemmas map[string]string
	// Modular: module functions (full name) that are analysed once as entries of their own under a
	// precondition instead of being expanded at every call: at a call the precondition is an obligation
	// (kind PRE) on the caller's path condition and the result is unconstrained; AnalyzeEntry of the
	// function itself starts from the precondition.
	Modular map[string]*ModSpec
	// LoopEntryCap > 0 reduces the entry state of every loop to that many path conditions
	LoopEntryCap int
}

// ModSpec is the precondition of a modularly analysed function, over its parameters (receiver first).
type ModSpec struct {
	Text string
	Pre  func(d *Disjunct, args []ssa.Value) []lin.Ineq
	// Post (optional, functions with one integer result): facts about the result res that hold at every
	// return — `common`, and for each alternative its conclusion whenever its guard holds. The function's
	// own entry analysis proves them at every return (obligation kind CTR "post"); a call assumes
	// common and splits the path over the alternatives (guard and conclusion), whose guards must cover
	// every result (checked: common together with the negation of all guards must be infeasible).
	PostText string
	Post     func(d *Disjunct, args []ssa.Value, res *lin.Lin) (common []lin.Ineq, alts []PostAlt)
}

// PostAlt is one guarded conclusion of a postcondition.
type PostAlt struct {
	Guard, Concl []lin.Ineq
}

// Engine analyses entry functions and accumulates aggregated obligations.
type Engine struct {
	it *interp
}

func New(prog *core.Program, cfg Config, hooks *Hooks) *Engine {
	it := newInterp(prog, cfg.K, cfg.MaxDepth)
	it.hooks = hooks
	if cfg.RetCap > 0 {
		it.retCap = cfg.RetCap
	}
	it.lemmas = cfg.Lemmas
	it.modular = cfg.Modular
	it.loopEntryCap = cfg.LoopEntryCap
	return &Engine{it: it}
}

// AnalyzeEntry interprets fn with unconstrained parameters (receiver assumed non-nil) and
// records obligations for fn and everything expanded below it. Anonymous functions defined in
// fn are analysed as further entries with unconstrained parameters and captured variables.
func (e *Engine) AnalyzeEntry(fn *ssa.Function) {
	it := e.it
	if len(fn.Blocks) == 0 {
		return
	}
	it.funcs[fn] = true
	f := it.frameFor(-1, nil, fn)
	it.finfo[f].depth = 0
	it.record = true
	d := newDisjunct()
	if ms := it.modular[funcFullName(fn)]; ms != nil {
		var params []ssa.Value
		for _, pa := range fn.Params {
			params = append(params, pa)
		}
		for _, q := range ms.Pre(&Disjunct{d: d, it: it, f: f}, params) {
			d.addFact(q)
		}
	}
	s := &state{ds: []*disjunct{d}}
	it.retStack = append(it.retStack, nil)
	it.runRegion(f, fn, nil, fn.Blocks[0], s)
	it.retStack = it.retStack[:len(it.retStack)-1]
	// closures that were never expanded in context are analysed with unconstrained parameters
	// and captured variables
	for _, anon := range fn.AnonFuncs {
		if !it.inlinedClosures[anon] {
			e.AnalyzeEntry(anon)
		}
	}
}

// LemmasUsed names the lemmas that replaced a call expansion in this analysis.
func (e *Engine) LemmasUsed() map[string]bool { return e.it.lemmasUsed }

func (e *Engine) Obligations() []*Oblig         { return e.it.sortedObligs() }
func (e *Engine) Funcs() map[*ssa.Function]bool { return e.it.funcs }
func (e *Engine) Stats() (entail, feas, steps int) {
	return e.it.nEntail, e.it.nFeas, e.it.steps
}

// MergeStats returns the largest join seen and the number of disjunct merges performed.
func (e *Engine) MergeStats() (maxJoin, merges int) { return e.it.maxJoin, e.it.nMerges }

// ---- hook helpers -------------------------------------------------------------------------------

// Helper registers contract obligations from hooks.
type Helper struct {
	it *interp
	f  frameID
	fn *ssa.Function
	in ssa.Instruction
}

// Disjunct is the read-only view of one path condition handed to hooks.
type Disjunct struct {
	d  *disjunct
	it *interp
	f  frameID
}

// Oblige records a CTR obligation anchored at the current instruction.
func (h *Helper) Oblige(text string, ok bool, detail string) {
	h.it.oblige(h.fn, h.in, "CTR", text, ok, func() string { return detail })
}

// ObligeAt records a CTR obligation anchored at another instruction of the same function (e.g. the
// condition of the loop whose entry edge is being crossed).
func (h *Helper) ObligeAt(at ssa.Instruction, text string, ok bool, detail string) {
	h.it.oblige(h.fn, at, "CTR", text, ok, func() string { return detail })
}

// ObligeEntry records a CTR obligation under the *entry* function of the analysis, named by its text alone:
// for clauses about the entry's behaviour whose witness may sit in a closure or helper today and elsewhere
// after a refactoring (the key of a known finding must not depend on that).
func (h *Helper) ObligeEntry(text string, ok bool, detail string) {
	f := h.f
	for int(f) >= 0 && int(f) < len(h.it.finfo) && h.it.finfo[f].parent >= 0 && h.it.finfo[f].parent != f {
		f = h.it.finfo[f].parent
	}
	fn := h.it.finfo[f].fn
	if fn == nil || len(fn.Blocks) == 0 || len(fn.Blocks[0].Instrs) == 0 {
		h.Oblige(text, ok, detail)
		return
	}
	at := fn.Blocks[0].Instrs[0]
	h.it.oblige(fn, at, "CTR", text, ok, func() string { return detail })
	if o := h.it.obls[fmt.Sprintf("%p|%s|%s", at, "CTR", text)]; o != nil {
		o.NoSrc = true
		o.Pos = fn.Pos()
	}
}

func (h *Helper) Depth() int { return h.it.finfo[h.f].depth }

// Int returns the linear form of an integer value of the current frame.
func (d *Disjunct) Int(v ssa.Value) *lin.Lin { return d.it.intLin(d.d, d.f, v) }

// Len returns len(v).
func (d *Disjunct) Len(v ssa.Value) *lin.Lin { l, _ := d.it.lenCap(d.d, d.f, v); return l }

// Cap returns cap(v).
func (d *Disjunct) Cap(v ssa.Value) *lin.Lin { _, c := d.it.lenCap(d.d, d.f, v); return c }

// IsNilKnown reports (isNil, known).
func (d *Disjunct) IsNilKnown(v ssa.Value) (bool, bool) {
	r := d.it.repOf(d.d, d.f, v)
	if r.isnil == nil {
		return false, false
	}
	if d.it.entailsAll(d.d, lin.EQ(r.isnil, lin.Const(1))) {
		return true, true
	}
	if d.it.entailsAll(d.d, lin.EQ(r.isnil, lin.Const(0))) {
		return false, true
	}
	return false, false
}

// NilLin returns the 0/1 term "v is nil" of a pointer, interface or slice value (nil when not tracked).
func (d *Disjunct) NilLin(v ssa.Value) *lin.Lin { return d.it.repOf(d.d, d.f, v).isnil }

// Entails reports whether the path condition entails all inequalities.
func (d *Disjunct) Entails(qs ...lin.Ineq) bool { return d.it.entailsAll(d.d, qs) }

// Satisfiable reports whether the path condition together with qs may hold.
func (d *Disjunct) Satisfiable(qs ...lin.Ineq) bool {
	nd := d.d.clone()
	nd.addFacts(qs...)
	return d.it.feasible(nd)
}

// Describe renders the facts relevant to a goal.
func (d *Disjunct) Describe(q lin.Ineq) string { return d.it.describe(d.d, q) }

// MemLen returns len of the slice stored in field `path` of the object the pointer value p
// points to (e.g. receiver field), if tracked.
func (d *Disjunct) MemLen(p ssa.Value, path string) *lin.Lin {
	a, ok := d.it.addrOf(d.d, d.f, p)
	if !ok {
		return nil
	}
	a.path += path
	if c, ok := d.d.mem[a.key()]; ok && c.val.kind == kSlice {
		return c.val.len
	}
	return nil
}

// MemInt returns the integer stored in field `path` of *p, if tracked.
func (d *Disjunct) MemInt(p ssa.Value, path string) *lin.Lin {
	a, ok := d.it.addrOf(d.d, d.f, p)
	if !ok {
		return nil
	}
	a.path += path
	if c, ok := d.d.mem[a.key()]; ok && c.val.kind == kInt {
		return c.val.lin
	}
	return nil
}

// IsErrorType reports whether t is the predeclared error type.
func IsErrorType(t types.Type) bool {
	n, ok := t.(*types.Named)
	return ok && n.Obj().Pkg() == nil && n.Obj().Name() == "error"
}

// QueryProfile renders time spent in entailment by outcome and slicing level.
func (e *Engine) QueryProfile() string {
	return fmt.Sprintf("true: n=%v t=%v ; false: n=%v t=%v ; fast=%d", e.it.nTrue, e.it.tTrue, e.it.nFalse, e.it.tFalse, e.it.nFast)
}

// Has reports whether value v was computed on this path (its defining instruction executed).
func (d *Disjunct) Has(v ssa.Value) bool {
	_, ok := d.d.vals[valKey{d.f, v}]
	return ok
}

// ErrIsNil reports whether the error-typed value v is known to be nil on this path.
func (d *Disjunct) ErrIsNil(v ssa.Value) bool {
	isNil, known := d.IsNilKnown(v)
	return known && isNil
}

// MinLen returns the greatest c <= max such that the path condition entails len(v) >= c.
func (d *Disjunct) MinLen(v ssa.Value, max int) int {
	l := d.Len(v)
	if l == nil || l.Bad() {
		return 0
	}
	c := 0
	for c < max && d.it.entailsAll(d.d, []lin.Ineq{lin.GE(l, lin.Const(int64(c+1)))}) {
		c++
	}
	return c
}

// EntryInt returns the linear form of an integer value of the *entry* function's frame (for
// contracts that relate something deep in the call tree to a parameter of the entry point).
func (d *Disjunct) EntryInt(v ssa.Value) *lin.Lin {
	f := d.f
	for int(f) >= 0 && int(f) < len(d.it.finfo) && d.it.finfo[f].parent >= 0 {
		f = d.it.finfo[f].parent
	}
	return d.it.intLin(d.d, f, v)
}

// EntryMemInt is MemInt evaluated in the entry function's frame (p is a value of the entry function).
func (d *Disjunct) EntryMemInt(p ssa.Value, path string) *lin.Lin {
	f := d.f
	for int(f) >= 0 && int(f) < len(d.it.finfo) && d.it.finfo[f].parent >= 0 {
		f = d.it.finfo[f].parent
	}
	a, ok := d.it.addrOf(d.d, f, p)
	if !ok {
		return nil
	}
	a.path += path
	if c, ok := d.d.mem[a.key()]; ok && c.val.kind == kInt {
		return c.val.lin
	}
	return nil
}

func funcFullName(fn *ssa.Function) string {
	if o := fn.Object(); o != nil {
		if fo, ok := o.(*types.Func); ok {
			return fo.FullName()
		}
	}
	return fn.String()
}
