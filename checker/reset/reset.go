// Package reset is the must-write / stale-state analysis (engine E4).
//
// For a decoder method M on *T it computes W, the receiver-reachable fields that M (with module
// callees expanded in place) writes on *some* path, and D(ret), the fields *definitely defined*
// at each success return.  Rule R1: W ⊆ D(ret) — "if one path decodes a field, every successful
// path must define it", so that decoding into a used receiver equals decoding into a fresh one.
//
// A store defines its field unless the stored value is derived from a stale (not yet defined)
// load of the same field (p.F = append(p.F, x), p.F = p.F + 1 ...).  Recognised reuse idioms:
// the edge on which a stale field was tested == nil (it then holds what a fresh receiver
// holds), F = F[:0], and F = F[:n] when the function overwrites F's elements in a loop.
package reset

import (
	"fmt"
	"go/token"
	"go/types"
	"sort"
	"strings"

	"golang.org/x/tools/go/ssa"

	"rtpcheck/core"
)

type rootKind int

const (
	rUnknown rootKind = iota
	rRecv             // the receiver object itself
	rEntry            // an object reachable from the receiver on entry (e.g. *p.packet)
	rFresh            // allocated during this call
)

// ptr is an abstract pointer: an object plus a field path inside it.
type ptr struct {
	kind rootKind
	obj  string // "" for recv; description for entry objects
	path string
}

func (p ptr) key(sub string) string {
	switch p.kind {
	case rRecv:
		return "recv" + p.path + sub
	case rEntry:
		return "entry(" + p.obj + ")" + p.path + sub
	}
	return ""
}

type dset map[string]bool

func (d dset) clone() dset {
	r := dset{}
	for k := range d {
		r[k] = true
	}
	return r
}

// Has reports whether key (or a prefix of it) is in the set.
func (d dset) Has(key string) bool { return d.has(key) }

func (d dset) has(key string) bool {
	if d[key] {
		return true
	}
	// a defined prefix (whole-struct store) defines every field below it
	for i := len(key) - 1; i > 0; i-- {
		if key[i] == '.' && d[key[:i]] {
			return true
		}
	}
	return false
}

func intersect(a, b dset) dset {
	if a == nil {
		return b.clone()
	}
	r := dset{}
	for k := range a {
		if b.has(k) {
			r[k] = true
		}
	}
	for k := range b {
		if a.has(k) {
			r[k] = true
		}
	}
	return r
}

func (d dset) sig() string {
	ks := make([]string, 0, len(d))
	for k := range d {
		ks = append(ks, k)
	}
	sort.Strings(ks)
	return strings.Join(ks, ",")
}

// Written describes one field in W.
type Written struct {
	Key string
	Pos token.Pos
	Fn  *ssa.Function
}

// ReturnInfo is D at one success return of the entry function.
type ReturnInfo struct {
	Ret *ssa.Return
	D   dset
}

type Result struct {
	Entry   *ssa.Function
	W       map[string]Written
	Returns []ReturnInfo
	Funcs   map[*ssa.Function]bool
	Notes   []string
}

type analysis struct {
	prog  *core.Program
	res   *Result
	depth int
}

type frame struct {
	fn    *ssa.Function
	bind  map[ssa.Value]ptr // parameters (and derived values) -> abstract pointer
	a     *analysis
	split map[ssa.Value][2]dset // call value -> (defined on success, defined on failure)
	stale map[*ssa.UnOp]bool    // loads of receiver fields that observed a not-yet-defined field
	up    *frame                // the frame whose call expanded this one
}

// Analyze runs the analysis with parameter recvIdx as the receiver.
func Analyze(prog *core.Program, entry *ssa.Function, recvIdx int) *Result {
	a := &analysis{prog: prog}
	a.res = &Result{Entry: entry, W: map[string]Written{}, Funcs: map[*ssa.Function]bool{}}
	f := &frame{fn: entry, bind: map[ssa.Value]ptr{}, a: a}
	f.bind[entry.Params[recvIdx]] = ptr{kind: rRecv}
	f.run(dset{}, true)
	return a.res
}

// pointerOf resolves an SSA value to an abstract pointer.
func (f *frame) pointerOf(v ssa.Value) ptr {
	if p, ok := f.bind[v]; ok {
		return p
	}
	switch x := v.(type) {
	case *ssa.FieldAddr:
		b := f.pointerOf(x.X)
		if b.kind == rUnknown {
			return b
		}
		b.path += "." + core.FieldName(x)
		return b
	case *ssa.Alloc, *ssa.MakeSlice, *ssa.MakeMap:
		return ptr{kind: rFresh}
	case *ssa.UnOp:
		if x.Op == token.MUL {
			// a pointer (or interface) loaded from receiver-reachable memory designates an entry object
			b := f.pointerOf(x.X)
			if b.kind == rRecv || b.kind == rEntry {
				if _, isLocal := f.localCell(x.X); !isLocal {
					return ptr{kind: rEntry, obj: b.key("")}
				}
			}
			if b.kind == rFresh {
				// value loaded from a local cell: find what was stored
				if val := core.Resolve(x); val != x {
					return f.pointerOf(val)
				}
			}
		}
	case *ssa.TypeAssert:
		return f.pointerOf(x.X)
	case *ssa.Extract:
		if ta, ok := x.Tuple.(*ssa.TypeAssert); ok && x.Index == 0 {
			return f.pointerOf(ta.X)
		}
	case *ssa.ChangeType:
		return f.pointerOf(x.X)
	case *ssa.MakeInterface:
		return f.pointerOf(x.X)
	case *ssa.Phi:
		var r ptr
		first := true
		for _, e := range x.Edges {
			p := f.pointerOf(e)
			if first {
				r, first = p, false
				continue
			}
			// entry-reachable dominates fresh (conservative for R1)
			if p.kind == rEntry || p.kind == rRecv {
				if r.kind == rFresh || r.kind == rUnknown {
					r = p
				}
			}
		}
		return r
	case *ssa.Const:
		return ptr{kind: rFresh} // nil pointer: no entry object
	}
	return ptr{kind: rUnknown}
}

func (f *frame) localCell(addr ssa.Value) (*ssa.Alloc, bool) {
	root, _ := core.AddrKey(addr)
	a, ok := root.(*ssa.Alloc)
	return a, ok
}

// leafFields expands a struct type into leaf field sub-paths ("" for non-struct types).
func leafFields(t types.Type, prefix string, out *[]string, depth int) {
	if st, ok := t.Underlying().(*types.Struct); ok && depth < 4 {
		for i := 0; i < st.NumFields(); i++ {
			leafFields(st.Field(i).Type(), prefix+"."+st.Field(i).Name(), out, depth+1)
		}
		return
	}
	*out = append(*out, prefix)
}

// run interprets the frame's function from entry state d0 and returns (Dsucc, Dfail).
func (f *frame) run(d0 dset, isEntry bool) (succ, fail dset) {
	fn := f.fn
	f.a.res.Funcs[fn] = true
	f.split = map[ssa.Value][2]dset{}
	f.stale = map[*ssa.UnOp]bool{}
	in := map[*ssa.BasicBlock]dset{fn.Blocks[0]: d0.clone()}
	outs := map[*ssa.BasicBlock]map[*ssa.BasicBlock]dset{}
	var rets []ReturnInfo
	for iter := 0; iter < 50; iter++ {
		changed := false
		succ, fail = nil, nil
		rets = nil
		for _, b := range fn.Blocks {
			if b == fn.Recover {
				continue
			}
			var cur dset
			if b == fn.Blocks[0] {
				cur = d0.clone()
			} else {
				have := false
				for _, p := range b.Preds {
					if o := outs[p]; o != nil && o[b] != nil {
						if !have {
							cur, have = o[b].clone(), true
						} else {
							cur = intersect(cur, o[b])
						}
					}
				}
				if !have {
					continue
				}
			}
			if old, ok := in[b]; !ok || old.sig() != cur.sig() {
				changed = true
			}
			in[b] = cur.clone()
			d := cur
			for _, inst := range b.Instrs {
				switch x := inst.(type) {
				case *ssa.Store:
					f.store(x, d)
				case *ssa.UnOp:
					if x.Op == token.MUL {
						p := f.pointerOf(x.X)
						if p.kind == rRecv || p.kind == rEntry {
							if !d.has(p.key("")) {
								f.stale[x] = true
							} else if _, seen := f.stale[x]; !seen {
								f.stale[x] = false
							}
						}
					}
				case *ssa.Call:
					f.call(x, d)
				case *ssa.If:
					t, e := f.refine(x.Cond, d)
					outs[b] = map[*ssa.BasicBlock]dset{}
					merge := func(to *ssa.BasicBlock, s dset) {
						if prev := outs[b][to]; prev != nil {
							outs[b][to] = intersect(prev, s)
						} else {
							outs[b][to] = s
						}
					}
					merge(b.Succs[0], t)
					merge(b.Succs[1], e)
				case *ssa.Jump:
					outs[b] = map[*ssa.BasicBlock]dset{b.Succs[0]: d}
				case *ssa.Return:
					kind, extra := f.returnKind(x, d)
					dd := d
					if extra != nil {
						dd = d.clone()
						for k := range extra {
							dd[k] = true
						}
					}
					switch kind {
					case 0: // success (or unknown)
						succ = intersect(succ, dd)
						rets = append(rets, ReturnInfo{x, dd.clone()})
					case 1:
						fail = intersect(fail, dd)
					}
				}
			}
		}
		if !changed && iter > 0 {
			break
		}
	}
	if isEntry {
		f.a.res.Returns = rets
	}
	if succ == nil {
		succ = dset{}
	}
	if fail == nil {
		fail = dset{}
	}
	return succ, fail
}

// returnKind classifies a return: 0 success/unknown, 1 failure. For `return callee(...)` style
// returns the callee's success set is added.
func (f *frame) returnKind(ret *ssa.Return, d dset) (int, dset) {
	for _, r := range ret.Results {
		if !isErrorType(r.Type()) {
			continue
		}
		v := core.Resolve(r)
		if core.IsNilConst(v) {
			return 0, nil
		}
		if ex, ok := v.(*ssa.Extract); ok {
			// `if err != nil { return err }`: a failure return
			for _, g := range core.DominatingGuards(ret.Block()) {
				if b, ok := g.Cond.(*ssa.BinOp); ok && (b.X == ex && core.IsNilConst(b.Y) || b.Y == ex && core.IsNilConst(b.X)) {
					if (b.Op == token.NEQ) == g.Truth {
						return 1, nil
					}
					return 0, nil
				}
			}
			if sp, ok := f.split[ex.Tuple]; ok {
				return 0, sp[0] // `return callee(...)`: succeeds exactly when the callee does
			}
		}
		if ph, ok := v.(*ssa.Phi); ok {
			for _, e := range ph.Edges {
				if core.IsNilConst(e) {
					return 0, nil
				}
			}
		}
		return 1, nil
	}
	return 0, nil
}

func isErrorType(t types.Type) bool {
	n, ok := t.(*types.Named)
	return ok && n.Obj().Pkg() == nil && n.Obj().Name() == "error"
}

// refine: edge facts. (a) stale field tested == nil holds its zero value => defined;
// (b) `err != nil` on the result of an expanded callee selects its success / failure set.
func (f *frame) refine(cond ssa.Value, d dset) (t, e dset) {
	t, e = d, d
	b, ok := cond.(*ssa.BinOp)
	if !ok || (b.Op != token.EQL && b.Op != token.NEQ) {
		return
	}
	var other ssa.Value
	switch {
	case core.IsNilConst(b.X):
		other = b.Y
	case core.IsNilConst(b.Y):
		other = b.X
	default:
		return
	}
	nilEdge, nonNilEdge := d, d
	if ld, ok := other.(*ssa.UnOp); ok && ld.Op == token.MUL {
		p := f.pointerOf(ld.X)
		if (p.kind == rRecv || p.kind == rEntry) && !d.has(p.key("")) {
			nilEdge = d.clone()
			nilEdge[p.key("")] = true
		}
	}
	if ex, ok := other.(*ssa.Extract); ok && isErrorType(ex.Type()) {
		if sp, ok := f.split[ex.Tuple]; ok {
			nilEdge = d.clone()
			for k := range sp[0] {
				nilEdge[k] = true
			}
			nonNilEdge = d.clone()
			for k := range sp[1] {
				nonNilEdge[k] = true
			}
		}
	}
	if c, ok := other.(*ssa.Call); ok && isErrorType(c.Type()) {
		if sp, ok := f.split[c]; ok {
			nilEdge = d.clone()
			for k := range sp[0] {
				nilEdge[k] = true
			}
			nonNilEdge = d.clone()
			for k := range sp[1] {
				nonNilEdge[k] = true
			}
		}
	}
	if b.Op == token.EQL {
		return nilEdge, nonNilEdge
	}
	return nonNilEdge, nilEdge
}

// dependence of a stored value on a stale load of field key.
type dep int

const (
	depNone dep = iota
	depIdentity
	depReslice
	depStale
)

func (f *frame) depends(v ssa.Value, key string, d dset, seen map[ssa.Value]bool, top bool) dep {
	if seen[v] {
		return depNone
	}
	seen[v] = true
	worst := depNone
	up := func(x dep) {
		if x > worst {
			worst = x
		}
	}
	switch x := v.(type) {
	case *ssa.UnOp:
		if x.Op == token.MUL {
			p := f.pointerOf(x.X)
			if pk := p.key(""); (p.kind == rRecv || p.kind == rEntry) && (pk == key || strings.HasPrefix(key, pk+".")) {
				st, known := f.stale[x]
				if !known {
					st = !d.has(key)
				}
				if st {
					if top {
						return depIdentity
					}
					return depStale
				}
				return depNone
			}
			// load from a local cell: follow the stored value
			if _, isLocal := f.localCell(x.X); isLocal {
				if val := core.Resolve(x); val != x {
					return f.depends(val, key, d, seen, top)
				}
			}
			return depNone
		}
		up(f.depends(x.X, key, d, seen, false))
	case *ssa.BinOp:
		up(f.depends(x.X, key, d, seen, false))
		up(f.depends(x.Y, key, d, seen, false))
	case *ssa.Convert:
		up(f.depends(x.X, key, d, seen, false))
	case *ssa.ChangeType:
		up(f.depends(x.X, key, d, seen, top))
	case *ssa.Phi:
		for _, e := range x.Edges {
			up(f.depends(e, key, d, seen, false))
		}
	case *ssa.Slice:
		if x.High != nil {
			if n, ok := core.ConstInt(x.High); ok && n == 0 && x.Low == nil {
				return depNone // F[:0]: empty, content-independent
			}
		}
		inner := f.depends(x.X, key, d, seen, false)
		if inner == depStale && x.Low == nil && top {
			return depReslice
		}
		up(inner)
	case *ssa.Call:
		switch core.BuiltinName(x) {
		case "append":
			up(f.depends(x.Call.Args[0], key, d, seen, false))
		case "min", "max":
			for _, a := range x.Call.Args {
				up(f.depends(a, key, d, seen, false))
			}
		}
	case *ssa.Extract:
		up(f.depends(x.Tuple, key, d, seen, false))
	}
	return worst
}

// store handles a Store instruction.
func (f *frame) store(x *ssa.Store, d dset) {
	p := f.pointerOf(x.Addr)
	if p.kind != rRecv && p.kind != rEntry {
		return
	}
	if _, isIdx := x.Addr.(*ssa.IndexAddr); isIdx {
		return
	}
	if strings.Contains(p.path, "[") {
		return
	}
	t := x.Val.Type()
	if st, ok := t.Underlying().(*types.Struct); ok {
		f.storeStruct(x, p, st, d)
		return
	}
	f.storeLeaf(x, p.key(""), x.Val, d)
}

func (f *frame) storeLeaf(x *ssa.Store, key string, val ssa.Value, d dset) {
	switch f.depends(val, key, d, map[ssa.Value]bool{}, true) {
	case depIdentity:
		return // p.F = p.F: no effect
	case depNone:
		f.written(key, x)
		d[key] = true
	case depReslice:
		f.written(key, x)
		if f.hasOverwriteLoop(key) {
			d[key] = true
		} else {
			f.a.res.Notes = append(f.a.res.Notes, fmt.Sprintf("%s: reslice of stale %s without an overwrite loop", core.FuncName(f.fn), key))
		}
	case depStale:
		f.written(key, x)
	}
}

// storeStruct handles *p = <struct value>: per leaf field.
func (f *frame) storeStruct(x *ssa.Store, p ptr, st *types.Struct, d dset) {
	base := p.key("")
	// value built in a local composite-literal cell?
	var cell *ssa.Alloc
	if ld, ok := x.Val.(*ssa.UnOp); ok && ld.Op == token.MUL {
		if a, ok := ld.X.(*ssa.Alloc); ok {
			cell = a
		}
	}
	var leaves []string
	leafFields(st, "", &leaves, 0)
	for _, sub := range leaves {
		key := base + sub
		var val ssa.Value
		if cell != nil {
			val = storedIn(cell, sub, x)
			if val == nil {
				// not set in the literal: zero value
				f.written(key, x)
				d[key] = true
				continue
			}
			f.storeLeaf(x, key, val, d)
			continue
		}
		if _, isConst := x.Val.(*ssa.Const); isConst {
			f.written(key, x)
			d[key] = true
			continue
		}
		// struct value from elsewhere (call result, parameter): defined
		f.written(key, x)
		d[key] = true
	}
}

// storedIn finds the value stored to cell<sub> before instruction `before` in the same function.
func storedIn(cell *ssa.Alloc, sub string, before ssa.Instruction) ssa.Value {
	var found ssa.Value
	for _, b := range cell.Parent().Blocks {
		for _, in := range b.Instrs {
			s, ok := in.(*ssa.Store)
			if !ok {
				continue
			}
			root, path := core.AddrKey(s.Addr)
			if root != cell {
				continue
			}
			if path == sub {
				found = s.Val
			} else if strings.HasPrefix(sub, path+".") {
				// a whole sub-struct was stored: look through a struct-typed value
				found = fieldOfValue(s.Val, strings.TrimPrefix(sub, path))
			}
		}
	}
	return found
}

// fieldOfValue resolves v<sub> when v is a struct loaded from receiver memory (p.videoDepacketizer).
func fieldOfValue(v ssa.Value, sub string) ssa.Value {
	// represent "field sub of struct value v" by v itself: the dependence walk treats a load of a
	// struct that contains the key's field as covering it
	return v
}

func (f *frame) written(key string, x *ssa.Store) {
	if _, ok := f.a.res.W[key]; !ok {
		f.a.res.W[key] = Written{Key: key, Pos: x.Pos(), Fn: f.fn}
	}
}

// hasOverwriteLoop: some store in a loop writes an element of the slice held in field key.
func (f *frame) hasOverwriteLoop(key string) bool {
	// the loop that overwrites every element may be in the function that called the helper which
	// re-slices the field (resize in a helper, fill in the caller)
	if f.up != nil && f.up.hasOverwriteLoop(key) {
		return true
	}
	for _, b := range f.fn.Blocks {
		for _, in := range b.Instrs {
			s, ok := in.(*ssa.Store)
			if !ok {
				continue
			}
			ia, ok := s.Addr.(*ssa.IndexAddr)
			if !ok {
				continue
			}
			ld, ok := ia.X.(*ssa.UnOp)
			if !ok || ld.Op != token.MUL {
				continue
			}
			p := f.pointerOf(ld.X)
			if (p.kind == rRecv || p.kind == rEntry) && p.key("") == key && inLoop(b) {
				return true
			}
		}
	}
	return false
}

func inLoop(b *ssa.BasicBlock) bool {
	seen := map[*ssa.BasicBlock]bool{}
	stack := append([]*ssa.BasicBlock{}, b.Succs...)
	for len(stack) > 0 {
		x := stack[len(stack)-1]
		stack = stack[:len(stack)-1]
		if x == b {
			return true
		}
		if seen[x] {
			continue
		}
		seen[x] = true
		stack = append(stack, x.Succs...)
	}
	return false
}

// call expands a static module callee that receives a receiver-reachable pointer.
func (f *frame) call(x *ssa.Call, d dset) {
	callee := x.Call.StaticCallee()
	if callee == nil || x.Call.IsInvoke() || !core.InModule(callee) || len(callee.Blocks) == 0 {
		return
	}
	if f.a.depth > 5 {
		return
	}
	bind := map[ssa.Value]ptr{}
	relevant := false
	for i, arg := range x.Call.Args {
		if i >= len(callee.Params) {
			break
		}
		p := f.pointerOf(arg)
		if p.kind == rRecv || p.kind == rEntry {
			bind[callee.Params[i]] = p
			relevant = true
		} else if p.kind == rFresh {
			bind[callee.Params[i]] = p
		}
	}
	if !relevant {
		return
	}
	cf := &frame{fn: callee, bind: bind, a: f.a, up: f}
	f.a.depth++
	succ, fail := cf.run(d, false)
	f.a.depth--
	hasErr := false
	res := callee.Signature.Results()
	for i := 0; i < res.Len(); i++ {
		if isErrorType(res.At(i).Type()) {
			hasErr = true
		}
	}
	if !hasErr {
		for k := range succ {
			d[k] = true
		}
		return
	}
	// both outcomes possible after the call: keep what both define, remember the split
	both := intersect(succ, fail)
	for k := range both {
		d[k] = true
	}
	f.split[x] = [2]dset{succ, fail}
}
