// Package own is the origin (ownership / alias) analysis, engine E3.
//
// It abstractly interprets one entry function (module callees and closures are interpreted
// in place, context-sensitively; the module has no recursion) and computes, for every
// reference-carrying value, the set of abstract memory objects it may point to:
//
//	P<i>        the memory parameter i points to on entry (backing array / pointee)
//	D(o.path)   whatever the location o.path pointed to on entry (symbolic, materialised on demand)
//	A<site>     memory allocated at an instruction of the analysed code (fresh)
//	G<name>     a package-level variable, U unknown, N nil
//
// Local allocations that are not in a loop, and the "most recent element" x[i] of a slice
// indexed by one SSA value, get strong (flow-sensitive) updates with nil-test refinement;
// everything else is a weak, flow-insensitive heap.
package own

import (
	"fmt"
	"go/token"
	"go/types"
	"sort"
	"strings"

	"golang.org/x/tools/go/ssa"

	"rtpcheck/core"
)

type ObjKind int

const (
	KParam ObjKind = iota
	KDeref
	KAlloc
	KGlobal
	KUnknown
	KNil
)

type Obj struct {
	Kind ObjKind
	ID   string
	// for KParam: index; for KDeref: parent object and path
	Param  int
	Parent *Obj
	Path   string
	Site   ssa.Instruction
	InLoop bool
}

func (o *Obj) String() string { return o.ID }

// RootParam returns the parameter index this object is (transitively) reachable from on
// entry, or -1.
func (o *Obj) RootParam() int {
	for x := o; x != nil; x = x.Parent {
		if x.Kind == KParam {
			return x.Param
		}
	}
	return -1
}

// Loc is a memory location (object + field/element path) or, with Path "", an object base.
type Loc struct {
	O    *Obj
	Path string
}

func (l Loc) String() string { return l.O.ID + l.Path }

type Closure struct {
	Fn   *ssa.Function
	Bind []*Val
}

// Val is the abstract value of an SSA value.
type Val struct {
	Ptr  map[Loc]bool    // pointer-like: what it may point to
	Flds map[string]*Val // struct-typed values: per field
	Key  string          // canonical identity of the value for nil-test refinement
	Clos []*Closure
	sigc string // cached signature (values are not mutated once published)
}

func (v *Val) clone() *Val {
	if v == nil {
		return nil
	}
	r := &Val{Key: v.Key}
	if v.Ptr != nil {
		r.Ptr = map[Loc]bool{}
		for k := range v.Ptr {
			r.Ptr[k] = true
		}
	}
	if v.Flds != nil {
		r.Flds = map[string]*Val{}
		for k, f := range v.Flds {
			r.Flds[k] = f.clone()
		}
	}
	r.Clos = append(r.Clos, v.Clos...)
	return r
}

func (v *Val) sig() string {
	if v == nil {
		return "-"
	}
	if v.sigc == "" {
		v.sigc = v.sig0()
	}
	return v.sigc
}

func (v *Val) sig0() string {
	var parts []string
	for l := range v.Ptr {
		parts = append(parts, l.String())
	}
	sort.Strings(parts)
	s := "{" + strings.Join(parts, ",") + "}k=" + v.Key
	if len(v.Flds) > 0 {
		var fs []string
		for k := range v.Flds {
			fs = append(fs, k)
		}
		sort.Strings(fs)
		for _, k := range fs {
			s += ";" + k + ":" + v.Flds[k].sig()
		}
	}
	s += fmt.Sprintf("c%d", len(v.Clos))
	return s
}

// join merges b into a copy of a. Keys survive only if equal.
func join(a, b *Val) *Val {
	if a == nil {
		return b.clone()
	}
	if b == nil {
		return a.clone()
	}
	r := a.clone()
	if r.Key != b.Key {
		r.Key = ""
	}
	for l := range b.Ptr {
		if r.Ptr == nil {
			r.Ptr = map[Loc]bool{}
		}
		r.Ptr[l] = true
	}
	for k, f := range b.Flds {
		if r.Flds == nil {
			r.Flds = map[string]*Val{}
		}
		r.Flds[k] = join(r.Flds[k], f)
	}
outer:
	for _, c := range b.Clos {
		for _, d := range r.Clos {
			if d.Fn == c.Fn {
				continue outer
			}
		}
		r.Clos = append(r.Clos, c)
	}
	return r
}

// State is the flow-sensitive part: strong cells and recent elements.
type State struct {
	strong map[Loc]*Val
	recent map[recentKey]*Val // (array object, index value, subpath)
	dead   bool
}

type recentKey struct {
	O    *Obj
	Idx  ssa.Value
	Path string
}

func newState() *State { return &State{strong: map[Loc]*Val{}, recent: map[recentKey]*Val{}} }

func (s *State) clone() *State {
	r := newState()
	for k, v := range s.strong {
		r.strong[k] = v
	}
	for k, v := range s.recent {
		r.recent[k] = v
	}
	return r
}

func (s *State) sig() string {
	var parts []string
	for k, v := range s.strong {
		parts = append(parts, k.String()+"="+v.sig())
	}
	for k, v := range s.recent {
		parts = append(parts, fmt.Sprintf("%s[%s]%s=%s", k.O.ID, k.Idx.Name(), k.Path, v.sig()))
	}
	sort.Strings(parts)
	return strings.Join(parts, "|")
}

// WriteEvent records an instruction that writes memory.
type WriteEvent struct {
	Instr ssa.Instruction
	Fn    *ssa.Function
	Kind  string // store, copy-dst, append-base
	Targs []*Obj
}

// EscapeEvent: a reference-carrying value handed to code we cannot see.
type EscapeEvent struct {
	Instr ssa.Instruction
	Fn    *ssa.Function
	Val   *Val
	To    string
}

// Result of analysing an entry function.
type Result struct {
	Entry   *ssa.Function
	Params  []*Obj // object of each parameter (nil for non-reference params)
	Returns []*RetSnapshot
	Writes  []WriteEvent
	Escapes []EscapeEvent
	Weak    map[Loc]*Val
	Final   *State // join of states at the entry function's returns
	Funcs   map[*ssa.Function]bool
	an      *analysis
}

// RetSnapshot is the deep view of one returned value at one return site.
type RetSnapshot struct {
	Ret   *ssa.Return
	Index int
	Reach []Reached
}

// Reached is one reference found while traversing a returned value.
type Reached struct {
	Path string // e.g. ".CSRC" or ".Extensions[].payload" or "[]"
	Obj  *Obj
}

type callCache struct {
	epoch   int
	results []*Val
	out     *State
}

type analysis struct {
	epoch   int
	cache   map[string]*callCache
	prog    *core.Program
	objs    map[string]*Obj
	weak    map[Loc]*Val
	env     map[envKey]*Val
	changed bool
	res     *Result
	depth   int
	nctx    int
	ctxIDs  map[string]int
	writes  map[string]bool
}

type envKey struct {
	ctx int
	v   ssa.Value
}

// Analyze interprets entry with symbolic parameters.
func Analyze(prog *core.Program, entry *ssa.Function) *Result {
	a := &analysis{prog: prog, objs: map[string]*Obj{}, weak: map[Loc]*Val{}, env: map[envKey]*Val{},
		ctxIDs: map[string]int{}, writes: map[string]bool{}, cache: map[string]*callCache{}}
	res := &Result{Entry: entry, Weak: a.weak, Funcs: map[*ssa.Function]bool{}, an: a}
	a.res = res
	var args []*Val
	for i, p := range entry.Params {
		v, o := a.symbolicParam(i, p.Type(), p.Name())
		res.Params = append(res.Params, o)
		args = append(args, v)
	}
	var fvs []*Val
	for i, fv := range entry.FreeVars {
		v, _ := a.symbolicParam(100+i, fv.Type(), "fv_"+fv.Name())
		fvs = append(fvs, v)
	}
	for pass := 0; pass < 40; pass++ {
		a.changed = false
		res.Returns = nil
		res.Final = nil
		a.call(entry, args, fvs, 0, newState(), true)
		if !a.changed {
			break
		}
	}
	return res
}

func (a *analysis) touch() {
	a.changed = true
	a.epoch++
	if len(a.cache) > 0 {
		a.cache = map[string]*callCache{} // entries of an older epoch can never hit again
	}
}

func (a *analysis) obj(kind ObjKind, id string) *Obj {
	if o, ok := a.objs[id]; ok {
		return o
	}
	o := &Obj{Kind: kind, ID: id, Param: -1}
	a.objs[id] = o
	return o
}

func (a *analysis) unknown() *Val { return &Val{Ptr: map[Loc]bool{{a.obj(KUnknown, "U"), ""}: true}} }
func (a *analysis) nilVal() *Val  { return &Val{Ptr: map[Loc]bool{{a.obj(KNil, "N"), ""}: true}} }

// HasRefs reports whether values of type t can carry references.
func HasRefs(t types.Type) bool {
	switch u := t.Underlying().(type) {
	case *types.Basic:
		return u.Kind() == types.UnsafePointer
	case *types.Struct:
		for i := 0; i < u.NumFields(); i++ {
			if HasRefs(u.Field(i).Type()) {
				return true
			}
		}
		return false
	case *types.Array:
		return HasRefs(u.Elem())
	}
	return true
}

func (a *analysis) symbolicParam(i int, t types.Type, name string) (*Val, *Obj) {
	if !HasRefs(t) {
		return nil, nil
	}
	o := a.obj(KParam, fmt.Sprintf("P%d(%s)", i, name))
	o.Param = i
	if st, ok := t.Underlying().(*types.Struct); ok {
		// struct passed by value: its fields are symbolic derefs of a pseudo-object
		return a.loadStruct(Loc{o, ""}, st, nil), o
	}
	return &Val{Ptr: map[Loc]bool{{o, ""}: true}, Key: o.ID}, o
}

// ---- heap ---------------------------------------------------------------------------------------

func symbolic(o *Obj) bool { return o.Kind == KParam || o.Kind == KDeref || o.Kind == KGlobal }

// loadLoc reads a pointer-like content of location l in state st.
func (a *analysis) loadLoc(l Loc, st *State) *Val {
	if st != nil {
		if v, ok := st.strong[l]; ok {
			return v
		}
	}
	var r *Val
	if w := a.weak[l]; w != nil {
		r = w.clone()
	}
	switch {
	case symbolic(l.O):
		d := a.obj(KDeref, "D("+l.O.ID+l.Path+")")
		d.Parent, d.Path = l.O, l.Path
		sv := &Val{Ptr: map[Loc]bool{{d, ""}: true}, Key: l.O.ID + l.Path}
		if r == nil {
			r = sv
		} else {
			r = join(r, sv)
			r.Key = ""
		}
	case l.O.Kind == KUnknown:
		r = join(r, a.unknown())
	case l.O.Kind == KAlloc:
		// zero-initialised memory: nil unless something was stored
		if r == nil {
			r = a.nilVal()
		} else if isStrongObj(l.O) {
			// a strong cell not present in the state: unassigned on this path => nil
			r = join(r, a.nilVal())
		} else {
			r = join(r, a.nilVal())
		}
	}
	if r == nil {
		r = &Val{}
	}
	return r
}

// loadStruct builds a struct value from location l.
func (a *analysis) loadStruct(l Loc, st *types.Struct, state *State) *Val {
	v := &Val{Flds: map[string]*Val{}}
	for i := 0; i < st.NumFields(); i++ {
		f := st.Field(i)
		if !HasRefs(f.Type()) {
			continue
		}
		v.Flds[f.Name()] = a.loadTyped(Loc{l.O, l.Path + "." + f.Name()}, f.Type(), state)
	}
	return v
}

func (a *analysis) loadTyped(l Loc, t types.Type, state *State) *Val {
	if !HasRefs(t) {
		return nil
	}
	switch u := t.Underlying().(type) {
	case *types.Struct:
		return a.loadStruct(l, u, state)
	case *types.Array:
		return a.loadTyped(Loc{l.O, l.Path + "[]"}, u.Elem(), state)
	}
	return a.loadLoc(l, state)
}

func isStrongObj(o *Obj) bool { return o.Kind == KAlloc && !o.InLoop && o.Site != nil && isAllocInstr(o.Site) }

func isAllocInstr(in ssa.Instruction) bool {
	_, ok := in.(*ssa.Alloc)
	return ok
}

// storeTyped writes v (of type t) to location l; strong if allowed.
func (a *analysis) storeTyped(l Loc, t types.Type, v *Val, state *State, strong bool) {
	if !HasRefs(t) {
		return
	}
	switch u := t.Underlying().(type) {
	case *types.Struct:
		for i := 0; i < u.NumFields(); i++ {
			f := u.Field(i)
			if !HasRefs(f.Type()) {
				continue
			}
			var fv *Val
			if v != nil && v.Flds != nil {
				fv = v.Flds[f.Name()]
			}
			if fv == nil && v != nil && v.Ptr != nil {
				fv = a.unknown() // struct value of unknown provenance
			}
			a.storeTyped(Loc{l.O, l.Path + "." + f.Name()}, f.Type(), fv, state, strong)
		}
		return
	case *types.Array:
		a.storeTyped(Loc{l.O, l.Path + "[]"}, u.Elem(), v, state, false)
		return
	}
	if v == nil {
		v = a.nilVal()
	}
	if strong && state != nil {
		state.strong[l] = v
		return
	}
	old := a.weak[l]
	nv := join(old, v)
	nv.Key = ""
	if old == nil || old.sig() != nv.sig() {
		a.weak[l] = nv
		a.touch()
	}
	if state != nil {
		delete(state.strong, l)
	}
}

// ---- interpretation -----------------------------------------------------------------------------

func (a *analysis) ctxFor(parent int, site ssa.Instruction, fn *ssa.Function) int {
	k := fmt.Sprintf("%d|%p|%p", parent, site, fn)
	if id, ok := a.ctxIDs[k]; ok {
		return id
	}
	a.nctx++
	a.ctxIDs[k] = a.nctx
	return a.nctx
}

func (a *analysis) setEnv(ctx int, v ssa.Value, val *Val) {
	k := envKey{ctx, v}
	old, had := a.env[k]
	nv := val
	if had && old != nil && val != nil && old.sig() != val.sig() {
		// in-states grow monotonically over sweeps, so accumulating loses nothing at the
		// fixpoint and guarantees termination when a context is shared between call sites
		nv = join(old, val)
	} else if had && val == nil {
		nv = old
	}
	if !had || old.sig() != nv.sig() {
		a.env[k] = nv
		a.touch()
	}
}

func (a *analysis) val(ctx int, v ssa.Value, fn *ssa.Function, fvs []*Val) *Val {
	switch x := v.(type) {
	case *ssa.Const:
		if x.Value == nil && HasRefs(x.Type()) {
			if st, ok := x.Type().Underlying().(*types.Struct); ok {
				r := &Val{Flds: map[string]*Val{}}
				for i := 0; i < st.NumFields(); i++ {
					if HasRefs(st.Field(i).Type()) {
						r.Flds[st.Field(i).Name()] = a.zeroOf(st.Field(i).Type())
					}
				}
				return r
			}
			return a.nilVal()
		}
		return nil
	case *ssa.Global:
		o := a.obj(KGlobal, "G("+x.Name()+")")
		return &Val{Ptr: map[Loc]bool{{o, ""}: true}}
	case *ssa.Function:
		return &Val{Clos: []*Closure{{Fn: x}}}
	case *ssa.FreeVar:
		for i, fv := range fn.FreeVars {
			if fv == x && i < len(fvs) {
				return fvs[i]
			}
		}
		return a.unknown()
	case *ssa.Builtin:
		return nil
	}
	return a.env[envKey{ctx, v}]
}

func (a *analysis) zeroOf(t types.Type) *Val {
	if !HasRefs(t) {
		return nil
	}
	if st, ok := t.Underlying().(*types.Struct); ok {
		r := &Val{Flds: map[string]*Val{}}
		for i := 0; i < st.NumFields(); i++ {
			if HasRefs(st.Field(i).Type()) {
				r.Flds[st.Field(i).Name()] = a.zeroOf(st.Field(i).Type())
			}
		}
		return r
	}
	return a.nilVal()
}

func inCycle(b *ssa.BasicBlock) bool {
	seen := map[*ssa.BasicBlock]bool{}
	var stack []*ssa.BasicBlock
	stack = append(stack, b.Succs...)
	for len(stack) > 0 {
		x := stack[len(stack)-1]
		stack = stack[:len(stack)-1]
		if x == b {
			return true
		}
		if seen[x] {
			continue
		}
		seen[x] = true
		stack = append(stack, x.Succs...)
	}
	return false
}

// call interprets fn with the given arguments in a context derived from (parent ctx, site).
// It returns the joined result values and the state after the call.
func (a *analysis) call(fn *ssa.Function, args []*Val, fvs []*Val, ctx int, st *State, isEntry bool) ([]*Val, *State) {
	if len(fn.Blocks) == 0 || a.depth > 8 {
		return []*Val{a.unknown()}, st
	}
	a.depth++
	defer func() { a.depth-- }()
	a.res.Funcs[fn] = true
	var ckey string
	startEpoch := a.epoch
	if !isEntry {
		var sb strings.Builder
		fmt.Fprintf(&sb, "%d|", ctx)
		for _, v := range args {
			sb.WriteString(v.sig())
			sb.WriteByte('|')
		}
		for _, v := range fvs {
			sb.WriteString(v.sig())
			sb.WriteByte('|')
		}
		sb.WriteString(st.sig())
		ckey = sb.String()
		if c, ok := a.cache[ckey]; ok && c.epoch == a.epoch {
			return c.results, c.out
		}
		defer func() {}()
	}
	for i, p := range fn.Params {
		if i < len(args) {
			a.setEnv(ctx, p, args[i])
		}
	}
	in := map[*ssa.BasicBlock]*State{fn.Blocks[0]: st.clone()}
	var results []*Val
	var outState *State
	// iterate blocks in order to a local fixpoint
	outs := map[*ssa.BasicBlock]map[*ssa.BasicBlock]*State{} // pred -> succ -> state (kept across sweeps)
	for iter := 0; iter < 40; iter++ {
		progress := false
		results = nil
		outState = nil
		for _, b := range fn.Blocks {
			if b == fn.Recover {
				continue
			}
			var cur *State
			if b == fn.Blocks[0] {
				cur = in[b].clone()
			}
			for _, p := range b.Preds {
				if o := outs[p]; o != nil && o[b] != nil {
					cur = joinState(cur, o[b], a)
				}
			}
			if cur == nil {
				continue
			}
			if old := in[b]; old == nil || old.sig() != cur.sig() {
				progress = true
			}
			if b != fn.Blocks[0] {
				in[b] = cur.clone()
			}
			s := cur
			for _, inst := range b.Instrs {
				switch x := inst.(type) {
				case *ssa.Return:
					var rv []*Val
					for i, r := range x.Results {
						v := a.val(ctx, r, fn, fvs)
						rv = append(rv, v)
						if isEntry {
							a.res.Returns = append(a.res.Returns, &RetSnapshot{Ret: x, Index: i, Reach: a.reach(v, r.Type(), s)})
						}
					}
					if results == nil {
						results = rv
					} else {
						for i := range rv {
							if i < len(results) {
								results[i] = join(results[i], rv[i])
							}
						}
					}
					outState = joinState(outState, s, a)
				case *ssa.If:
					ts, fs := a.refine(ctx, fn, fvs, x.Cond, s)
					outs[b] = map[*ssa.BasicBlock]*State{}
					outs[b][b.Succs[0]] = joinState(outs[b][b.Succs[0]], edgeState(ts, b, b.Succs[0], a), a)
					outs[b][b.Succs[1]] = joinState(outs[b][b.Succs[1]], edgeState(fs, b, b.Succs[1], a), a)
				case *ssa.Jump:
					outs[b] = map[*ssa.BasicBlock]*State{b.Succs[0]: edgeState(s, b, b.Succs[0], a)}
				case *ssa.Panic:
				default:
					s = a.step(ctx, fn, fvs, inst, s)
				}
			}
		}
		if !progress && iter > 0 {
			break
		}
	}
	if outState == nil {
		outState = st
	}
	if isEntry {
		a.res.Final = outState
	}
	if ckey != "" && a.epoch == startEpoch {
		a.cache[ckey] = &callCache{epoch: a.epoch, results: results, out: outState}
	}
	return results, outState
}

// edgeState: leaving along a back edge folds the recent elements into the weak heap and drops
// element-specific keys.
func edgeState(s *State, from, to *ssa.BasicBlock, a *analysis) *State {
	if s == nil {
		return nil
	}
	if to.Index <= from.Index && to.Dominates(from) {
		r := s.clone()
		for k, v := range r.recent {
			a.weakJoin(Loc{k.O, "[]" + k.Path}, v)
			delete(r.recent, k)
		}
		for k, v := range r.strong {
			if strings.Contains(v.Key, "[") {
				nv := v.clone()
				nv.Key = ""
				r.strong[k] = nv
			}
		}
		return r
	}
	return s
}

func (a *analysis) weakJoin(l Loc, v *Val) {
	old := a.weak[l]
	nv := join(old, v)
	if nv != nil {
		nv.Key = ""
	}
	if old == nil || old.sig() != nv.sig() {
		a.weak[l] = nv
		a.touch()
	}
}

func joinState(x, y *State, a *analysis) *State {
	if x == nil {
		if y == nil {
			return nil
		}
		return y.clone()
	}
	if y == nil {
		return x.clone()
	}
	r := newState()
	for k, v := range x.strong {
		if w, ok := y.strong[k]; ok {
			r.strong[k] = join(v, w)
		} else {
			// absent on the other path: that path sees the default (weak/zero) content
			r.strong[k] = join(v, a.loadLoc(k, nil))
		}
	}
	for k, w := range y.strong {
		if _, ok := x.strong[k]; !ok {
			r.strong[k] = join(w, a.loadLoc(k, nil))
		}
	}
	for k, v := range x.recent {
		if w, ok := y.recent[k]; ok {
			r.recent[k] = join(v, w)
		} else {
			a.weakJoin(Loc{k.O, "[]" + k.Path}, v)
		}
	}
	for k, w := range y.recent {
		if _, ok := x.recent[k]; !ok {
			a.weakJoin(Loc{k.O, "[]" + k.Path}, w)
		}
	}
	return r
}

// refine splits the state on a nil test of a keyed value.
func (a *analysis) refine(ctx int, fn *ssa.Function, fvs []*Val, cond ssa.Value, s *State) (t, f *State) {
	b, ok := cond.(*ssa.BinOp)
	if !ok || (b.Op != token.EQL && b.Op != token.NEQ) {
		if u, ok := cond.(*ssa.UnOp); ok && u.Op == token.NOT {
			f2, t2 := a.refine(ctx, fn, fvs, u.X, s)
			return t2, f2
		}
		return s, s
	}
	var other ssa.Value
	if core.IsNilConst(b.X) {
		other = b.Y
	} else if core.IsNilConst(b.Y) {
		other = b.X
	} else {
		return s, s
	}
	v := a.val(ctx, other, fn, fvs)
	if v == nil || v.Key == "" {
		return s, s
	}
	nilSide := s.clone()
	key := v.Key
	for k, c := range nilSide.strong {
		nilSide.strong[k] = a.nilify(c, key)
	}
	for k, c := range nilSide.recent {
		nilSide.recent[k] = a.nilify(c, key)
	}
	if b.Op == token.EQL {
		return nilSide, s
	}
	return s, nilSide
}

func (a *analysis) nilify(c *Val, key string) *Val {
	if c == nil {
		return nil
	}
	if c.Key == key {
		return a.nilVal()
	}
	if c.Flds != nil {
		r := c.clone()
		for k, f := range r.Flds {
			r.Flds[k] = a.nilify(f, key)
		}
		return r
	}
	return c
}

func (a *analysis) addrTargets(v *Val) []Loc {
	if v == nil {
		return nil
	}
	var out []Loc
	for l := range v.Ptr {
		out = append(out, l)
	}
	sort.Slice(out, func(i, j int) bool { return out[i].String() < out[j].String() })
	return out
}

func (a *analysis) recordWrite(fn *ssa.Function, inst ssa.Instruction, kind string, targets *Val) {
	if targets == nil {
		return
	}
	ev := WriteEvent{Instr: inst, Fn: fn, Kind: kind}
	for l := range targets.Ptr {
		ev.Targs = append(ev.Targs, l.O)
	}
	sort.Slice(ev.Targs, func(i, j int) bool { return ev.Targs[i].ID < ev.Targs[j].ID })
	k := fmt.Sprintf("%p|%s", inst, kind)
	if a.writes[k] {
		// merge targets into the existing event
		for i := range a.res.Writes {
			if a.res.Writes[i].Instr == inst && a.res.Writes[i].Kind == kind {
				have := map[*Obj]bool{}
				for _, o := range a.res.Writes[i].Targs {
					have[o] = true
				}
				for _, o := range ev.Targs {
					if !have[o] {
						a.res.Writes[i].Targs = append(a.res.Writes[i].Targs, o)
					}
				}
			}
		}
		return
	}
	a.writes[k] = true
	a.res.Writes = append(a.res.Writes, ev)
}

func elemType(t types.Type) types.Type {
	switch u := t.Underlying().(type) {
	case *types.Slice:
		return u.Elem()
	case *types.Array:
		return u.Elem()
	case *types.Pointer:
		if arr, ok := u.Elem().Underlying().(*types.Array); ok {
			return arr.Elem()
		}
		return u.Elem()
	case *types.Basic:
		if u.Info()&types.IsString != 0 {
			return types.Typ[types.Byte]
		}
	}
	return nil
}

func (a *analysis) allocObj(inst ssa.Instruction, fn *ssa.Function, tag string) *Obj {
	id := fmt.Sprintf("A(%s@%s%s)", core.FuncName(fn), a.prog.Position(inst.Pos()), tag)
	if !inst.Pos().IsValid() {
		id = fmt.Sprintf("A(%s#b%d.%d%s)", core.FuncName(fn), inst.Block().Index, core.InstrIndex(inst), tag)
	}
	o := a.obj(KAlloc, id)
	o.Site = inst
	o.InLoop = inCycle(inst.Block())
	return o
}

// step interprets one non-terminator instruction.
func (a *analysis) step(ctx int, fn *ssa.Function, fvs []*Val, inst ssa.Instruction, s *State) *State {
	get := func(v ssa.Value) *Val { return a.val(ctx, v, fn, fvs) }
	switch x := inst.(type) {
	case *ssa.Alloc:
		o := a.allocObj(x, fn, "")
		a.setEnv(ctx, x, &Val{Ptr: map[Loc]bool{{o, ""}: true}})
		if isStrongObj(o) {
			// fresh zero cell: strong nil for each reference field
			elem := x.Type().Underlying().(*types.Pointer).Elem()
			a.storeTyped(Loc{o, ""}, elem, a.zeroOf(elem), s, true)
		}
	case *ssa.MakeSlice, *ssa.MakeMap, *ssa.MakeChan:
		o := a.allocObj(inst, fn, "")
		a.setEnv(ctx, inst.(ssa.Value), &Val{Ptr: map[Loc]bool{{o, ""}: true}})
	case *ssa.FieldAddr:
		base := get(x.X)
		r := &Val{Ptr: map[Loc]bool{}}
		name := core.FieldName(x)
		if base != nil {
			for l := range base.Ptr {
				r.Ptr[Loc{l.O, l.Path + "." + name}] = true
			}
		}
		a.setEnv(ctx, x, r)
	case *ssa.IndexAddr:
		base := get(x.X)
		r := &Val{Ptr: map[Loc]bool{}}
		if base != nil {
			for l := range base.Ptr {
				r.Ptr[Loc{l.O, l.Path + "[]"}] = true
			}
		}
		a.setEnv(ctx, x, r)
	case *ssa.Field:
		base := get(x.X)
		var r *Val
		if base != nil && base.Flds != nil {
			r = base.Flds[core.FieldOfValue(x)]
		} else if base != nil && base.Ptr != nil {
			r = a.unknown()
		}
		a.setEnv(ctx, x, r)
	case *ssa.Index: // array value or string indexing
		a.setEnv(ctx, x, nil)
	case *ssa.Lookup:
		if HasRefs(x.Type()) {
			a.setEnv(ctx, x, a.unknown())
		}
	case *ssa.Slice:
		base := get(x.X)
		var r *Val
		if base != nil {
			r = &Val{Ptr: map[Loc]bool{}}
			for l := range base.Ptr {
				r.Ptr[l] = true
			}
			if x.Low == nil && x.High == nil && x.Max == nil {
				r.Key = base.Key
			}
		}
		a.setEnv(ctx, x, r)
	case *ssa.Phi:
		var r *Val
		for _, e := range x.Edges {
			r = join(r, get(e))
		}
		if r != nil && len(x.Edges) > 1 {
			r.Key = ""
		}
		a.setEnv(ctx, x, r)
	case *ssa.ChangeType:
		a.setEnv(ctx, x, get(x.X))
	case *ssa.ChangeInterface:
		a.setEnv(ctx, x, get(x.X))
	case *ssa.MakeInterface:
		a.setEnv(ctx, x, get(x.X))
	case *ssa.SliceToArrayPointer:
		a.setEnv(ctx, x, get(x.X))
	case *ssa.TypeAssert:
		v := get(x.X)
		if x.CommaOk {
			a.setEnv(ctx, x, &Val{Flds: map[string]*Val{"0": v}})
		} else {
			a.setEnv(ctx, x, v)
		}
	case *ssa.Extract:
		t := get(x.Tuple)
		var r *Val
		if t != nil && t.Flds != nil {
			r = t.Flds[fmt.Sprint(x.Index)]
		}
		a.setEnv(ctx, x, r)
	case *ssa.Convert:
		// string <-> []byte conversions allocate; numeric conversions carry no refs
		if HasRefs(x.Type()) {
			if _, isSlice := x.Type().Underlying().(*types.Slice); isSlice {
				o := a.allocObj(x, fn, "")
				a.setEnv(ctx, x, &Val{Ptr: map[Loc]bool{{o, ""}: true}})
			} else {
				a.setEnv(ctx, x, get(x.X))
			}
		}
	case *ssa.BinOp:
		// no reference results (string concat allocates but strings are immutable)
	case *ssa.UnOp:
		if x.Op == token.MUL {
			addr := get(x.X)
			var r *Val
			if HasRefs(x.Type()) {
				for _, l := range a.addrTargets(addr) {
					r = join(r, a.loadAt(l, x.X, x.Type(), s))
				}
				if r == nil {
					r = a.unknown()
				}
				if len(addr.Ptr) != 1 {
					r.Key = ""
				}
			}
			a.setEnv(ctx, x, r)
		} else if x.Op == token.ARROW && HasRefs(x.Type()) {
			a.setEnv(ctx, x, a.unknown())
		}
	case *ssa.Store:
		addr := get(x.Addr)
		val := get(x.Val)
		t := x.Val.Type()
		a.recordWrite(fn, x, "store", addr)
		targets := a.addrTargets(addr)
		for _, l := range targets {
			a.storeAt(l, x.Addr, t, val, s, len(targets) == 1)
		}
	case *ssa.MapUpdate:
		if v := get(x.Value); v != nil {
			a.addEscape(EscapeEvent{Instr: x, Fn: fn, Val: v, To: "map"})
		}
	case *ssa.MakeClosure:
		c := &Closure{Fn: x.Fn.(*ssa.Function)}
		for _, b := range x.Bindings {
			c.Bind = append(c.Bind, get(b))
		}
		a.setEnv(ctx, x, &Val{Clos: []*Closure{c}})
	case *ssa.Call:
		s = a.doCall(ctx, fn, fvs, x, s)
	case *ssa.Defer, *ssa.Go:
		// deferred calls in this module are mutex unlocks only; treat arguments as escaping if refs
	case *ssa.RunDefers, *ssa.DebugRef:
	case *ssa.Range, *ssa.Next, *ssa.Select, *ssa.Send:
		if v, ok := inst.(ssa.Value); ok && HasRefs(v.Type()) {
			a.setEnv(ctx, v, a.unknown())
		}
	}
	return s
}

// loadAt loads from location l; if the address is an IndexAddr with an SSA index, the recent
// element overlay is consulted first.
func (a *analysis) loadAt(l Loc, addr ssa.Value, t types.Type, s *State) *Val {
	if base, idx, sub, ok := recentAddr(addr); ok && strings.HasSuffix(strings.TrimSuffix(l.Path, sub), "[]") {
		_ = base
		return a.loadRecent(l, idx, sub, t, s)
	}
	v := a.loadTyped(l, t, s)
	return v
}

// recentAddr decomposes addr = FieldAddr*(IndexAddr(base, idx)) into (base, idx, subpath).
func recentAddr(addr ssa.Value) (ssa.Value, ssa.Value, string, bool) {
	sub := ""
	for {
		switch x := addr.(type) {
		case *ssa.FieldAddr:
			sub = "." + core.FieldName(x) + sub
			addr = x.X
			continue
		case *ssa.IndexAddr:
			if _, isConst := x.Index.(*ssa.Const); isConst {
				return nil, nil, "", false
			}
			return x.X, x.Index, sub, true
		}
		return nil, nil, "", false
	}
}

func (a *analysis) loadRecent(l Loc, idx ssa.Value, sub string, t types.Type, s *State) *Val {
	// l.Path ends with "[]"+sub ; the array object is l.O with prefix path
	prefix := strings.TrimSuffix(l.Path, "[]"+sub)
	if prefix != "" {
		return a.loadTyped(l, t, s) // nested arrays: no recency
	}
	var rec func(path string, t types.Type) *Val
	rec = func(path string, t types.Type) *Val {
		if !HasRefs(t) {
			return nil
		}
		if st, ok := t.Underlying().(*types.Struct); ok {
			v := &Val{Flds: map[string]*Val{}}
			for i := 0; i < st.NumFields(); i++ {
				f := st.Field(i)
				if HasRefs(f.Type()) {
					v.Flds[f.Name()] = rec(path+"."+f.Name(), f.Type())
				}
			}
			return v
		}
		if v, ok := s.recent[recentKey{l.O, idx, path}]; ok {
			return v
		}
		v := a.loadLoc(Loc{l.O, "[]" + path}, nil).clone()
		if v.Key != "" {
			// element-specific identity: this iteration's element
			v.Key = l.O.ID + "[" + idx.Name() + "]" + path
		} else if symbolic(l.O) {
			v.Key = l.O.ID + "[" + idx.Name() + "]" + path
		}
		return v
	}
	return rec(sub, t)
}

func (a *analysis) storeAt(l Loc, addr ssa.Value, t types.Type, v *Val, s *State, single bool) {
	if _, idx, sub, ok := recentAddr(addr); ok && single && l.Path == "[]"+sub && !symbolic(l.O) && l.O.Kind == KAlloc {
		// strong update of the most recent element
		var rec func(path string, t types.Type, v *Val)
		rec = func(path string, t types.Type, v *Val) {
			if !HasRefs(t) {
				return
			}
			if st, ok := t.Underlying().(*types.Struct); ok {
				for i := 0; i < st.NumFields(); i++ {
					f := st.Field(i)
					if !HasRefs(f.Type()) {
						continue
					}
					var fv *Val
					if v != nil && v.Flds != nil {
						fv = v.Flds[f.Name()]
					}
					rec(path+"."+f.Name(), f.Type(), fv)
				}
				return
			}
			if v == nil {
				v = a.nilVal()
			}
			s.recent[recentKey{l.O, idx, path}] = v
		}
		rec(sub, t, v)
		return
	}
	a.storeTyped(l, t, v, s, single && isStrongObj(l.O) && !strings.Contains(l.Path, "[]"))
}

// reach traverses a returned value and lists every object reachable through reference fields.
func (a *analysis) reach(v *Val, t types.Type, s *State) []Reached {
	var out []Reached
	seen := map[string]bool{}
	var walk func(v *Val, t types.Type, path string, depth int)
	walk = func(v *Val, t types.Type, path string, depth int) {
		if v == nil || depth > 6 || !HasRefs(t) {
			return
		}
		switch u := t.Underlying().(type) {
		case *types.Struct:
			for i := 0; i < u.NumFields(); i++ {
				f := u.Field(i)
				if !HasRefs(f.Type()) {
					continue
				}
				var fv *Val
				if v.Flds != nil {
					fv = v.Flds[f.Name()]
				} else if v.Ptr != nil {
					fv = v
				}
				walk(fv, f.Type(), path+"."+f.Name(), depth+1)
			}
			return
		}
		for l := range v.Ptr {
			k := path + "|" + l.String()
			if seen[k] {
				continue
			}
			seen[k] = true
			out = append(out, Reached{Path: path, Obj: l.O})
			// descend into the pointee
			switch u := t.Underlying().(type) {
			case *types.Pointer:
				if HasRefs(u.Elem()) && l.O.Kind != KNil {
					walk(a.loadTyped(Loc{l.O, l.Path}, u.Elem(), s), u.Elem(), path+"->", depth+1)
				}
			case *types.Slice:
				if HasRefs(u.Elem()) && l.O.Kind != KNil {
					ev := a.loadTyped(Loc{l.O, l.Path + "[]"}, u.Elem(), s)
					// recent elements not yet folded
					for rk, rv := range s.recent {
						if rk.O == l.O {
							ev = a.mergeAt(ev, u.Elem(), rk.Path, rv)
						}
					}
					walk(ev, u.Elem(), path+"[]", depth+1)
				}
			}
		}
	}
	walk(v, t, "", 0)
	sort.Slice(out, func(i, j int) bool {
		if out[i].Path != out[j].Path {
			return out[i].Path < out[j].Path
		}
		return out[i].Obj.ID < out[j].Obj.ID
	})
	return out
}

// mergeAt joins rv into the sub-value of ev at field path sub (".payload").
func (a *analysis) mergeAt(ev *Val, t types.Type, sub string, rv *Val) *Val {
	if sub == "" {
		return join(ev, rv)
	}
	r := ev.clone()
	if r == nil {
		r = &Val{}
	}
	name := strings.TrimPrefix(sub, ".")
	rest := ""
	if i := strings.Index(name, "."); i >= 0 {
		name, rest = name[:i], name[i:]
	}
	if r.Flds == nil {
		r.Flds = map[string]*Val{}
	}
	var ft types.Type
	if st, ok := t.Underlying().(*types.Struct); ok {
		for i := 0; i < st.NumFields(); i++ {
			if st.Field(i).Name() == name {
				ft = st.Field(i).Type()
			}
		}
	}
	if ft == nil {
		return r
	}
	r.Flds[name] = a.mergeAt(r.Flds[name], ft, rest, rv)
	return r
}

// ReachOf exposes reach for rule code (e.g. receiver state at exit).
func (r *Result) ReachOf(v *Val, t types.Type) []Reached { return r.an.reach(v, t, r.Final) }

// LoadField loads the content of obj.path at function exit.
func (r *Result) LoadField(o *Obj, path string, t types.Type) *Val {
	return r.an.loadTyped(Loc{o, path}, t, r.Final)
}

// ValueOf returns the abstract value of an SSA value in the entry context (ctx 0).
func (r *Result) ValueOf(v ssa.Value) *Val { return r.an.env[envKey{0, v}] }
