package own

import (
	"fmt"
	"go/types"
	"strings"

	"golang.org/x/tools/go/ssa"

	"rtpcheck/core"
)

// externNoAlias: external callees whose results do not alias their arguments and that do not
// retain them (strings are immutable; errors built by fmt.Errorf format their arguments).
var externNoAlias = map[string]bool{
	"(encoding/binary.bigEndian).Uint16": true, "(encoding/binary.bigEndian).Uint32": true,
	"(encoding/binary.bigEndian).Uint64": true,
	"bytes.Index":                        true, "bytes.Equal": true, "bytes.Compare": true,
	"fmt.Errorf": true, "fmt.Sprintf": true, "fmt.Sprint": true, "errors.New": true, "errors.Is": true,
	"strings.Join": true, "time.Now": true, "time.Unix": true, "(time.Time).UnixNano": true,
	"(time.Duration).Nanoseconds": true, "github.com/pion/randutil.NewMathRandomGenerator": true,
	"(*sync.Mutex).Lock": true, "(*sync.Mutex).Unlock": true,
}

// externWritesFirstArg: callees that write into the slice given as first argument.
var externWritesFirstArg = map[string]bool{
	"(encoding/binary.bigEndian).PutUint16": true, "(encoding/binary.bigEndian).PutUint32": true,
	"(encoding/binary.bigEndian).PutUint64": true,
}

func (a *analysis) doCall(ctx int, fn *ssa.Function, fvs []*Val, x *ssa.Call, s *State) *State {
	get := func(v ssa.Value) *Val { return a.val(ctx, v, fn, fvs) }
	cc := x.Common()
	setRes := func(v *Val) {
		if HasRefs(x.Type()) || v != nil {
			a.setEnv(ctx, x, v)
		}
	}
	if b, ok := cc.Value.(*ssa.Builtin); ok {
		switch b.Name() {
		case "append":
			base := get(cc.Args[0])
			a.recordWrite(fn, x, "append-base", base)
			o := a.allocObj(x, fn, "+append")
			r := &Val{Ptr: map[Loc]bool{{o, ""}: true}}
			if base != nil {
				for l := range base.Ptr {
					if l.O.Kind != KNil {
						r.Ptr[l] = true
					}
				}
			}
			// element references flow from base and from the appended slice into every result array
			et := elemType(cc.Args[0].Type())
			if et != nil && HasRefs(et) {
				var elems *Val
				if base != nil {
					for l := range base.Ptr {
						if l.O.Kind != KNil {
							elems = join(elems, a.loadTyped(Loc{l.O, l.Path + "[]"}, et, s))
						}
					}
				}
				if len(cc.Args) > 1 {
					if src := get(cc.Args[1]); src != nil {
						for l := range src.Ptr {
							if l.O.Kind != KNil {
								elems = join(elems, a.loadTyped(Loc{l.O, l.Path + "[]"}, et, s))
							}
						}
					}
				}
				if elems != nil {
					for l := range r.Ptr {
						a.storeTyped(Loc{l.O, l.Path + "[]"}, et, elems, nil, false)
					}
				}
			}
			setRes(r)
		case "copy":
			dst, src := get(cc.Args[0]), get(cc.Args[1])
			a.recordWrite(fn, x, "copy-dst", dst)
			et := elemType(cc.Args[0].Type())
			if et != nil && HasRefs(et) && dst != nil && src != nil {
				var elems *Val
				for l := range src.Ptr {
					if l.O.Kind != KNil {
						elems = join(elems, a.loadTyped(Loc{l.O, l.Path + "[]"}, et, s))
					}
				}
				for l := range dst.Ptr {
					if l.O.Kind != KNil {
						a.storeTyped(Loc{l.O, l.Path + "[]"}, et, elems, nil, false)
					}
				}
			}
		case "len", "cap", "min", "max", "print", "println", "panic", "recover", "delete", "clear":
		default:
		}
		return s
	}
	name := core.CalleeFullName(x)
	var args []*Val
	for _, av := range cc.Args {
		args = append(args, get(av))
	}
	// static module callee: interpret in place
	if callee := cc.StaticCallee(); callee != nil && !cc.IsInvoke() {
		if core.InModule(callee) && len(callee.Blocks) > 0 {
			var cfv []*Val
			if mc, ok := cc.Value.(*ssa.MakeClosure); ok {
				for _, b := range mc.Bindings {
					cfv = append(cfv, get(b))
				}
			}
			res, ns := a.call(callee, args, cfv, a.ctxFor(ctx, x, callee), s, false)
			a.bindResults(ctx, x, res)
			return ns
		}
		switch {
		case externNoAlias[name]:
			if HasRefs(x.Type()) {
				o := a.allocObj(x, fn, "+ext")
				setRes(a.tupleOrPtr(x.Type(), o))
			}
			return s
		case name == "encoding/binary.PutUvarint":
			if len(args) > 0 {
				a.recordWrite(fn, x, "copy-dst", args[0])
			}
			return s
		case externWritesFirstArg[name]:
			if len(args) > 1 { // receiver is args[0] for bigEndian methods
				a.recordWrite(fn, x, "copy-dst", args[1])
			}
			return s
		case name == "(encoding/binary.bigEndian).AppendUint32":
			base := args[1]
			a.recordWrite(fn, x, "append-base", base)
			o := a.allocObj(x, fn, "+append")
			r := &Val{Ptr: map[Loc]bool{{o, ""}: true}}
			if base != nil {
				for l := range base.Ptr {
					if l.O.Kind != KNil {
						r.Ptr[l] = true
					}
				}
			}
			setRes(r)
			return s
		case name == "bytes.Clone" || name == "slices.Clone":
			o := a.allocObj(x, fn, "+clone")
			setRes(&Val{Ptr: map[Loc]bool{{o, ""}: true}})
			return s
		}
	}
	// dynamic call on closures we can see
	if !cc.IsInvoke() {
		if fv := get(cc.Value); fv != nil && len(fv.Clos) > 0 && len(fv.Ptr) == 0 {
			var res []*Val
			var out *State
			for _, c := range fv.Clos {
				if len(c.Fn.Blocks) == 0 {
					continue
				}
				r, ns := a.call(c.Fn, args, c.Bind, a.ctxFor(ctx, nil, c.Fn), s, false)
				if res == nil {
					res = r
				} else {
					for i := range r {
						if i < len(res) {
							res[i] = join(res[i], r[i])
						}
					}
				}
				out = joinState(out, ns, a)
			}
			a.bindResults(ctx, x, res)
			if out != nil {
				return out
			}
			return s
		}
	}
	// interface invoke on a module type: resolve through the static type's method set when the
	// receiver's dynamic type is not known -> unknown callee
	for i, v := range args {
		if v != nil && (len(v.Ptr) > 0 || len(v.Flds) > 0) {
			_ = i
			a.addEscape(EscapeEvent{Instr: x, Fn: fn, Val: v, To: name})
		}
	}
	if HasRefs(x.Type()) {
		if tup, ok := x.Type().(*types.Tuple); ok {
			r := &Val{Flds: map[string]*Val{}}
			for i := 0; i < tup.Len(); i++ {
				if HasRefs(tup.At(i).Type()) {
					r.Flds[fmt.Sprint(i)] = a.unknown()
				}
			}
			setRes(r)
		} else {
			setRes(a.unknown())
		}
	}
	return s
}

func (a *analysis) tupleOrPtr(t types.Type, o *Obj) *Val {
	if tup, ok := t.(*types.Tuple); ok {
		r := &Val{Flds: map[string]*Val{}}
		for i := 0; i < tup.Len(); i++ {
			if HasRefs(tup.At(i).Type()) {
				r.Flds[fmt.Sprint(i)] = &Val{Ptr: map[Loc]bool{{o, ""}: true}}
			}
		}
		return r
	}
	return &Val{Ptr: map[Loc]bool{{o, ""}: true}}
}

func (a *analysis) bindResults(ctx int, x *ssa.Call, res []*Val) {
	if tup, ok := x.Type().(*types.Tuple); ok {
		r := &Val{Flds: map[string]*Val{}}
		for i := 0; i < tup.Len(); i++ {
			if i < len(res) && res[i] != nil {
				r.Flds[fmt.Sprint(i)] = res[i]
			}
		}
		a.setEnv(ctx, x, r)
		return
	}
	if len(res) > 0 {
		a.setEnv(ctx, x, res[0])
	} else if HasRefs(x.Type()) {
		a.setEnv(ctx, x, a.unknown())
	}
}

// Describe renders a value's targets.
func Describe(v *Val) string {
	if v == nil {
		return "-"
	}
	var p []string
	for l := range v.Ptr {
		p = append(p, l.String())
	}
	return "{" + strings.Join(p, ",") + "}"
}

func (a *analysis) addEscape(e EscapeEvent) {
	k := fmt.Sprintf("esc|%p|%s", e.Instr, e.Val.sig())
	if a.writes[k] {
		return
	}
	a.writes[k] = true
	a.res.Escapes = append(a.res.Escapes, e)
}
