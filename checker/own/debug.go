package own

import (
	"fmt"
	"sort"
)

// Dump prints the weak heap and the final state (debugging aid).
func (r *Result) Dump() {
	var ks []string
	for l, v := range r.Weak {
		ks = append(ks, l.String()+" = "+v.sig())
	}
	sort.Strings(ks)
	for _, k := range ks {
		fmt.Println("  weak", k)
	}
	if r.Final != nil {
		fmt.Println("  final", r.Final.sig())
	}
	for _, rs := range r.Returns {
		for _, rc := range rs.Reach {
			fmt.Printf("  ret#%d %s -> %s\n", rs.Index, rc.Path, rc.Obj.ID)
		}
	}
}
