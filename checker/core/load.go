// Package core holds the loader, the obligation registry and the evidence writer
// shared by all engines.
package core

import (
	"fmt"
	"go/ast"
	"go/token"
	"go/types"
	"os"
	"sort"
	"strings"

	"golang.org/x/tools/go/packages"
	"golang.org/x/tools/go/ssa"
	"golang.org/x/tools/go/ssa/ssautil"
)

const ModulePath = "github.com/pion/rtp"

// Program is the type-checked, SSA-built view of /repo's working tree.
type Program struct {
	resolved map[string]*ssa.Function // renamed unexported anchors (see Func)
	Dir      string
	Fset     *token.FileSet
	Pkgs     []*packages.Package
	SSA      *ssa.Program
	ByPath   map[string]*packages.Package
	SPkgs    map[string]*ssa.Package
	// Funcs: every source function of the module (incl. anonymous), by a stable name.
	Funcs map[string]*ssa.Function
	files map[*token.File]*ast.File
}

// Load type-checks ./... in dir and builds SSA. Any failure is fatal for the caller
// (a check that cannot load must not report "held").
func Load(dir string, extraEnv ...string) (*Program, error) {
	env := append(os.Environ(), "GOFLAGS=-mod=mod", "GOPROXY=off", "GOSUMDB=off", "GOTOOLCHAIN=local", "GOWORK=off")
	env = append(env, extraEnv...)
	cfg := &packages.Config{
		Mode:  packages.LoadAllSyntax,
		Dir:   dir,
		Tests: false,
		Env:   env,
	}
	pkgs, err := packages.Load(cfg, "./...")
	if err != nil {
		return nil, fmt.Errorf("load: %w", err)
	}
	if len(pkgs) == 0 {
		return nil, fmt.Errorf("load: no packages in %s", dir)
	}
	var errs []string
	packages.Visit(pkgs, nil, func(p *packages.Package) {
		for _, e := range p.Errors {
			errs = append(errs, e.Error())
		}
	})
	if len(errs) > 0 {
		return nil, fmt.Errorf("load: type errors: %s", strings.Join(errs, "; "))
	}
	prog, spkgs := ssautil.AllPackages(pkgs, ssa.InstantiateGenerics)
	prog.Build()
	p := &Program{Dir: dir, Fset: cfg.Fset, Pkgs: pkgs, SSA: prog,
		ByPath: map[string]*packages.Package{}, SPkgs: map[string]*ssa.Package{},
		Funcs: map[string]*ssa.Function{}, files: map[*token.File]*ast.File{}}
	if cfg.Fset == nil && len(pkgs) > 0 {
		p.Fset = pkgs[0].Fset
	}
	for i, pk := range pkgs {
		p.ByPath[pk.PkgPath] = pk
		p.SPkgs[pk.PkgPath] = spkgs[i]
		for _, f := range pk.Syntax {
			p.files[p.Fset.File(f.Pos())] = f
		}
	}
	for fn := range ssautil.AllFunctions(prog) {
		if fn.Pkg == nil || !strings.HasPrefix(fn.Pkg.Pkg.Path(), ModulePath) {
			continue
		}
		if fn.Synthetic != "" {
			continue
		}
		p.Funcs[FuncName(fn)] = fn
	}
	return p, nil
}

// ShortPkg turns github.com/pion/rtp/codecs/av1/obu into "obu" (last element), root into "rtp".
func ShortPkg(path string) string {
	if path == ModulePath {
		return "rtp"
	}
	rel := strings.TrimPrefix(path, ModulePath+"/")
	return rel
}

// FuncName gives a stable, readable name: rtp.(*Header).Unmarshal, codecs.emitNalus,
// codecs.(*H264Payloader).Payload$1.
func FuncName(fn *ssa.Function) string {
	if fn == nil {
		return "<nil>"
	}
	if fn.Parent() != nil {
		return FuncName(fn.Parent()) + "$" + strings.TrimPrefix(fn.Name(), fn.Parent().Name()+"$")
	}
	pkg := ""
	if fn.Pkg != nil {
		pkg = ShortPkg(fn.Pkg.Pkg.Path())
	}
	if recv := fn.Signature.Recv(); recv != nil {
		t := recv.Type()
		ptr := false
		if pt, ok := t.(*types.Pointer); ok {
			t = pt.Elem()
			ptr = true
		}
		name := "?"
		if n, ok := t.(*types.Named); ok {
			name = n.Obj().Name()
		}
		if ptr {
			return fmt.Sprintf("%s.(*%s).%s", pkg, name, fn.Name())
		}
		return fmt.Sprintf("%s.(%s).%s", pkg, name, fn.Name())
	}
	return pkg + "." + fn.Name()
}

// AnchorHints: for an unexported anchor, a receiver field it stores into or a word of its result
// type; used to tell renamed helpers apart. AnchorNames: every unexported anchor the rules know.
var (
	AnchorHints = map[string]string{}
	AnchorNames = map[string]bool{}
)

// Func looks a function up by FuncName; nil if absent. An *unexported* function or method that is
// not found under its pinned name is looked for among its unexported siblings (methods of the same
// receiver, or functions of the same package) that no rule knows under another name: when exactly one
// is left, or exactly one stores into the hinted field (returns the hinted type), a behaviour-preserving
// rename is assumed and that sibling is used. Exported names are never guessed.
func (p *Program) Func(name string) *ssa.Function {
	if f := p.Funcs[name]; f != nil {
		return f
	}
	dot := strings.LastIndex(name, ".")
	if dot < 0 || dot+1 >= len(name) || name[dot+1] < 'a' || name[dot+1] > 'z' {
		return nil
	}
	prefix := name[:dot+1]
	if r, ok := p.resolved[name]; ok {
		return r
	}
	var cands []*ssa.Function
	var names []string
	for n := range p.Funcs {
		names = append(names, n)
	}
	sort.Strings(names)
	for _, n := range names {
		f := p.Funcs[n]
		if !strings.HasPrefix(n, prefix) || strings.Contains(n[len(prefix):], ".") || strings.Contains(n[len(prefix):], "$") {
			continue
		}
		last := n[len(prefix):]
		if last == "" || last[0] < 'a' || last[0] > 'z' || AnchorNames[n] || len(f.Blocks) == 0 || last == "init" {
			continue
		}
		cands = append(cands, f)
	}
	var pick *ssa.Function
	if hint := AnchorHints[name]; hint != "" {
		n := 0
		for _, f := range cands {
			if funcMentions(f, hint) {
				pick = f
				n++
			}
		}
		if n != 1 {
			pick = nil
		}
	} else if len(cands) == 1 {
		pick = cands[0]
	}
	if p.resolved == nil {
		p.resolved = map[string]*ssa.Function{}
	}
	p.resolved[name] = pick
	return pick
}

// funcMentions: f stores into a field called hint, or a result type of f is called hint.
func funcMentions(f *ssa.Function, hint string) bool {
	res := f.Signature.Results()
	for i := 0; i < res.Len(); i++ {
		if strings.HasSuffix(res.At(i).Type().String(), "."+hint) {
			return true
		}
	}
	for _, b := range f.Blocks {
		for _, in := range b.Instrs {
			if st, ok := in.(*ssa.Store); ok {
				if fa, ok := st.Addr.(*ssa.FieldAddr); ok && FieldName(fa) == hint {
					return true
				}
			}
		}
	}
	return false
}

// Method finds method `name` on named type pkg.typ (value or pointer receiver).
func (p *Program) Method(pkgShort, typ, name string) *ssa.Function {
	if f := p.Funcs[fmt.Sprintf("%s.(*%s).%s", pkgShort, typ, name)]; f != nil {
		return f
	}
	return p.Funcs[fmt.Sprintf("%s.(%s).%s", pkgShort, typ, name)]
}

// PkgByShort returns the package whose ShortPkg equals s.
func (p *Program) PkgByShort(s string) *packages.Package {
	for path, pk := range p.ByPath {
		if ShortPkg(path) == s {
			return pk
		}
	}
	return nil
}

// NamedType returns the named type pkg.name or nil.
func (p *Program) NamedType(pkgShort, name string) *types.Named {
	pk := p.PkgByShort(pkgShort)
	if pk == nil {
		return nil
	}
	obj := pk.Types.Scope().Lookup(name)
	if obj == nil {
		return nil
	}
	n, _ := obj.Type().(*types.Named)
	return n
}

// Implementers lists the named struct types of the module (all packages) whose pointer
// type implements iface, sorted by name.
func (p *Program) Implementers(iface *types.Interface) []*types.Named {
	var out []*types.Named
	for _, pk := range p.Pkgs {
		sc := pk.Types.Scope()
		for _, nm := range sc.Names() {
			tn, ok := sc.Lookup(nm).(*types.TypeName)
			if !ok || tn.IsAlias() {
				continue
			}
			n, ok := tn.Type().(*types.Named)
			if !ok {
				continue
			}
			if _, isIface := n.Underlying().(*types.Interface); isIface {
				continue
			}
			if types.Implements(types.NewPointer(n), iface) || types.Implements(n, iface) {
				out = append(out, n)
			}
		}
	}
	sort.Slice(out, func(i, j int) bool { return TypeName(out[i]) < TypeName(out[j]) })
	return out
}

func TypeName(n *types.Named) string {
	return ShortPkg(n.Obj().Pkg().Path()) + "." + n.Obj().Name()
}

// MethodOf resolves method `name` for named type n through the SSA program's method sets
// (pointer receiver set), so promoted methods from embedded mixins are found too.
func (p *Program) MethodOf(n *types.Named, name string) *ssa.Function {
	ms := p.SSA.MethodSets.MethodSet(types.NewPointer(n))
	for i := 0; i < ms.Len(); i++ {
		sel := ms.At(i)
		if sel.Obj().Name() == name {
			fn := p.SSA.MethodValue(sel)
			return fn
		}
	}
	return nil
}

// Unwrap follows synthetic wrappers (promoted-method / pointer-receiver thunks) to the
// declared function.
func Unwrap(fn *ssa.Function) *ssa.Function {
	for i := 0; fn != nil && fn.Synthetic != "" && i < 4; i++ {
		var callee *ssa.Function
		for _, b := range fn.Blocks {
			for _, in := range b.Instrs {
				if c, ok := in.(ssa.CallInstruction); ok {
					if sc := c.Common().StaticCallee(); sc != nil {
						callee = sc
					}
				}
			}
		}
		if callee == nil {
			return fn
		}
		fn = callee
	}
	return fn
}

// Position renders a position relative to the repo dir.
func (p *Program) Position(pos token.Pos) string {
	if !pos.IsValid() {
		return "?"
	}
	ps := p.Fset.Position(pos)
	f := strings.TrimPrefix(ps.Filename, p.Dir+"/")
	return fmt.Sprintf("%s:%d", f, ps.Line)
}

// FileOf returns the AST file containing pos.
func (p *Program) FileOf(pos token.Pos) *ast.File {
	if !pos.IsValid() {
		return nil
	}
	return p.files[p.Fset.File(pos)]
}

// InModule reports whether fn is declared in the module under analysis.
func InModule(fn *ssa.Function) bool {
	if fn == nil {
		return false
	}
	for fn.Parent() != nil {
		fn = fn.Parent()
	}
	if fn.Pkg == nil {
		// synthetic wrappers have no Pkg; use the object
		if o := fn.Object(); o != nil && o.Pkg() != nil {
			return strings.HasPrefix(o.Pkg().Path(), ModulePath)
		}
		return false
	}
	return strings.HasPrefix(fn.Pkg.Pkg.Path(), ModulePath)
}
