package core

import (
	"fmt"
	"go/constant"
	"go/token"
	"go/types"
	"strings"

	"golang.org/x/tools/go/ssa"
)

// AddrKey describes an address value as (root value, field/index path). Paths are built from
// FieldAddr (".Name"), IndexAddr with constant index ("[3]") or variable index ("[*]").
// The root is the first value that is not a FieldAddr/IndexAddr (a parameter, Alloc, load ...).
func AddrKey(v ssa.Value) (root ssa.Value, path string) {
	var parts []string
	for {
		switch x := v.(type) {
		case *ssa.FieldAddr:
			st := x.X.Type().Underlying().(*types.Pointer).Elem().Underlying().(*types.Struct)
			parts = append(parts, "."+st.Field(x.Field).Name())
			v = x.X
			continue
		case *ssa.IndexAddr:
			if c, ok := x.Index.(*ssa.Const); ok && c.Value != nil {
				parts = append(parts, "["+c.Value.ExactString()+"]")
			} else {
				parts = append(parts, "[*]")
			}
			v = x.X
			continue
		}
		break
	}
	for i, j := 0, len(parts)-1; i < j; i, j = i+1, j-1 {
		parts[i], parts[j] = parts[j], parts[i]
	}
	return v, strings.Join(parts, "")
}

// FieldName returns the struct field name addressed by fa.
func FieldName(fa *ssa.FieldAddr) string {
	st := fa.X.Type().Underlying().(*types.Pointer).Elem().Underlying().(*types.Struct)
	return st.Field(fa.Field).Name()
}

// FieldOfValue returns the field name for an ssa.Field (value struct access).
func FieldOfValue(f *ssa.Field) string {
	st := f.X.Type().Underlying().(*types.Struct)
	return st.Field(f.Field).Name()
}

// ConstInt returns the integer value of a constant.
func ConstInt(v ssa.Value) (int64, bool) {
	if k, ok := v.(*ssa.Const); ok && k.Value != nil && k.Value.Kind() == constant.Int {
		if n, ok := constant.Int64Val(k.Value); ok {
			return n, true
		}
		if u, ok := constant.Uint64Val(k.Value); ok {
			return int64(u), true
		}
	}
	return 0, false
}

// ConstBool returns the value of a boolean constant.
func ConstBool(v ssa.Value) (bool, bool) {
	if k, ok := v.(*ssa.Const); ok && k.Value != nil && k.Value.Kind() == constant.Bool {
		return constant.BoolVal(k.Value), true
	}
	return false, false
}

// IsNilConst reports whether v is the nil constant.
func IsNilConst(v ssa.Value) bool {
	k, ok := v.(*ssa.Const)
	return ok && k.Value == nil
}

// EdgeDominates reports whether the CFG edge from->to dominates block b: every path from the
// entry to b passes through that edge.
func EdgeDominates(from, to, b *ssa.BasicBlock) bool {
	if !to.Dominates(b) {
		return false
	}
	for _, p := range to.Preds {
		if p == from {
			continue
		}
		if !to.Dominates(p) { // another way into `to` that does not come through it (not a back edge)
			return false
		}
	}
	// from must have `to` only once among successors, else the edge is ambiguous
	n := 0
	for _, s := range from.Succs {
		if s == to {
			n++
		}
	}
	return n == 1
}

// Guard is a branch condition known to hold (Truth) when a block executes.
type Guard struct {
	Cond  ssa.Value
	Truth bool
	At    *ssa.BasicBlock
}

// DominatingGuards lists the branch conditions whose edge dominates b, innermost last.
func DominatingGuards(b *ssa.BasicBlock) []Guard {
	var out []Guard
	for d := b.Idom(); d != nil; d = d.Idom() {
		if len(d.Instrs) == 0 {
			continue
		}
		iff, ok := d.Instrs[len(d.Instrs)-1].(*ssa.If)
		if !ok {
			continue
		}
		if EdgeDominates(d, d.Succs[0], b) {
			out = append(out, Guard{iff.Cond, true, d})
		} else if EdgeDominates(d, d.Succs[1], b) {
			out = append(out, Guard{iff.Cond, false, d})
		}
	}
	// b itself may be the target of a dominating edge from its idom: handled above since
	// EdgeDominates(d, succ, b) includes succ == b.
	for i, j := 0, len(out)-1; i < j; i, j = i+1, j-1 {
		out[i], out[j] = out[j], out[i]
	}
	return out
}

// StaticCallee returns the callee of a call instruction if statically known.
func StaticCallee(in ssa.Instruction) *ssa.Function {
	if c, ok := in.(ssa.CallInstruction); ok {
		return c.Common().StaticCallee()
	}
	return nil
}

// CalleeFullName is e.g. "(*sync.Mutex).Lock" or "encoding/binary.bigEndian.Uint16".
func CalleeFullName(in ssa.Instruction) string {
	c, ok := in.(ssa.CallInstruction)
	if !ok {
		return ""
	}
	cc := c.Common()
	if cc.IsInvoke() {
		return "invoke " + cc.Method.FullName()
	}
	if f := cc.StaticCallee(); f != nil {
		if o := f.Object(); o != nil {
			if fo, ok := o.(*types.Func); ok {
				return fo.FullName()
			}
		}
		return f.String()
	}
	if b, ok := cc.Value.(*ssa.Builtin); ok {
		return "builtin " + b.Name()
	}
	return "dynamic"
}

// BuiltinName returns the builtin's name if the call is to a builtin.
func BuiltinName(in ssa.Instruction) string {
	if c, ok := in.(ssa.CallInstruction); ok {
		if b, ok := c.Common().Value.(*ssa.Builtin); ok {
			return b.Name()
		}
	}
	return ""
}

// Reachable returns the blocks reachable from b (including b).
func Reachable(b *ssa.BasicBlock) map[*ssa.BasicBlock]bool {
	seen := map[*ssa.BasicBlock]bool{}
	var walk func(*ssa.BasicBlock)
	walk = func(x *ssa.BasicBlock) {
		if seen[x] {
			return
		}
		seen[x] = true
		for _, s := range x.Succs {
			walk(s)
		}
	}
	walk(b)
	return seen
}

// InstrIndex returns the index of in within its block.
func InstrIndex(in ssa.Instruction) int {
	for i, x := range in.Block().Instrs {
		if x == in {
			return i
		}
	}
	return -1
}

// Precedes reports whether a is executed before b on every path reaching b
// (a's block strictly dominates b's, or same block and earlier).
func Precedes(a, b ssa.Instruction) bool {
	if a.Block() == b.Block() {
		return InstrIndex(a) < InstrIndex(b)
	}
	return a.Block().Dominates(b.Block())
}

// StripConv removes value-preserving wrappers (Convert, ChangeType, MakeInterface).
func StripConv(v ssa.Value) ssa.Value {
	for {
		switch x := v.(type) {
		case *ssa.Convert:
			v = x.X
		case *ssa.ChangeType:
			v = x.X
		default:
			return v
		}
	}
}

// OpString is a compact rendering of a value for diagnostics.
func OpString(v ssa.Value) string {
	if v == nil {
		return "<nil>"
	}
	switch x := v.(type) {
	case *ssa.Const:
		return x.String()
	case *ssa.BinOp:
		return fmt.Sprintf("(%s %s %s)", OpString(x.X), x.Op, OpString(x.Y))
	case *ssa.UnOp:
		if x.Op == token.MUL {
			return "*" + OpString(x.X)
		}
		return x.Op.String() + OpString(x.X)
	case *ssa.FieldAddr:
		return "&" + OpString(x.X) + "." + FieldName(x)
	case *ssa.Parameter:
		return x.Name()
	case *ssa.Convert:
		return fmt.Sprintf("%s(%s)", x.Type(), OpString(x.X))
	}
	return v.Name()
}

// RecvTypeName returns the name of the receiver's named type ("" for a plain function).
func RecvTypeName(fn *ssa.Function) string {
	recv := fn.Signature.Recv()
	if recv == nil {
		return ""
	}
	t := recv.Type()
	if pt, ok := t.(*types.Pointer); ok {
		t = pt.Elem()
	}
	if n, ok := t.(*types.Named); ok {
		return n.Obj().Name()
	}
	return ""
}
