package core

import (
	"go/token"
	"go/types"

	"golang.org/x/tools/go/ssa"
)

// MayWrite classifies an instruction's effect on the memory cell (root,path) of pointee type t.
//
//	0 = no effect, 1 = definitely stores value (returned), 2 = may clobber (unknown value).
type writeEffect int

const (
	noWrite writeEffect = iota
	mustWrite
	mayWrite
)

// PureCallees are external callees known not to write through module-visible pointers
// (beyond their explicit destination argument, which is a []byte / fresh memory).
var PureCallees = map[string]bool{
	"(*sync.Mutex).Lock": true, "(*sync.Mutex).Unlock": true,
	"(*sync.RWMutex).Lock": true, "(*sync.RWMutex).Unlock": true,
	"(*sync.RWMutex).RLock": true, "(*sync.RWMutex).RUnlock": true,
	"fmt.Errorf": true, "fmt.Sprintf": true, "errors.New": true,
	"(encoding/binary.bigEndian).Uint16": true, "(encoding/binary.bigEndian).Uint32": true,
	"(encoding/binary.bigEndian).Uint64":    true,
	"(encoding/binary.bigEndian).PutUint16": true, "(encoding/binary.bigEndian).PutUint32": true,
	"(encoding/binary.bigEndian).PutUint64": true, "(encoding/binary.bigEndian).AppendUint32": true,
	"encoding/binary.PutUvarint": true, "math/bits.Len": true, "math/bits.Len64": true, "math/bits.Len32": true,
	"bytes.Index": true, "time.Now": true, "(time.Time).UnixNano": true, "time.Unix": true,
	"(time.Duration).Nanoseconds": true, "strings.Join": true,
}

func effectOn(in ssa.Instruction, root ssa.Value, path string, t types.Type) (writeEffect, ssa.Value) {
	switch x := in.(type) {
	case *ssa.Store:
		r, p := AddrKey(x.Addr)
		if r == root && p == path {
			return mustWrite, x.Val
		}
		if r == root {
			// same root, different path: disjoint unless one is a prefix of the other
			if len(p) < len(path) && path[:len(p)] == p || len(path) < len(p) && p[:len(path)] == path {
				return mayWrite, nil
			}
			return noWrite, nil
		}
		// different root: may alias only if pointee types are identical and neither root is a
		// fresh local allocation
		pt := x.Addr.Type().Underlying().(*types.Pointer).Elem()
		if !types.Identical(pt, t) {
			return noWrite, nil
		}
		if _, ok := r.(*ssa.Alloc); ok {
			return noWrite, nil
		}
		if _, ok := root.(*ssa.Alloc); ok {
			return noWrite, nil
		}
		return mayWrite, nil
	case ssa.CallInstruction:
		if _, isDefer := in.(*ssa.Defer); isDefer {
			return noWrite, nil
		}
		if BuiltinName(in) != "" {
			return noWrite, nil // len/cap/copy/append write only slice elements
		}
		if PureCallees[CalleeFullName(in)] {
			return noWrite, nil
		}
		// a local cell whose address never escapes is not reachable by a callee
		if a, ok := root.(*ssa.Alloc); ok && !a.Heap {
			return noWrite, nil
		}
		return mayWrite, nil
	}
	return noWrite, nil
}

// ResolveLoad finds the value a load observes, if it is determined by a unique preceding store
// on every path (following single-predecessor chains only). It returns:
//
//	(val, true)  – the load observes exactly val (an earlier store's operand);
//	(nil, true)  – the load observes the value the cell had on function entry;
//	(nil, false) – unknown (clobbered, or a join point intervenes).
func ResolveLoad(load *ssa.UnOp) (ssa.Value, bool) {
	if load.Op != token.MUL {
		return nil, false
	}
	root, path := AddrKey(load.X)
	t := load.Type()
	b := load.Block()
	idx := InstrIndex(load) - 1
	for hops := 0; hops < 64; hops++ {
		for ; idx >= 0; idx-- {
			eff, val := effectOn(b.Instrs[idx], root, path, t)
			switch eff {
			case mustWrite:
				return val, true
			case mayWrite:
				return nil, false
			}
			// the root itself must be defined before we walk past it
			if v, ok := b.Instrs[idx].(ssa.Value); ok && v == root {
				if _, isAlloc := root.(*ssa.Alloc); isAlloc {
					return nil, true // fresh zero cell
				}
			}
		}
		if len(b.Preds) == 0 {
			return nil, true
		}
		if len(b.Preds) != 1 {
			// join: accept if no block between the dominator and here can write the cell
			d := b.Idom()
			if d == nil {
				return nil, false
			}
			if !regionClean(d, b, root, path, t) {
				return nil, false
			}
			b = d
			idx = len(b.Instrs) - 1
			continue
		}
		b = b.Preds[0]
		idx = len(b.Instrs) - 1
	}
	return nil, false
}

// regionClean: no instruction in blocks strictly between dom and b (on paths dom->b) affects the cell.
func regionClean(dom, b *ssa.BasicBlock, root ssa.Value, path string, t types.Type) bool {
	seen := map[*ssa.BasicBlock]bool{dom: true}
	var stack []*ssa.BasicBlock
	for _, p := range b.Preds {
		stack = append(stack, p)
	}
	for len(stack) > 0 {
		x := stack[len(stack)-1]
		stack = stack[:len(stack)-1]
		if seen[x] {
			continue
		}
		seen[x] = true
		if x == b {
			// loop back into b: b's own instructions before the load are checked by the caller;
			// be conservative
			return false
		}
		for _, in := range x.Instrs {
			if eff, _ := effectOn(in, root, path, t); eff != noWrite {
				return false
			}
		}
		for _, p := range x.Preds {
			stack = append(stack, p)
		}
	}
	return true
}

// Resolve follows loads through ResolveLoad and strips defer-spill locals, returning a value
// that is either not a load, or a load of entry-state memory / an unresolvable load.
func Resolve(v ssa.Value) ssa.Value {
	for i := 0; i < 16; i++ {
		u, ok := v.(*ssa.UnOp)
		if !ok || u.Op != token.MUL {
			return v
		}
		val, known := ResolveLoad(u)
		if !known || val == nil {
			return v
		}
		v = val
	}
	return v
}

// IsEntryLoadOf reports whether v is a load of receiver/param field `field` (path ".field")
// observing the value on function entry.
func IsEntryLoadOf(v ssa.Value, root ssa.Value, path string) bool {
	u, ok := v.(*ssa.UnOp)
	if !ok || u.Op != token.MUL {
		return false
	}
	r, p := AddrKey(u.X)
	if r != root || p != path {
		return false
	}
	val, known := ResolveLoad(u)
	return known && val == nil
}

// Interval computes a conservative [lo,hi] for an integer value using only constants, type
// ranges, masks, shifts, remainders and a table of call results (e.g. Intn(c) in [0,c-1]).
func Interval(v ssa.Value, depth int) (lo, hi int64, ok bool) {
	tlo, thi, tok := TypeRange(v.Type())
	if depth > 8 {
		return tlo, thi, tok
	}
	if n, isC := ConstInt(v); isC {
		return n, n, true
	}
	clip := func(l, h int64) (int64, int64, bool) {
		if !tok {
			return l, h, true
		}
		if l < tlo || h > thi {
			return tlo, thi, true
		}
		return l, h, true
	}
	switch x := v.(type) {
	case *ssa.Convert:
		l, h, k := Interval(x.X, depth+1)
		if k && tok && l >= tlo && h <= thi {
			return l, h, true
		}
	case *ssa.BinOp:
		al, ah, ak := Interval(x.X, depth+1)
		bl, bh, bk := Interval(x.Y, depth+1)
		switch x.Op {
		case token.AND:
			if bk && bl >= 0 && (!ak || al < 0) {
				return 0, bh, true
			}
			if ak && al >= 0 && (!bk || bl < 0) {
				return 0, ah, true
			}
			if ak && bk && al >= 0 && bl >= 0 {
				if ah < bh {
					return 0, ah, true
				}
				return 0, bh, true
			}
		case token.REM:
			if bk && bl == bh && bl > 0 && ak && al >= 0 {
				return 0, bl - 1, true
			}
		case token.SHR:
			if ak && bk && al >= 0 && bl == bh && bl >= 0 && bl < 63 {
				return al >> uint(bl), ah >> uint(bl), true
			}
		case token.ADD:
			if ak && bk && ah < 1<<61 && bh < 1<<61 && al > -(1<<61) && bl > -(1<<61) {
				return clip(al+bl, ah+bh)
			}
		case token.SUB:
			if ak && bk && ah < 1<<61 && bh < 1<<61 && al > -(1<<61) && bl > -(1<<61) {
				return clip(al-bh, ah-bl)
			}
		}
	case *ssa.Call:
		name := CalleeFullName(x)
		if (name == "invoke (github.com/pion/randutil.MathRandomGenerator).Intn" ||
			name == "(*github.com/pion/randutil.mathRandomGenerator).Intn") && len(x.Call.Args) >= 1 {
			if c, isC := ConstInt(x.Call.Args[len(x.Call.Args)-1]); isC && c > 0 {
				return 0, c - 1, true
			}
		}
	}
	return tlo, thi, tok
}

// TypeRange gives the value range of a (narrow) integer type; ok=false for non-integers.
func TypeRange(t types.Type) (lo, hi int64, ok bool) {
	b, isB := t.Underlying().(*types.Basic)
	if !isB || b.Info()&types.IsInteger == 0 {
		return 0, 0, false
	}
	switch b.Kind() {
	case types.Int8:
		return -128, 127, true
	case types.Int16:
		return -32768, 32767, true
	case types.Int32:
		return -1 << 31, 1<<31 - 1, true
	case types.Uint8:
		return 0, 255, true
	case types.Uint16:
		return 0, 65535, true
	case types.Uint32:
		return 0, 1<<32 - 1, true
	case types.Uint, types.Uint64, types.Uintptr:
		return 0, 1<<63 - 1, true // clipped to int64: callers treat hi == MaxInt64 as unbounded
	}
	return -1 << 63, 1<<63 - 1, true
}
