package core

import (
	"bytes"
	"encoding/json"
	"fmt"
	"go/ast"
	"go/printer"
	"go/token"
	"os"
	"path/filepath"
	"sort"
	"strings"
	"time"
)

type Status int

const (
	Discharged Status = iota
	Assumed
	Known
	Violation
)

func (s Status) String() string {
	return [...]string{"discharged", "assumed", "known-finding", "VIOLATION"}[s]
}

// Obligation is one rule instance. Key = Rule|Func|Construct (never a line number).
type Obligation struct {
	Rule      string `json:"rule"`
	Func      string `json:"func"`
	Construct string `json:"construct"`
	Pos       string `json:"pos"`
	Status    string `json:"status"`
	Detail    string `json:"detail,omitempty"`
	Reason    string `json:"reason,omitempty"` // for assumed / known
	st        Status
}

func (o *Obligation) Key() string { return o.Rule + "|" + o.Func + "|" + o.Construct }

// Report collects the obligations of one property run.
type Report struct {
	Prop       string
	Tier       string
	Seed       int64
	Level      string
	Start      time.Time
	Obls       []*Obligation
	Info       []string
	Floors     []Floor
	FuncsSeen  map[string]bool
	Trusted    []string
	Assumes    []string
	Explain    string
	CheckerCmd string
	Fatal      []string // analysis failures: exit 2
	known      *KnownFile
	assumed    map[string]string
	usedKnown  map[string]bool
	usedAssume map[string]bool
	ord        map[string]int
}

type Floor struct {
	What string `json:"what"`
	Got  int    `json:"got"`
	Min  int    `json:"min"`
}

func NewReport(prop, tier string, seed int64, known *KnownFile, assumed map[string]string) *Report {
	return &Report{Prop: prop, Tier: tier, Seed: seed, Level: "other", Start: time.Now(),
		FuncsSeen: map[string]bool{}, known: known, assumed: assumed,
		usedKnown: map[string]bool{}, usedAssume: map[string]bool{}, ord: map[string]int{}}
}

// Construct builds the construct part of a key: normalised text plus an occurrence ordinal
// within (rule, func) so two identical expressions in one function stay distinct.
func (r *Report) construct(rule, fn, text string) string {
	text = strings.Join(strings.Fields(text), " ")
	k := rule + "|" + fn + "|" + text
	r.ord[k]++
	if n := r.ord[k]; n > 1 {
		return fmt.Sprintf("%s #%d", text, n)
	}
	return text
}

// Add registers an obligation. ok=true means the engine discharged it. Otherwise the key is
// looked up in the assumed table, then in the known-findings file; anything else is a violation.
func (r *Report) Add(rule, fn, text, pos string, ok bool, detail string) *Obligation {
	o := &Obligation{Rule: rule, Func: fn, Construct: r.construct(rule, fn, text), Pos: pos, Detail: detail}
	r.FuncsSeen[fn] = true
	switch {
	case ok:
		o.st = Discharged
	default:
		key := o.Key()
		if reason, hit := r.assumed[key]; hit {
			o.st = Assumed
			o.Reason = reason
			r.usedAssume[key] = true
		} else if what, hit := r.known.Lookup(r.Prop, key); hit {
			o.st = Known
			o.Reason = what
			r.usedKnown[key] = true
		} else {
			o.st = Violation
		}
	}
	o.Status = o.st.String()
	r.Obls = append(r.Obls, o)
	return o
}

// Construct reserves the construct text (with its occurrence ordinal) for a later AddRaw.
func (r *Report) Construct(rule, fn, text string) string { return r.construct(rule, fn, text) }

// AddRaw registers an obligation under an already reserved construct. With st < 0 the status of an
// undischarged obligation is looked up (assumed table, known findings) exactly as Add does;
// otherwise the caller decided it (assumed-by-family obligations, see props/boundsstub.go).
func (r *Report) AddRaw(rule, fn, construct, pos string, st int, detail, reason string) *Obligation {
	o := &Obligation{Rule: rule, Func: fn, Construct: construct, Pos: pos, Detail: detail}
	r.FuncsSeen[fn] = true
	if st >= 0 {
		o.st, o.Reason = Status(st), reason
	} else {
		key := o.Key()
		if why, hit := r.assumed[key]; hit {
			o.st, o.Reason = Assumed, why
			r.usedAssume[key] = true
		} else if what, hit := r.known.Lookup(r.Prop, key); hit {
			o.st, o.Reason = Known, what
			r.usedKnown[key] = true
		} else {
			o.st = Violation
		}
	}
	o.Status = o.st.String()
	r.Obls = append(r.Obls, o)
	return o
}

// AssumedKeys lists the keys of the assumed table (for family budgets).
func (r *Report) AssumedKeys() map[string]string { return r.assumed }

func (r *Report) Infof(format string, a ...any) { r.Info = append(r.Info, fmt.Sprintf(format, a...)) }

// Floor records a vacuity guard: fewer than min instances is a failed check.
func (r *Report) Floor(what string, got, min int) {
	r.Floors = append(r.Floors, Floor{what, got, min})
	// fewer instances than were confirmed by hand on the pinned tree: the code no longer has the
	// shape the rule was written for, so the property cannot be claimed to hold
	r.Add("VACUITY.floor", r.Prop, what, "", got >= min,
		fmt.Sprintf("the rule matched %d instances, at least %d were confirmed on the pinned tree: constructs the rule relies on have disappeared", got, min))
}

func (r *Report) Fatalf(format string, a ...any) {
	r.Fatal = append(r.Fatal, fmt.Sprintf(format, a...))
}

func (r *Report) Count(st Status) int {
	n := 0
	for _, o := range r.Obls {
		if o.st == st {
			n++
		}
	}
	return n
}

// Finish writes evidence and the violation replay file, prints the protocol lines and returns
// the process exit code (0 held, 1 violation, 2 checker failure).
func (r *Report) Finish(verifDir string) int {
	wall := time.Since(r.Start).Seconds()
	viol := r.Count(Violation)
	// per-rule counts
	perRule := map[string]map[string]int{}
	for _, o := range r.Obls {
		m := perRule[o.Rule]
		if m == nil {
			m = map[string]int{}
			perRule[o.Rule] = m
		}
		m[o.Status]++
	}
	// samples: deterministic selection driven by seed
	var samples []any
	if n := len(r.Obls); n > 0 {
		step := n / 8
		if step == 0 {
			step = 1
		}
		off := 0
		if r.Seed > 0 {
			off = int(r.Seed % int64(step))
		}
		for i := off; i < n && len(samples) < 10; i += step {
			samples = append(samples, r.Obls[i])
		}
	}
	var assumedList, knownList, violList []*Obligation
	for _, o := range r.Obls {
		switch o.st {
		case Assumed:
			assumedList = append(assumedList, o)
		case Known:
			knownList = append(knownList, o)
		case Violation:
			violList = append(violList, o)
		}
	}
	funcs := make([]string, 0, len(r.FuncsSeen))
	for f := range r.FuncsSeen {
		funcs = append(funcs, f)
	}
	sort.Strings(funcs)
	distinct := map[string]bool{}
	for _, o := range r.Obls {
		distinct[o.Key()] = true
	}
	cov := map[string]any{
		"explanation":         r.Explain,
		"obligations":         len(r.Obls),
		"discharged":          r.Count(Discharged),
		"assumed":             len(assumedList),
		"known_findings":      len(knownList),
		"evaluations":         len(r.Obls),
		"distinct_nontrivial": len(distinct),
		"rule":                "one obligation per (rule, function, construct); distinct = distinct keys; every obligation is a non-trivial proof goal or structural rule instance",
		"checker_cmd":         r.CheckerCmd,
		"trusted_base":        r.Trusted,
		"samples":             samples,
		"per_rule":            perRule,
		"functions_analysed":  funcs,
		"floors":              r.Floors,
		"assumed_list":        assumedList,
		"known_list":          knownList,
		"violation_list":      violList,
		"info":                r.Info,
		"exhaustive":          false,
	}
	if len(samples) == 0 {
		cov["samples"] = []any{"no obligations generated"}
	}
	ev := map[string]any{
		"property_id": r.Prop,
		"tier":        r.Tier,
		"seed":        r.Seed,
		"level":       r.Level,
		"coverage":    cov,
		"assumptions": r.Assumes,
		"wall_s":      wall,
		"violations":  viol,
	}
	if len(r.Fatal) > 0 {
		ev["checker_failures"] = r.Fatal
	}
	evDir := filepath.Join(verifDir, "evidence")
	_ = os.MkdirAll(evDir, 0o755)
	b, _ := json.MarshalIndent(ev, "", " ")
	if err := os.WriteFile(filepath.Join(evDir, r.Prop+".json"), b, 0o644); err != nil {
		fmt.Fprintf(os.Stderr, "cannot write evidence: %v\n", err)
		return 2
	}
	fmt.Printf("property=%s tier=%s obligations=%d discharged=%d assumed=%d known=%d violations=%d functions=%d wall=%.1fs\n",
		r.Prop, r.Tier, len(r.Obls), r.Count(Discharged), len(assumedList), len(knownList), viol, len(funcs), wall)
	for _, o := range knownList {
		fmt.Printf("KNOWN-FINDING: property=%s %s (%s) %s\n", r.Prop, o.Key(), o.Pos, o.Reason)
	}
	if len(r.Fatal) > 0 {
		for _, f := range r.Fatal {
			fmt.Printf("CHECKER-FAILURE property=%s %s\n", r.Prop, f)
		}
		if viol == 0 {
			return 2
		}
	}
	replay := filepath.Join(evDir, r.Prop+".violation.json")
	if viol > 0 {
		vb, _ := json.MarshalIndent(map[string]any{"property": r.Prop, "violations": violList}, "", " ")
		_ = os.WriteFile(replay, vb, 0o644)
		for _, o := range violList {
			fmt.Printf("  violation: %s at %s: %s\n", o.Key(), o.Pos, o.Detail)
		}
		fmt.Printf("VIOLATION property=%s replay=%s\n", r.Prop, replay)
		return 1
	}
	_ = os.Remove(replay)
	return 0
}

// KnownFile is /verif/known_findings.json: genuine defects recorded, not repaired.
type KnownFile struct {
	Known []KnownEntry `json:"known"`
	Fixed []FixedEntry `json:"fixed"`
}
type KnownEntry struct {
	Property string `json:"property"`
	Key      string `json:"key"`
	What     string `json:"what"`
}
type FixedEntry struct {
	Property string `json:"property"`
	Commit   string `json:"commit"`
	What     string `json:"what"`
	Line     string `json:"line"`
}

func LoadKnown(path string) (*KnownFile, error) {
	k := &KnownFile{}
	b, err := os.ReadFile(path)
	if err != nil {
		if os.IsNotExist(err) {
			return k, nil
		}
		return nil, err
	}
	if err := json.Unmarshal(b, k); err != nil {
		return nil, err
	}
	return k, nil
}

func (k *KnownFile) Lookup(prop, key string) (string, bool) {
	if k == nil {
		return "", false
	}
	for _, e := range k.Known {
		if e.Property == prop && e.Key == key {
			return e.What, true
		}
	}
	return "", false
}

// ---- construct text -------------------------------------------------------------------------

// NodeText prints an AST node compactly.
func (p *Program) NodeText(n ast.Node) string {
	if n == nil {
		return ""
	}
	var buf bytes.Buffer
	cfg := printer.Config{Mode: printer.RawFormat}
	_ = cfg.Fprint(&buf, p.Fset, n)
	s := strings.Join(strings.Fields(buf.String()), " ")
	if len(s) > 120 {
		s = s[:117] + "..."
	}
	return s
}

// ExprAt finds the innermost expression whose "anchor" position equals pos: the Lbrack of an
// index/slice expression, the Lparen of a call, the OpPos of a binary/unary expr, the Sel of a
// selector, or the node's own Pos.
func (p *Program) ExprAt(pos token.Pos) ast.Node {
	f := p.FileOf(pos)
	if f == nil {
		return nil
	}
	var best ast.Node
	ast.Inspect(f, func(n ast.Node) bool {
		if n == nil {
			return false
		}
		if pos < n.Pos() || pos > n.End() {
			return false
		}
		hit := false
		switch x := n.(type) {
		case *ast.IndexExpr:
			hit = x.Lbrack == pos
		case *ast.SliceExpr:
			hit = x.Lbrack == pos
		case *ast.CallExpr:
			hit = x.Lparen == pos
		case *ast.BinaryExpr:
			hit = x.OpPos == pos
		case *ast.UnaryExpr:
			hit = x.OpPos == pos
		case *ast.SelectorExpr:
			hit = x.Sel.Pos() == pos
		case *ast.StarExpr:
			hit = x.Star == pos
		case *ast.CompositeLit:
			hit = x.Lbrace == pos
		case *ast.TypeAssertExpr:
			hit = x.Lparen == pos
		case *ast.RangeStmt:
			hit = x.For == pos || x.TokPos == pos
		case *ast.AssignStmt:
			hit = x.TokPos == pos
		case *ast.IncDecStmt:
			hit = x.TokPos == pos
		}
		if hit || n.Pos() == pos {
			if best == nil || hit {
				best = n
			}
		}
		return true
	})
	return best
}

// TextAt is the construct text for a position; falls back to the fallback string.
func (p *Program) TextAt(pos token.Pos, fallback string) string {
	if n := p.ExprAt(pos); n != nil {
		if t := p.NodeText(n); t != "" {
			return t
		}
	}
	return fallback
}
