// Package casei: abstract interpretation of small, loop-carrying integer/byte routines under a finite case
// split of their input.
//
// The abstract value of an integer is the product of an unsigned interval and a bit-provenance vector
// (each bit is 0, 1, a named input bit, or unknown). Control flow is followed only where the abstract
// value of the branch condition decides it (a comparison with zero is decided by the interval or by a bit
// known to be 1, a mask test by the known bits); a condition the value does not decide makes the run
// "undecided" — nothing is guessed and no path is forked. Loops are therefore unrolled exactly as far as
// the case's interval/bit knowledge determines their trip count, which is what the LEB128 routines need:
// within one size class (7k-bit values, or k-octet encodings with their continuation bits) every
// comparison is decided. No constraint solving is involved; the result for a case is the output as a
// vector of input bits, valid for all inputs of the case at once.
package casei

import (
	"fmt"
	"go/constant"
	"go/token"
	"go/types"
	mbits "math/bits"
	"strings"

	"golang.org/x/tools/go/ssa"
)

// BitKind: the provenance of one bit.
type BitKind uint8

const (
	Zero BitKind = iota
	One
	In  // input bit (Src, Idx)
	Top // unknown
)

type Bit struct {
	K   BitKind
	Src string
	Idx int
	Neg bool // In only: the complement of the input bit
}

func (b Bit) String() string {
	switch b.K {
	case Zero:
		return "0"
	case One:
		return "1"
	case In:
		if b.Neg {
			return fmt.Sprintf("!%s.%d", b.Src, b.Idx)
		}
		return fmt.Sprintf("%s.%d", b.Src, b.Idx)
	}
	return "?"
}

// Val is an abstract value.
type Val struct {
	// integers and booleans
	W      int // width in bits (1 for bool)
	Bits   [64]Bit
	Lo, Hi uint64 // unsigned interval (inclusive); always sound, tightened from the bits when built
	// byte slices
	Arr      *Array
	Off, Len int
	IsSlice  bool
	// pointers to a byte cell
	Cell    *Array
	CellIdx int
	IsPtr   bool
	// pointers to a cell of a scalar or struct object
	Ref  *Obj
	Path string
	// opaque non-integer values (errors): Nil reports a nil constant
	Opaque bool
	Nil    bool
	Tuple  []Val
}

// Obj is a scalar or struct object: one abstract value per field path ("" for a scalar, ".F", ".F.G").
type Obj struct {
	Cells map[string]Val
}

// NewObj allocates an object whose cells all hold their zero value.
func NewObj() *Obj { return &Obj{Cells: map[string]Val{}} }

// Array is a concrete-length byte array with abstract contents.
type Array struct {
	Elems []Val
}

func Const(n uint64, w int) Val {
	v := Val{W: w, Lo: n, Hi: n}
	for i := 0; i < 64; i++ {
		if i < w && n&(1<<uint(i)) != 0 {
			v.Bits[i] = Bit{K: One}
		}
	}
	return v
}

func mask(w int) uint64 {
	if w >= 64 {
		return ^uint64(0)
	}
	return (uint64(1) << uint(w)) - 1
}

// normalize recomputes the interval from the bits and intersects it with the given one.
func (v Val) normalize() Val {
	var lo, hi uint64
	for i := 0; i < v.W && i < 64; i++ {
		switch v.Bits[i].K {
		case One:
			lo |= 1 << uint(i)
			hi |= 1 << uint(i)
		case Zero:
		default:
			hi |= 1 << uint(i)
		}
	}
	for i := v.W; i < 64; i++ {
		v.Bits[i] = Bit{}
	}
	if lo > v.Lo {
		v.Lo = lo
	}
	if hi < v.Hi {
		v.Hi = hi
	}
	// an interval below 2^k makes the bits above k zero
	for i := 63; i >= 0; i-- {
		if i < 64 && v.Hi < (uint64(1)<<uint(i)) && i < v.W {
			v.Bits[i] = Bit{}
		}
	}
	return v
}

// Input builds an integer of width w whose bits below n are the input bits src.0..n-1 and whose value lies in [lo,hi].
func Input(src string, w, n int, lo, hi uint64) Val {
	v := Val{W: w, Lo: lo, Hi: hi}
	for i := 0; i < n && i < w; i++ {
		v.Bits[i] = Bit{K: In, Src: src, Idx: i}
	}
	return v.normalize()
}

// IsConst reports a fully known value.
func (v Val) IsConst() (uint64, bool) {
	if v.Lo == v.Hi {
		return v.Lo, true
	}
	return 0, false
}

type undecided struct{ why string }

func fail(format string, a ...interface{}) { panic(undecided{fmt.Sprintf(format, a...)}) }

// ErrUnsupported is wrapped by the errors Run returns when the routine uses a construct the interpreter does
// not model (as opposed to a branch or comparison that the case's abstract values do not decide).
var ErrUnsupported = fmt.Errorf("construct not modelled")

// Machine runs one function (and the module functions it calls statically) on abstract arguments.
type Machine struct {
	Steps int
}

// Run interprets fn on args; it returns the result (a Tuple for several results) or an error naming the
// instruction whose outcome the abstract values do not decide.
func (m *Machine) Run(fn *ssa.Function, args []Val) (res Val, err error) {
	defer func() {
		if x := recover(); x != nil {
			if u, ok := x.(undecided); ok {
				if strings.Contains(u.why, "not decide") || strings.Contains(u.why, "not fix") || strings.Contains(u.why, "out of range") || strings.Contains(u.why, "step budget") {
					err = fmt.Errorf("%s", u.why)
				} else {
					err = fmt.Errorf("%s: %w", u.why, ErrUnsupported)
				}
				return
			}
			panic(x)
		}
	}()
	return m.call(fn, args, 0), nil
}

func (m *Machine) call(fn *ssa.Function, args []Val, depth int) Val {
	if depth > 4 || len(fn.Blocks) == 0 {
		fail("call depth / external function %s", fn.Name())
	}
	env := map[ssa.Value]Val{}
	for i, p := range fn.Params {
		if i < len(args) {
			env[p] = args[i]
		}
	}
	get := func(v ssa.Value) Val {
		if c, ok := v.(*ssa.Const); ok {
			return constVal(c)
		}
		if x, ok := env[v]; ok {
			return x
		}
		if _, ok := v.(*ssa.Global); ok {
			return Val{Opaque: true} // a package-level variable (error sentinel): opaque and not nil
		}
		fail("%s: value %s not computed", fn.Name(), v.Name())
		return Val{}
	}
	var prev *ssa.BasicBlock
	b := fn.Blocks[0]
	for {
		var next *ssa.BasicBlock
		// phis first (parallel)
		phiVals := map[*ssa.Phi]Val{}
		for _, in := range b.Instrs {
			p, ok := in.(*ssa.Phi)
			if !ok {
				break
			}
			for i, pr := range b.Preds {
				if pr == prev {
					phiVals[p] = get(p.Edges[i])
				}
			}
		}
		for p, v := range phiVals {
			env[p] = v
		}
		for _, in := range b.Instrs {
			m.Steps++
			if m.Steps > 20000 {
				fail("%s: step budget exceeded (loop not bounded by the case's knowledge)", fn.Name())
			}
			switch x := in.(type) {
			case *ssa.Phi:
			case *ssa.BinOp:
				env[x] = binop(x, get(x.X), get(x.Y))
			case *ssa.UnOp:
				switch x.Op {
				case token.MUL:
					p := get(x.X)
					if p.Opaque {
						env[x] = Val{Opaque: true}
						break
					}
					if p.IsPtr && p.Ref != nil {
						if v, ok := p.Ref.Cells[p.Path]; ok {
							env[x] = v
						} else {
							env[x] = zeroOf(x.Type())
						}
						break
					}
					if !p.IsPtr || p.Cell == nil || p.CellIdx < 0 || p.CellIdx >= len(p.Cell.Elems) {
						fail("%s: load through an untracked pointer at %s", fn.Name(), x.Name())
					}
					env[x] = p.Cell.Elems[p.CellIdx]
				case token.NOT:
					v := get(x.X)
					if c, ok := v.IsConst(); ok {
						env[x] = Const(1-c, 1)
						break
					}
					r := Val{W: 1, Lo: 0, Hi: 1}
					r.Bits[0] = notBit(v.Bits[0])
					env[x] = r
				default:
					fail("%s: unary %s", fn.Name(), x.Op)
				}
			case *ssa.Convert:
				env[x] = convert(get(x.X), x.Type())
			case *ssa.ChangeType:
				env[x] = get(x.X)
			case *ssa.MakeInterface:
				env[x] = Val{Opaque: true}
			case *ssa.Alloc:
				t := x.Type().Underlying().(*types.Pointer).Elem().Underlying()
				arr, ok := t.(*types.Array)
				if !ok {
					env[x] = Val{IsPtr: true, Ref: NewObj()} // a scalar or struct: cells are created on first store
					break
				}
				a := &Array{Elems: make([]Val, arr.Len())}
				for i := range a.Elems {
					a.Elems[i] = Const(0, 8)
				}
				env[x] = Val{IsPtr: true, Cell: a, CellIdx: -1}
			case *ssa.MakeSlice:
				n, ok := get(x.Len).IsConst()
				if !ok || n > 4096 {
					fail("%s: make with a length the case does not fix", fn.Name())
				}
				a := &Array{Elems: make([]Val, n)}
				for i := range a.Elems {
					a.Elems[i] = Const(0, 8)
				}
				env[x] = Val{IsSlice: true, Arr: a, Len: int(n)}
			case *ssa.Slice:
				base := get(x.X)
				var arr *Array
				off, ln := 0, 0
				switch {
				case base.IsSlice:
					arr, off, ln = base.Arr, base.Off, base.Len
				case base.IsPtr && base.Cell != nil && base.CellIdx == -1:
					arr, off, ln = base.Cell, 0, len(base.Cell.Elems)
				default:
					fail("%s: slice of an untracked value", fn.Name())
				}
				lo, hi := 0, ln
				if x.Low != nil {
					n, ok := get(x.Low).IsConst()
					if !ok {
						fail("%s: slice bound not fixed by the case", fn.Name())
					}
					lo = int(n)
				}
				if x.High != nil {
					n, ok := get(x.High).IsConst()
					if !ok {
						fail("%s: slice bound not fixed by the case", fn.Name())
					}
					hi = int(n)
				}
				if lo < 0 || hi < lo || off+hi > len(arr.Elems) {
					fail("%s: slice bounds out of range in this case", fn.Name())
				}
				env[x] = Val{IsSlice: true, Arr: arr, Off: off + lo, Len: hi - lo}
			case *ssa.FieldAddr:
				base := get(x.X)
				if !base.IsPtr || base.Ref == nil {
					fail("%s: field of an untracked object", fn.Name())
				}
				st := x.X.Type().Underlying().(*types.Pointer).Elem().Underlying().(*types.Struct)
				env[x] = Val{IsPtr: true, Ref: base.Ref, Path: base.Path + "." + st.Field(x.Field).Name()}
			case *ssa.IndexAddr:
				base := get(x.X)
				n, ok := get(x.Index).IsConst()
				if !ok {
					fail("%s: index not fixed by the case", fn.Name())
				}
				switch {
				case base.IsSlice:
					if int(n) >= base.Len {
						fail("%s: index %d out of range (len %d) in this case", fn.Name(), n, base.Len)
					}
					env[x] = Val{IsPtr: true, Cell: base.Arr, CellIdx: base.Off + int(n)}
				case base.IsPtr && base.Cell != nil && base.CellIdx == -1:
					if int(n) >= len(base.Cell.Elems) {
						fail("%s: index out of range in this case", fn.Name())
					}
					env[x] = Val{IsPtr: true, Cell: base.Cell, CellIdx: int(n)}
				default:
					fail("%s: index into an untracked value", fn.Name())
				}
			case *ssa.Store:
				p := get(x.Addr)
				if p.IsPtr && p.Ref != nil {
					if _, isStruct := x.Val.Type().Underlying().(*types.Struct); isStruct {
						fail("%s: store of a whole struct", fn.Name())
					}
					p.Ref.Cells[p.Path] = get(x.Val)
					break
				}
				if !p.IsPtr || p.Cell == nil || p.CellIdx < 0 {
					fail("%s: store through an untracked pointer", fn.Name())
				}
				p.Cell.Elems[p.CellIdx] = get(x.Val)
			case *ssa.Call:
				if bi, ok := x.Call.Value.(*ssa.Builtin); ok {
					switch bi.Name() {
					case "len":
						a := get(x.Call.Args[0])
						if !a.IsSlice {
							fail("%s: len of an untracked value", fn.Name())
						}
						env[x] = Const(uint64(a.Len), 64)
					case "append":
						// append(a, b...) of byte slices with lengths fixed by the case: a fresh array holding both
						dst, src := get(x.Call.Args[0]), Val{IsSlice: true, Arr: &Array{}}
						if len(x.Call.Args) > 1 {
							src = get(x.Call.Args[1])
						}
						if dst.Opaque && dst.Nil {
							dst = Val{IsSlice: true, Arr: &Array{}}
						}
						if !dst.IsSlice || !src.IsSlice {
							fail("%s: append to an untracked value", fn.Name())
						}
						na := &Array{}
						na.Elems = append(na.Elems, dst.Arr.Elems[dst.Off:dst.Off+dst.Len]...)
						na.Elems = append(na.Elems, src.Arr.Elems[src.Off:src.Off+src.Len]...)
						env[x] = Val{IsSlice: true, Arr: na, Len: len(na.Elems)}
					default:
						fail("%s: builtin %s", fn.Name(), bi.Name())
					}
					break
				}
				callee := x.Call.StaticCallee()
				if callee == nil || x.Call.IsInvoke() {
					fail("%s: dynamic call", fn.Name())
				}
				if callee.Pkg != nil && callee.Pkg.Pkg.Path() == "math/bits" && strings.HasPrefix(callee.Name(), "Len") && len(x.Call.Args) == 1 {
					// number of significant bits: monotone in the argument, so the interval maps to an interval
					a := get(x.Call.Args[0])
					if a.W == 0 {
						fail("%s: bits.%s of an untracked value", fn.Name(), callee.Name())
					}
					r := Val{W: 64, Lo: uint64(mbits.Len64(a.Lo)), Hi: uint64(mbits.Len64(a.Hi))}
					if r.Lo == r.Hi {
						r = Const(r.Lo, 64)
					} else {
						for i := 0; i < 7; i++ {
							r.Bits[i] = Bit{K: Top}
						}
					}
					env[x] = r.normalize()
					break
				}
				var as []Val
				for _, a := range x.Call.Args {
					as = append(as, get(a))
				}
				env[x] = m.call(callee, as, depth+1)
			case *ssa.Extract:
				t := get(x.Tuple)
				if x.Index >= len(t.Tuple) {
					fail("%s: extract", fn.Name())
				}
				env[x] = t.Tuple[x.Index]
			case *ssa.If:
				c, ok := get(x.Cond).IsConst()
				if !ok {
					fail("%s: the case does not decide the branch `%s`", fn.Name(), condText(x.Cond))
				}
				if c != 0 {
					next = b.Succs[0]
				} else {
					next = b.Succs[1]
				}
			case *ssa.Jump:
				next = b.Succs[0]
			case *ssa.Return:
				if len(x.Results) == 1 {
					return get(x.Results[0])
				}
				var t Val
				for _, r := range x.Results {
					t.Tuple = append(t.Tuple, get(r))
				}
				return t
			case *ssa.DebugRef:
			default:
				fail("%s: instruction %T not supported", fn.Name(), in)
			}
		}
		if next == nil {
			fail("%s: block without successor", fn.Name())
		}
		prev, b = b, next
	}
}

func condText(v ssa.Value) string {
	if b, ok := v.(*ssa.BinOp); ok {
		return b.X.Name() + " " + b.Op.String() + " " + b.Y.Name()
	}
	return v.Name()
}

func width(t types.Type) int {
	b, ok := t.Underlying().(*types.Basic)
	if !ok {
		return 0
	}
	switch b.Kind() {
	case types.Bool, types.UntypedBool:
		return 1
	case types.Int8, types.Uint8:
		return 8
	case types.Int16, types.Uint16:
		return 16
	case types.Int32, types.Uint32:
		return 32
	case types.Int, types.Uint, types.Int64, types.Uint64, types.Uintptr, types.UntypedInt:
		return 64
	}
	return 0
}

func isSigned(t types.Type) bool {
	b, ok := t.Underlying().(*types.Basic)
	return ok && b.Info()&types.IsInteger != 0 && b.Info()&types.IsUnsigned == 0
}

func constVal(c *ssa.Const) Val {
	if c.Value == nil {
		return Val{Opaque: true, Nil: true}
	}
	w := width(c.Type())
	switch c.Value.Kind() {
	case constant.Bool:
		if constant.BoolVal(c.Value) {
			return Const(1, 1)
		}
		return Const(0, 1)
	case constant.Int:
		if u, ok := constant.Uint64Val(c.Value); ok {
			if w == 0 {
				w = 64
			}
			return Const(u&mask(w), w)
		}
		if i, ok := constant.Int64Val(c.Value); ok {
			if w == 0 {
				w = 64
			}
			return Const(uint64(i)&mask(w), w)
		}
	}
	return Val{Opaque: true}
}

func convert(v Val, t types.Type) Val {
	w := width(t)
	if w == 0 || v.Opaque {
		return Val{Opaque: true}
	}
	r := Val{W: w}
	for i := 0; i < w && i < 64; i++ {
		if i < v.W {
			r.Bits[i] = v.Bits[i]
		}
	}
	if w >= v.W {
		r.Lo, r.Hi = v.Lo, v.Hi
	} else if v.Hi <= mask(w) {
		r.Lo, r.Hi = v.Lo, v.Hi
	} else {
		r.Lo, r.Hi = 0, mask(w)
	}
	return r.normalize()
}

func notBit(a Bit) Bit {
	switch a.K {
	case Zero:
		return Bit{K: One}
	case One:
		return Bit{}
	case In:
		a.Neg = !a.Neg
		return a
	}
	return Bit{K: Top}
}

func andBit(a, b Bit) Bit {
	switch {
	case a.K == Zero || b.K == Zero:
		return Bit{}
	case a.K == One:
		return b
	case b.K == One:
		return a
	case a == b:
		return a
	case a.K == In && b.K == In && a.Src == b.Src && a.Idx == b.Idx && a.Neg != b.Neg:
		return Bit{}
	}
	return Bit{K: Top}
}

func orBit(a, b Bit) Bit {
	switch {
	case a.K == One || b.K == One:
		return Bit{K: One}
	case a.K == Zero:
		return b
	case b.K == Zero:
		return a
	case a == b:
		return a
	}
	return Bit{K: Top}
}

func binop(x *ssa.BinOp, a, b Val) Val {
	if a.Opaque || b.Opaque {
		// comparisons of errors with nil
		if (x.Op == token.EQL || x.Op == token.NEQ) && a.Opaque && b.Opaque && (a.Nil || b.Nil) {
			other := a
			if a.Nil {
				other = b
			}
			eq := other.Nil
			if x.Op == token.NEQ {
				eq = !eq
			}
			if eq {
				return Const(1, 1)
			}
			return Const(0, 1)
		}
		fail("operation %s on an untracked value", x.Op)
	}
	w := width(x.Type())
	cmp := func(t bool) Val {
		if t {
			return Const(1, 1)
		}
		return Const(0, 1)
	}
	switch x.Op {
	case token.AND:
		r := Val{W: w, Lo: 0, Hi: mask(w)}
		for i := 0; i < w; i++ {
			r.Bits[i] = andBit(a.Bits[i], b.Bits[i])
		}
		if a.Hi < r.Hi {
			r.Hi = a.Hi
		}
		if b.Hi < r.Hi {
			r.Hi = b.Hi
		}
		return r.normalize()
	case token.OR:
		r := Val{W: w, Lo: 0, Hi: mask(w)}
		for i := 0; i < w; i++ {
			r.Bits[i] = orBit(a.Bits[i], b.Bits[i])
		}
		if a.Lo > r.Lo {
			r.Lo = a.Lo
		}
		if b.Lo > r.Lo {
			r.Lo = b.Lo
		}
		return r.normalize()
	case token.SHL, token.SHR:
		n, ok := b.IsConst()
		if !ok {
			fail("shift by a count the case does not fix")
		}
		if isSigned(x.X.Type()) && a.Bits[a.W-1].K != Zero {
			fail("shift of a possibly negative value")
		}
		r := Val{W: w, Lo: 0, Hi: mask(w)}
		for i := 0; i < w; i++ {
			var src int
			if x.Op == token.SHL {
				src = i - int(n)
			} else {
				src = i + int(n)
			}
			if src >= 0 && src < a.W && src < 64 {
				r.Bits[i] = a.Bits[src]
			}
		}
		if x.Op == token.SHR {
			if n >= 64 {
				r.Lo, r.Hi = 0, 0
			} else {
				r.Lo, r.Hi = a.Lo>>n, a.Hi>>n
			}
		} else if n < 64 && a.Hi <= mask(w)>>n {
			r.Lo, r.Hi = a.Lo<<n, a.Hi<<n
		}
		return r.normalize()
	case token.ADD, token.SUB, token.MUL, token.QUO, token.REM:
		ca, okA := a.IsConst()
		cb, okB := b.IsConst()
		if okA && okB {
			switch x.Op {
			case token.ADD:
				return Const((ca+cb)&mask(w), w)
			case token.SUB:
				return Const((ca-cb)&mask(w), w)
			case token.MUL:
				return Const((ca*cb)&mask(w), w)
			case token.QUO, token.REM:
				if cb == 0 || isSigned(x.X.Type()) && (ca>>63 != 0 || cb>>63 != 0) {
					fail("division the case does not fix")
				}
				if x.Op == token.QUO {
					return Const((ca/cb)&mask(w), w)
				}
				return Const((ca%cb)&mask(w), w)
			}
		}
		if x.Op == token.ADD {
			// a sum of values with disjoint supports (no position where both may be 1) is their bitwise or
			disjoint := true
			for i := 0; i < w; i++ {
				if a.Bits[i].K != Zero && b.Bits[i].K != Zero {
					disjoint = false
				}
			}
			if disjoint {
				r := Val{W: w, Lo: 0, Hi: mask(w)}
				for i := 0; i < w; i++ {
					r.Bits[i] = orBit(a.Bits[i], b.Bits[i])
				}
				return r.normalize()
			}
		}
		// interval arithmetic on non-negative values that cannot wrap: the bits of the result are unknown, its
		// range is exact for + and for the division by a positive constant (both monotone)
		top := func(lo, hi uint64) Val {
			if lo == hi {
				return Const(lo, w)
			}
			r := Val{W: w, Lo: lo, Hi: hi}
			for i := 0; i < w && i < 64; i++ {
				r.Bits[i] = Bit{K: Top}
			}
			return r.normalize()
		}
		lim := mask(w) >> 1 // stays below the sign bit: valid for signed and unsigned operands alike
		switch {
		case x.Op == token.ADD && a.Hi <= lim && b.Hi <= lim && a.Hi+b.Hi <= lim:
			return top(a.Lo+b.Lo, a.Hi+b.Hi)
		case x.Op == token.SUB && okB && a.Hi <= lim && a.Lo >= cb:
			return top(a.Lo-cb, a.Hi-cb)
		case x.Op == token.QUO && okB && cb > 0 && cb <= lim && a.Hi <= lim:
			return top(a.Lo/cb, a.Hi/cb)
		}
		fail("arithmetic on values the case does not fix")
	case token.EQL, token.NEQ:
		res, known := false, false
		ca, okA := a.IsConst()
		cb, okB := b.IsConst()
		switch {
		case okA && okB:
			res, known = ca == cb, true
		case a.Hi < b.Lo || b.Hi < a.Lo:
			res, known = false, true
		default:
			// a bit known on both sides and different
			for i := 0; i < 64; i++ {
				if (a.Bits[i].K == One && b.Bits[i].K == Zero) || (a.Bits[i].K == Zero && b.Bits[i].K == One) {
					res, known = false, true
				}
			}
		}
		if !known {
			// all positions agree as constants except one, where one side is an input bit and the other a
			// constant: the comparison *is* that bit (or its complement) — a symbolic boolean, not a branch
			diff, nd := -1, 0
			for i := 0; i < 64; i++ {
				ai, bi := a.Bits[i], b.Bits[i]
				if ai.K <= One && bi.K <= One && ai.K == bi.K {
					continue
				}
				if ai == bi && ai.K == In {
					continue
				}
				nd++
				diff = i
			}
			if nd == 1 {
				ai, bi := a.Bits[diff], b.Bits[diff]
				var sym, cst Bit
				switch {
				case ai.K == In && bi.K <= One:
					sym, cst = ai, bi
				case bi.K == In && ai.K <= One:
					sym, cst = bi, ai
				default:
					fail("comparison %s %s %s not decided by the case", x.X.Name(), x.Op, x.Y.Name())
				}
				eq := sym // equal iff sym == cst
				if cst.K == Zero {
					eq = notBit(sym)
				}
				if x.Op == token.NEQ {
					eq = notBit(eq)
				}
				r := Val{W: 1, Lo: 0, Hi: 1}
				r.Bits[0] = eq
				return r
			}
			fail("comparison %s %s %s not decided by the case", x.X.Name(), x.Op, x.Y.Name())
		}
		if x.Op == token.NEQ {
			res = !res
		}
		return cmp(res)
	case token.LSS, token.LEQ, token.GTR, token.GEQ:
		if isSigned(x.X.Type()) && (a.Bits[a.W-1].K != Zero || b.Bits[b.W-1].K != Zero) {
			fail("signed comparison of possibly negative values")
		}
		var t, f bool
		switch x.Op {
		case token.LSS:
			t, f = a.Hi < b.Lo, a.Lo >= b.Hi
		case token.LEQ:
			t, f = a.Hi <= b.Lo, a.Lo > b.Hi
		case token.GTR:
			t, f = a.Lo > b.Hi, a.Hi <= b.Lo
		case token.GEQ:
			t, f = a.Lo >= b.Hi, a.Hi < b.Lo
		}
		if !t && !f {
			fail("comparison %s %s %s not decided by the case", x.X.Name(), x.Op, x.Y.Name())
		}
		return cmp(t)
	}
	fail("operator %s not supported", x.Op)
	return Val{}
}

// Describe renders the low n bits of v, most significant first.
func (v Val) Describe(n int) string {
	var parts []string
	for i := n - 1; i >= 0; i-- {
		parts = append(parts, v.Bits[i].String())
	}
	return strings.Join(parts, " ")
}

// Octet builds a byte whose low seven bits are the input bits src.0..6 and whose top bit is the given constant
// (an octet of a variable-length encoding with its continuation flag).
func Octet(src string, top bool) Val {
	v := Val{W: 8, Lo: 0, Hi: 255}
	for i := 0; i < 7; i++ {
		v.Bits[i] = Bit{K: In, Src: src, Idx: i}
	}
	if top {
		v.Bits[7] = Bit{K: One}
	}
	return v.normalize()
}

// zeroOf is the zero value of a type as an abstract value.
func zeroOf(t types.Type) Val {
	if w := width(t); w > 0 {
		return Const(0, w)
	}
	return Val{Opaque: true, Nil: true}
}

// Normalize recomputes the interval of a value built bit by bit.
func Normalize(v Val) Val { return v.normalize() }
