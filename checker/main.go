// rtpcheck decides the pion/rtp properties C01..C20 by static analysis of /repo's working tree.
package main

import (
	"flag"
	"fmt"
	"os"
	"path/filepath"
	"runtime/debug"
	"runtime/pprof"
	"strconv"
	"strings"
	"time"

	"rtpcheck/core"
	"rtpcheck/props"
	"rtpcheck/spec"
)

func main() {
	prop := flag.String("prop", "", "property id (C01..C20) or 'all'")
	tier := flag.String("tier", "", "quick|thorough (default: $VERIF_TIER or quick)")
	repo := flag.String("repo", "/repo", "repository to analyse")
	verif := flag.String("verif", "", "verif dir (default: parent of the binary's dir or /verif)")
	explain := flag.Bool("explain", false, "print every obligation")
	dumpCallees := flag.Bool("dumpcallees", false, "print the table spec.PinnedCallees for -repo and exit")
	flag.Parse()
	debug.SetGCPercent(1000) // the loaded program is a large, long-lived heap; avoid rescanning it
	if pf := os.Getenv("RTPCHECK_PROF"); pf != "" {
		f, _ := os.Create(pf)
		_ = pprof.StartCPUProfile(f)
		defer pprof.StopCPUProfile()
	}
	if *tier == "" {
		*tier = os.Getenv("VERIF_TIER")
	}
	if *tier != "thorough" {
		*tier = "quick"
	}
	if *verif == "" {
		*verif = "/verif"
		if exe, err := os.Executable(); err == nil {
			d := filepath.Dir(filepath.Dir(exe))
			if _, err := os.Stat(filepath.Join(d, "properties.jsonl")); err == nil {
				*verif = d
			}
		}
	}
	var seed int64
	if s := os.Getenv("VERIF_SEED"); s != "" {
		seed, _ = strconv.ParseInt(s, 10, 64)
	}
	ids := []string{*prop}
	if *prop == "all" {
		ids = props.IDs()
	}
	if *dumpCallees {
		absRepo, _ := filepath.Abs(*repo)
		prog, err := core.Load(absRepo)
		if err != nil {
			fmt.Fprintln(os.Stderr, err)
			os.Exit(2)
		}
		props.DumpCallees(prog)
		return
	}
	if *prop == "" {
		fmt.Fprintln(os.Stderr, "usage: rtpcheck -prop Cxx [-tier quick|thorough]")
		os.Exit(2)
	}
	absRepo, _ := filepath.Abs(*repo)
	t0 := time.Now()
	prog, err := core.Load(absRepo)
	loadDur := time.Since(t0)
	known, kerr := core.LoadKnown(filepath.Join(*verif, "known_findings.json"))
	exit := 0
	for _, id := range ids {
		run, ok := props.Registry[id]
		rep := core.NewReport(id, *tier, seed, known, spec.Assumed)
		rep.Start = rep.Start.Add(-loadDur) // wall time includes loading and type-checking /repo
		rep.CheckerCmd = fmt.Sprintf("%s -prop %s -tier %s -repo %s", filepath.Join(*verif, "bin/rtpcheck"), id, *tier, absRepo)
		rep.Trusted = append(rep.Trusted, spec.TrustedBase...)
		rep.Assumes = append(rep.Assumes, spec.CommonAssumptions...)
		switch {
		case !ok:
			rep.Fatalf("unknown property %s", id)
		case err != nil:
			rep.Fatalf("cannot load %s: %v", absRepo, err)
		case kerr != nil:
			rep.Fatalf("cannot read known_findings.json: %v", kerr)
		default:
			func() {
				defer func() {
					if x := recover(); x != nil {
						rep.Fatalf("analysis panic: %v", x)
						if os.Getenv("RTPCHECK_DEBUG") != "" {
							panic(x)
						}
					}
				}()
				if len(prog.Pkgs) < 7 {
					rep.Fatalf("expected >= 7 packages, loaded %d", len(prog.Pkgs))
				}
				run(&props.Ctx{Prog: prog, R: rep, Tier: *tier, Verif: *verif})
			}()
		}
		code := rep.Finish(*verif)
		if *explain {
			for _, o := range rep.Obls {
				fmt.Printf("  [%s] %s @%s %s %s\n", o.Status, o.Key(), o.Pos, o.Detail, o.Reason)
			}
			for _, s := range rep.Info {
				fmt.Println("  info:", strings.TrimSpace(s))
			}
		}
		if code > exit {
			exit = code
		}
	}
	pprof.StopCPUProfile()
	os.Exit(exit)
}
