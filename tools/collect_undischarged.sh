#!/bin/sh
# lists the BOUNDS obligations that are neither discharged nor assumed nor known, for triage
for p in C01 C02 C03 C04 C05 C08 C09 C10 C11 C12 C13 C14 C16 C17 C19; do
  rm -f /verif/evidence/$p.violation.json
  timeout 900 /verif/bin/rtpcheck -prop $p >/dev/null 2>&1
  python3 - $p <<'PY'
import json,sys
p=sys.argv[1]
try: v=json.load(open(f'/verif/evidence/{p}.violation.json'))
except Exception: sys.exit()
for o in v['violations']:
    if o['rule'].startswith('BOUNDS.'):
        print(p+'\t'+o['rule']+'|'+o['func']+'|'+o['construct']+'\t'+o['pos'])
PY
done
