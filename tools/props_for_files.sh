#!/bin/bash
# prints the checks whose analysed functions live in the given files (used by the self-test tools to avoid
# running all twenty checks on a change that touches one file)
out=""
for f in "$@"; do
  case "$f" in
    abscapturetimeextension.go|abssendtimeextension.go) out="$out C17 C18 C06";;
    audiolevelextension.go|playoutdelayextension.go|transportccextension.go) out="$out C17";;
    vlaextension.go) out="$out C19";;
    header_extension.go) out="$out C01 C03 C05";;
    packet.go|header.go|rtp.go|error.go) out="$out C01 C02 C03 C04 C05 C06 C20";;
    packetizer.go) out="$out C06 C07";;
    sequencer.go) out="$out C06 C07";;
    depacketizer.go|partitionheadchecker.go|payload_types.go) out="$out C06 C09";;
    codecs/av1/obu/*) out="$out C08 C09 C13 C19";;
    codecs/av1*) out="$out C08 C09 C13 C15";;
    codecs/h264*) out="$out C08 C09 C10 C15";;
    codecs/h265*) out="$out C08 C09 C14";;
    codecs/vp8*) out="$out C08 C09 C11";;
    codecs/vp9*) out="$out C08 C09 C12";;
    codecs/g7*|codecs/opus*) out="$out C08 C09 C16";;
    codecs/common.go|codecs/codecs.go|codecs/error.go) out="$out C08 C09 C10 C11 C12 C13 C14 C16";;
    *) out="$out C01 C02 C03 C04 C05 C06 C07 C08 C09 C10 C11 C12 C13 C14 C15 C16 C17 C18 C19 C20";;
  esac
done
echo $out | tr ' ' '\n' | sort -u | tr '\n' ' '
