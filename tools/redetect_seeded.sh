#!/bin/bash
# re-runs the checks that analyse the touched files (all 20 with FULL=1) on every stored seeded change (scratch copy of /repo, patch applied) with the current
# binary and rewrites detected_by_checks / violated_rules in its meta.json.  usage: redetect_seeded.sh [name...]
export GOFLAGS=-mod=mod GOPROXY=off GOSUMDB=off GOTOOLCHAIN=local; unset GOWORK
bin=${RTPCHECK_BIN:-/verif/bin/rtpcheck}
names="$@"; [ -z "$names" ] && names=$(ls /verif/seeded)
d=$(mktemp -d /tmp/redet.XXXXXX); sv=$(mktemp -d /tmp/redetv.XXXXXX)
trap 'rm -rf "$d" "$sv"' EXIT
cp /verif/known_findings.json /verif/properties.jsonl "$sv/"
for name in $names; do
  s=/verif/seeded/$name; [ -f "$s/patch.diff" ] || continue
  rsync -a --delete --exclude .git /repo/ "$d/"
  (cd "$d" && patch -p1 -s < "$s/patch.diff") || { echo "$name: patch failed"; continue; }
  (cd "$d" && go build ./... >/dev/null 2>&1) || { echo "$name: does not build"; continue; }
  all="C01 C02 C03 C04 C05 C06 C07 C08 C09 C10 C11 C12 C13 C14 C15 C16 C17 C18 C19 C20"
  if [ -z "$FULL" ]; then
    files=$(grep -E '^\+\+\+ b/' "$s/patch.diff" | sed 's#^+++ b/##')
    all="$(/verif/tools/props_for_files.sh $files) ${name%%-*}"
    all=$(echo $all | tr ' ' '\n' | sort -u | tr '\n' ' ')
  fi
  for p in $all; do
    ( $bin -prop $p -repo "$d" -verif "$sv" > "$sv/$p.out" 2>&1; echo $? > "$sv/$p.rc" ) &
  done; wait
  det=""; rules=""
  for p in $all; do
    rc=$(cat "$sv/$p.rc")
    if [ "$rc" = 1 ]; then det="$det $p"; rules="$rules$(grep -E '^  violation:' "$sv/$p.out" | sed -E 's/^  violation: ([^|]+\|[^|]+)\|.*/\1/' | sort -u | head -3 | sed "s/^/$p:/" | paste -sd';');"; fi
    [ "$rc" = 2 ] && det="$det $p(checker-failure)"
  done
  python3 - "$s/meta.json" "$det" "$rules" "$all" <<'PY'
import json,sys
f,det,rules=sys.argv[1:4]
m=json.load(open(f)); m["checks_run"]=sys.argv[4].split(); m["detected_by_checks"]=det.split(); m["violated_rules"]=[r for r in rules.split(';') if r]
json.dump(m,open(f,'w'),indent=1)
PY
  echo "$name: detected_by=${det:- NONE}"
done
