#!/bin/bash
# Regenerates checker/spec/assumed_bounds_parts.go after an engine change: runs every check that uses BOUNDS in both
# tiers on /repo with the *current* table, collects the undischarged keys that are not covered, and rewrites the table
# as (still used keys) + (new keys whose construct had a hand-written reason before). Keys without a reason are
# printed and must be triaged by hand. Never run by the registered checks.
set -e
props="C01 C02 C03 C04 C05 C06 C08 C09 C10 C11 C12 C13 C14 C16 C17 C18 C19"
rm -rf /tmp/regen; mkdir -p /tmp/regen
for tier in quick thorough; do
  for p in $props; do
    ( mkdir -p /tmp/regen/$tier-$p; cp /verif/known_findings.json /verif/properties.jsonl /tmp/regen/$tier-$p/
      /verif/bin/rtpcheck -prop $p -tier $tier -repo /repo -verif /tmp/regen/$tier-$p > /tmp/regen/$tier-$p.out 2>&1 || true ) &
  done
  wait
done
python3 /verif/tools/regen_assumed.py
