#!/bin/bash
# usage: [MUTSRC=/tmp/mut2 MUTTAG=r2] validate_seeded.sh <Cxx> <mK>   — validates /tmp/mut/Cxx/mK against /repo HEAD and, if it holds,
# stores it as /verif/seeded/Cxx-mK/{patch.diff,demo_test.go,meta.json} with the list of checks that detect it.
id=$1; k=$2; root=${MUTSRC:-/tmp/mut}; tag=${MUTTAG:-}; src=$root/$id/$k; name=$id-$tag$k
export GOFLAGS=-mod=mod GOPROXY=off GOSUMDB=off GOTOOLCHAIN=local; unset GOWORK
wt=$(mktemp -d /tmp/val.XXXXXX)
git -C /repo worktree add -q --detach "$wt" HEAD || exit 9
cleanup() { git -C /repo worktree remove --force "$wt" >/dev/null 2>&1; rm -rf "$wt"; }
trap cleanup EXIT
cd "$wt"
git apply "$src/patch.diff" || { echo "$id-$k: patch does not apply"; exit 1; }
go build ./... 2>&1 | grep -v WARNING | head -3
suite=$(go test -vet=off -count=1 ./... 2>&1 | grep -v WARNING | grep -cE '^(FAIL|---)')
pkg=$(grep -m1 '^package ' "$src/demo_test.go" | awk '{print $2}')
case "$pkg" in
  rtp|rtp_test) dir=. ;;
  codecs|codecs_test) dir=codecs ;;
  frame|frame_test) dir=codecs/av1/frame ;;
  obu|obu_test) dir=codecs/av1/obu ;;
  vp9|vp9_test) dir=codecs/vp9 ;;
  *) dir=. ;;
esac
tests=$(grep -oE '^func (Test[A-Za-z0-9_]+)' "$src/demo_test.go" | awk '{print $2}' | paste -sd'|')
cp "$src/demo_test.go" "$dir/zz_demo_test.go"
with=$(go test -vet=off -count=1 -run "^($tests)\$" ./$dir 2>&1 | grep -v WARNING | grep -cE '^(FAIL|--- FAIL|panic)')
rm -f "$dir/zz_demo_test.go"
git checkout -q -- . 
cp "$src/demo_test.go" "$dir/zz_demo_test.go"
without=$(go test -vet=off -count=1 -run "^($tests)\$" ./$dir 2>&1 | grep -v WARNING | grep -cE '^(FAIL|--- FAIL|panic)')
rm -f "$dir/zz_demo_test.go"
ok=no
if [ "$suite" = 0 ] && [ "$with" -gt 0 ] && [ "$without" = 0 ]; then ok=yes; fi
echo "$id-$k: suite_failures=$suite demo_fails_with=$with demo_fails_without=$without valid=$ok"
[ $ok = yes ] || exit 1
# which checks detect it
git apply "$src/patch.diff"
sv=$(mktemp -d /tmp/valverif.XXXXXX); cp /verif/known_findings.json /verif/properties.jsonl "$sv/"
det=""
for p in C01 C02 C03 C04 C05 C06 C07 C08 C09 C10 C11 C12 C13 C14 C15 C16 C17 C18 C19 C20; do
  ( ${RTPCHECK_BIN:-/verif/bin/rtpcheck} -prop $p -repo "$wt" -verif "$sv" > "$sv/$p.out" 2>&1; echo $? > "$sv/$p.rc" ) &
done
wait
rules=""
for p in C01 C02 C03 C04 C05 C06 C07 C08 C09 C10 C11 C12 C13 C14 C15 C16 C17 C18 C19 C20; do
  rc=$(cat "$sv/$p.rc")
  if [ "$rc" = 1 ]; then det="$det $p"; rules="$rules$(grep -E '^  violation:' "$sv/$p.out" | sed -E 's/^  violation: ([^|]+\|[^|]+)\|.*/\1/' | sort -u | head -3 | sed "s/^/$p:/" | paste -sd';');"; fi
  if [ "$rc" = 2 ]; then det="$det $p(checker-failure)"; fi
done
rm -rf "$sv"
out=/verif/seeded/$name; mkdir -p "$out"
cp "$src/patch.diff" "$out/patch.diff"; cp "$src/demo_test.go" "$out/demo_test.go"; cp "$src/README.md" "$out/README.md" 2>/dev/null
python3 - "$id" "$k" "$dir" "$tests" "$det" "$rules" "$src" "$name" <<'PY'
import json,sys,re
id,k,d,tests,det,rules,src,name=sys.argv[1:9]
readme=open(f'{src}/README.md').read()
meta={"breaks_property":id,"mutation":k,"demo_package_dir":d,"demo_tests":tests.split('|'),
 "needs_to_manifest":re.sub(r'\s+',' ',readme)[:900],
 "confirmed":{"applies_and_builds":True,"existing_suite_passes_with_change":True,"demo_fails_with_change":True,"demo_passes_without_change":True,
   "how":"tools/validate_seeded.sh: scratch git worktree of /repo HEAD; git apply; go build ./...; go test -vet=off -count=1 ./...; demo copied into the package dir and run with -run; change reverted and demo re-run"},
 "detected_by_checks":det.split(),"violated_rules":[r for r in rules.split(';') if r]}
json.dump(meta,open(f'/verif/seeded/{name}/meta.json','w'),indent=1)
print(f"{name}: detected_by={det.strip() or 'NONE'}")
PY
