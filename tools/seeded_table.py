#!/usr/bin/env python3
# prints the markdown table of DESIGN.md section 11.4 from /verif/seeded/*/meta.json
import json,glob,os,re
rows=[]
for d in sorted(glob.glob('/verif/seeded/*')):
    try: m=json.load(open(d+'/meta.json'))
    except Exception: continue
    name=os.path.basename(d)
    patch=open(d+'/patch.diff').read()
    files=sorted(set(re.findall(r'^\+\+\+ b/(\S+)',patch,re.M)))
    det=m.get('detected_by_checks',[])
    rules=sorted({r.split('|')[0].split(':',1)[1] for r in m.get('violated_rules',[]) if ':' in r})
    own=m['breaks_property']
    status='own check' if own in det else ('other check' if det else 'MISSED')
    rows.append((name,', '.join(files),' '.join(det) or '-',', '.join(rules[:4]) or '-',status))
print('| seeded change | file(s) | checks that report it | rules | |')
print('|---|---|---|---|---|')
for r in rows: print('| '+' | '.join(r)+' |')
n=len(rows); own=sum(1 for r in rows if r[4]=='own check'); oth=sum(1 for r in rows if r[4]=='other check')
print(f'\n{n} validated changes: {own} reported by the check of the property they were written against, {oth} only by another property\'s check, {n-own-oth} not reported.')
