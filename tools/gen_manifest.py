#!/usr/bin/env python3
"""Regenerates /verif/MANIFEST.json from the table below (run after adding a property check)."""
import json, subprocess

PROPS = [json.loads(l) for l in open('/verif/properties.jsonl')]

# id -> (technique, level text, level note)
CLAIMED = {
 "C02": ("static analysis: linear-inequality abstract interpretation (panic obligations) + must-write dataflow",
         "every index/slice/precondition obligation reachable from Header.Unmarshal, Packet.Unmarshal, GetExtension, GetExtensionIDs is proved from the dominating guards for all inputs (no assumed obligation in this scope); every decoded field is shown to be (re)defined on every success path, so decoding into a used receiver equals decoding into a fresh one ; the capacity of a reused receiver buffer flows only into comparisons and make (STRUCT.capflow), so nothing decoded depends on earlier calls",
         "assumes no int overflow for lengths <= 2^40, non-nil receivers, the stdlib model; does not compare decoded values with the input bytes"),
 "C04": ("static analysis: linear-inequality abstract interpretation over MarshalTo/Marshal",
         "no-panic obligations of Header/Packet MarshalTo, Marshal, MarshalSize for every header state and destination length; the obligations that need the MarshalSize/MarshalTo sum invariant are listed as assumed with their reason ; a write inside a loop goes to a position that advances with the loop (STRUCT.loopdest); the size guard dominates the writes made by helpers that are handed the buffer",
         "assumed entries (cursor < size) rest on the size agreement between MarshalSize and MarshalTo; byte equality with Marshal() is not decided"),
 "C05": ("static analysis: linear-inequality abstract interpretation over the extension accessors",
         "no-panic obligations of SetExtension/DelExtension/GetExtension/GetExtensionIDs and a following Marshal for every header state reachable through the public fields",
         "ordered-map semantics over call sequences (last value, insertion order) are history properties and are not decided"),
 "C07": ("static analysis: lock-region dataflow + SSA value patterns",
         "decides, for all paths, the premises from which linearizability and the exact rollover count follow: every access to the counter state lies in a critical section of the receiver's mutex, the transition is exactly +1 with natural uint16 wrap, the rollover counter moves exactly when the new value is 0, and the start-value conventions hold; histories are not enumerated",
         "trusts sync.Mutex semantics and go/ssa"),
 "C08": ("static analysis: origin (alias) analysis + linear-inequality abstract interpretation (modular for the AV1 helpers)",
         "for Payload of every rtp.Payloader implementation: no write whose destination may be the caller's buffer, every returned fragment freshly allocated, no retained state pointing into the input, and all panic obligations of the payloaders and their closures/helpers proved or listed as assumed; every emitted fragment is at most MTU octets long as a linear contract at every append to the fragment list and at every store into one of its elements: proved for G711, G722, VP8, VP9, H264, H265 single/FU and now for AV1 (appendOBUPayload and computeWriteSize are analysed as entries of their own under preconditions that are obligations at their call sites; computeWriteSize's postcondition r + len(LEB128(r)) <= canWrite is proved at its returns; the LEB128 length table used is re-derived from WriteToLeb128's code in the same run, LEB.len)",
         "H265 aggregation packets are assumed with the sum argument (listed); two AV1 obligations (an already stored packet is non-empty) are assumed; 'non-empty whenever the input is non-empty' is not decided"),
 "C09": ("static analysis: linear-inequality abstract interpretation + must-write dataflow + origin analysis",
         "no-panic obligations for Unmarshal/IsPartitionHead/IsPartitionTail of every rtp.Depacketizer and the deprecated AV1 path for any byte string and receiver state; per-packet decoders (VP8, VP9, H265, Opus) define every decoded field on every success path; carried buffers of the stateful depacketizers never alias an input",
         "the assumed obligations int(LEB128 value) >= 0 are backed by rule LEB.range (a k-octet encoding, k <= 12, is read back as a value below 2^63; derived from ReadLeb128's code in every run); result equality on reuse is decided through its cause"),
 "C17": ("static analysis: linear-inequality abstract interpretation + must-write dataflow",
         "Marshal/Unmarshal of the five fixed-size extension codecs never panic for any input length (all obligations proved) and every decoded field is defined on every success path (receiver-independent result)",
         "bit-exact layout conformance is decided by the BITS rules (per_rule); the shortest accepted input of every codec equals its wire size (BOUNDS.minlen), so a length guard made stricter is reported as well as one made weaker; Marshal fails only for values outside the codec's range table (CTR.total) and returns exactly the wire size, 8 or 16 octets for abs-capture-time by the presence of the offset (CTR.size)"),
 "C19": ("static analysis: linear-inequality abstract interpretation + must-write dataflow + CFG reachability rule for the shared-bitmask scan",
         "VLA.Unmarshal never panics on any input (one assumed obligation about a copied slice header) and resets every decoded field; VLA.Marshal's validation dominates its table indexing; payload writes rely on the requiredLen sum invariant (assumed, listed) ; every walk over streams and spatial ids is canonical (0..bound-1, step 1, no early end: STRUCT.vlawalk); the parts of the size pass that depend only on the stream count and the number of layers cover what the layout needs, for every count (SIBLING.vlasize, constant folding of the stored expressions); the bitmask returned as shared by all streams is returned only after a full index has run over all per-stream bitmasks (SCAN.all: CFG reachability with the exhaustion edges cut; necessary condition of the shared/per-stream choice)",
         "shortest accepted input (2 octets) is checked (BOUNDS.minlen); byte-exact conformance of the variable-length body and round-trip equality are not decided"),
 "C20": ("static analysis: flow-sensitive origin (alias) analysis",
         "every reference reachable from the value returned by Packet.Clone / Header.Clone is memory allocated inside Clone or nil, on every path (independence decided through its cause) ; a per-element buffer is made afresh for every element (STRUCT.accfresh)",
         "STRUCT.clone adds the necessary conditions of equality: every field written on every path (or nil in the original), from the same field, every fresh slice filled from the slice whose length it takes; every copy() made by Clone has a destination exactly as long as its source (linear contract); byte equality itself is not decided"),
}
CLAIMED.update({k: tuple(v) for k, v in json.load(open('/verif/tools/claimed_extra.json')).items()})

NA_REASON = "no check registered yet in this session: the structural clauses planned in DESIGN.md section 4 are not built; the behavioural statement quantifies over runtime values that no static rule built so far decides"

fixes = subprocess.run(['git','-C','/repo','log','--format=%h','--grep=^fix:','61e95be..HEAD'],capture_output=True,text=True).stdout.split()

checks=[]
for p in PROPS:
    if p['id'] not in CLAIMED: continue
    tech, text, note = CLAIMED[p['id']]
    checks.append({
      "property_id": p['id'],
      "quick_cmd": f"./check {p['id']} quick",
      "thorough_cmd": f"./check {p['id']} thorough",
      "evidence_file": f"/verif/evidence/{p['id']}.json",
      "replay_cmd_template": "cat {path}",
      "engine": "rtpcheck",
      "level_claimed": {"category": "other", "text": text, "design_ref": f"DESIGN.md section 4, {p['id']}"},
      "level_note": note,
      "technique": tech,
    })
m={"version":1,
 "setup_cmd":"cd /verif/checker && GOFLAGS=-mod=mod GOPROXY=off GOSUMDB=off GOTOOLCHAIN=local go build -o /verif/bin/rtpcheck .",
 "hooks":{"guard":"verif","enable":"none needed: the checker reads /repo's sources; nothing in /repo is instrumented","baseline_off_cmd":"cd /repo && go test -vet=off -count=1 ./...","source_commits":list(reversed(fixes)),"add_only":True},
 "engines":[{"name":"rtpcheck","path":"/verif/checker","serves_properties":sorted(CLAIMED),"kind_free_text":"repository-specific static analyser over go/types + go/ssa (golang.org/x/tools v0.29.0): BOUNDS (linear abstract interpretation), OWN (origin analysis), RESET (must-write), LOCK, BITS, STRUCT rule packs"}],
 "checks":checks,
 "not_applicable":[{"property_id":p['id'],"reason":NA_REASON} for p in PROPS if p['id'] not in CLAIMED],
 "notes":"All checks are static: they load and type-check /repo's working tree on every run and never execute it. hooks.source_commits lists the fix: commits made in /repo (no instrumentation hooks exist)."}
json.dump(m,open('/verif/MANIFEST.json','w'),indent=1)
print("claimed:",sorted(CLAIMED), "na:",[x['property_id'] for x in m['not_applicable']])
