module guardmut

go 1.23
