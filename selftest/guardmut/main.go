// guardmut enumerates "guard" if-statements (body = a single return / break / continue) in the
// non-test files of a pion/rtp tree and writes, for a chosen index, a copy of the file in which the
// guard condition is replaced by `false` (the guard is deleted). Used by selftest/guardsweep.sh to
// measure which deleted guards the checks notice.
//
//	guardmut -repo DIR -list            prints "index<TAB>file:line<TAB>condition"
//	guardmut -repo DIR -apply N         rewrites the file in place (DIR must be a scratch copy)
package main

import (
	"bytes"
	"flag"
	"fmt"
	"go/ast"
	"go/parser"
	"go/printer"
	"go/token"
	"os"
	"path/filepath"
	"sort"
	"strings"
)

var opRepl []string

type site struct {
	file       string
	line       int
	cond       string
	start, end int // byte offsets of the condition
}

func main() {
	repo := flag.String("repo", "/repo", "tree")
	list := flag.Bool("list", false, "list sites")
	ops := flag.Bool("ops", false, "comparison-strictness sites (< <-> <=, > <-> >=) instead of guard deletion")
	apply := flag.Int("apply", -1, "apply mutation N")
	flag.Parse()
	var files []string
	filepath.Walk(*repo, func(p string, info os.FileInfo, err error) error {
		if err != nil {
			return nil
		}
		if info.IsDir() && (info.Name() == ".git" || info.Name() == "examples" || info.Name() == "pkg") {
			return filepath.SkipDir
		}
		if strings.HasSuffix(p, ".go") && !strings.HasSuffix(p, "_test.go") {
			files = append(files, p)
		}
		return nil
	})
	sort.Strings(files)
	var sites []site
	for _, f := range files {
		fset := token.NewFileSet()
		af, err := parser.ParseFile(fset, f, nil, 0)
		if err != nil {
			continue
		}
		ast.Inspect(af, func(n ast.Node) bool {
			is, ok := n.(*ast.IfStmt)
			if !ok || is.Init != nil || is.Else != nil || len(is.Body.List) != 1 {
				return true
			}
			switch s := is.Body.List[0].(type) {
			case *ast.ReturnStmt:
				_ = s
			case *ast.BranchStmt:
				if s.Tok != token.BREAK && s.Tok != token.CONTINUE {
					return true
				}
			default:
				return true
			}
			var buf bytes.Buffer
			printer.Fprint(&buf, fset, is.Cond)
			c := buf.String()
			if c == "err != nil" {
				return true
			}
			rel, _ := filepath.Rel(*repo, f)
			sites = append(sites, site{rel, fset.Position(is.Pos()).Line, c, fset.Position(is.Cond.Pos()).Offset, fset.Position(is.Cond.End()).Offset})
			return true
		})
	}
	if *ops {
		sites = nil
		for _, f := range files {
			fset := token.NewFileSet()
			af, err := parser.ParseFile(fset, f, nil, 0)
			if err != nil {
				continue
			}
			rel, _ := filepath.Rel(*repo, f)
			ast.Inspect(af, func(n ast.Node) bool {
				be, ok := n.(*ast.BinaryExpr)
				if !ok {
					return true
				}
				var repl string
				switch be.Op {
				case token.LSS:
					repl = "<="
				case token.LEQ:
					repl = "<"
				case token.GTR:
					repl = ">="
				case token.GEQ:
					repl = ">"
				default:
					return true
				}
				var buf bytes.Buffer
				printer.Fprint(&buf, fset, be)
				off := fset.Position(be.OpPos).Offset
				sites = append(sites, site{rel, fset.Position(be.OpPos).Line, buf.String() + "  =>  " + repl, off, off + len(be.Op.String())})
				opRepl = append(opRepl, repl)
				return true
			})
		}
	}
	if *list {
		for i, s := range sites {
			fmt.Printf("%d\t%s:%d\t%s\n", i, s.file, s.line, strings.Join(strings.Fields(s.cond), " "))
		}
		return
	}
	if *apply >= 0 && *apply < len(sites) {
		s := sites[*apply]
		p := filepath.Join(*repo, s.file)
		b, _ := os.ReadFile(p)
		out := append([]byte{}, b[:s.start]...)
		if *ops {
			out = append(out, []byte(opRepl[*apply])...)
		} else {
			out = append(out, []byte("false")...)
		}
		out = append(out, b[s.end:]...)
		os.WriteFile(p, out, 0o644)
		fmt.Printf("%s:%d\t%s\n", s.file, s.line, strings.Join(strings.Fields(s.cond), " "))
	}
}
