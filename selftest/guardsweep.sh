#!/bin/bash
# usage: guardsweep.sh [first [last]]  — delete each guard in turn (bin/guardmut) in a scratch copy of /repo and
# record which checks report a violation. Output: one line per guard: index, site, condition, detecting checks.
export GOFLAGS=-mod=mod GOPROXY=off GOSUMDB=off GOTOOLCHAIN=local; unset GOWORK
first=${1:-0}; last=${2:-100000}
d=$(mktemp -d /tmp/gsweep.XXXXXX); sv=$(mktemp -d /tmp/gsweepv.XXXXXX)
trap 'rm -rf "$d" "$sv"' EXIT
rsync -a --exclude .git /repo/ "$d/"
cp /verif/known_findings.json /verif/properties.jsonl "$sv/"
n=$(/verif/bin/guardmut -repo "$d" -list | wc -l)
for i in $(seq $first $((n-1))); do
  [ $i -gt $last ] && break
  site=$(/verif/bin/guardmut -repo "$d" -apply $i)
  file=${site%%:*}
  if ! (cd "$d" && go build ./... >/dev/null 2>&1); then
    echo -e "$i\t$site\tNOCOMPILE"; cp "/repo/$file" "$d/$file"; continue
  fi
  props="C01 C02 C03 C04 C05 C06 C07 C09 C10 C11 C12 C14 C15 C16 C17 C18 C19 C20"
  case "$file" in codecs/*) props="$props C08";; esac
  for p in $props; do ( ${RTPCHECK_BIN:-/verif/bin/rtpcheck} -prop $p -repo "$d" -verif "$sv" > "$sv/$p.out" 2>&1; echo $? > "$sv/$p.rc" ) & done; wait
  det=""
  for p in $props; do rc=$(cat "$sv/$p.rc"); [ "$rc" = 1 ] && det="$det $p:$(grep -m1 -E '^  violation:' "$sv/$p.out" | sed -E 's/^  violation: ([^|]+)\|.*/\1/')"; [ "$rc" = 2 ] && det="$det $p(fail)"; done
  echo -e "$i\t$site\t${det:- NONE}"
  cp "/repo/$file" "$d/$file"
done
