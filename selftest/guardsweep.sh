#!/bin/bash
# usage: [MODE=ops] guardsweep.sh [first [last]]  — delete each guard in turn (MODE=ops: flip the strictness of each comparison,
# and skip mutants the existing test suite already kills) (bin/guardmut) in a scratch copy of /repo and
# record which checks report a violation. Output: one line per guard: index, site, condition, detecting checks.
export GOFLAGS=-mod=mod GOPROXY=off GOSUMDB=off GOTOOLCHAIN=local; unset GOWORK
first=${1:-0}; last=${2:-100000}; mflag=""; [ "$MODE" = ops ] && mflag="-ops"
d=$(mktemp -d /tmp/gsweep.XXXXXX); sv=$(mktemp -d /tmp/gsweepv.XXXXXX)
trap 'rm -rf "$d" "$sv"' EXIT
rsync -a --exclude .git /repo/ "$d/"
cp /verif/known_findings.json /verif/properties.jsonl "$sv/"
n=$(/verif/bin/guardmut -repo "$d" $mflag -list | wc -l)
for i in $(seq $first $((n-1))); do
  [ $i -gt $last ] && break
  site=$(/verif/bin/guardmut -repo "$d" $mflag -apply $i)
  file=${site%%:*}
  if ! (cd "$d" && go build ./... >/dev/null 2>&1); then
    echo -e "$i\t$site\tNOCOMPILE"; cp "/repo/$file" "$d/$file"; continue
  fi
  if [ "$MODE" = ops ]; then
    if (cd "$d" && go test -vet=off -count=1 ./... 2>&1 | grep -qE '^(FAIL|--- FAIL|panic)'); then
      echo -e "$i\t$site\tKILLED-BY-SUITE"; cp "/repo/$file" "$d/$file"; continue
    fi
  fi
  props=$(/verif/tools/props_for_files.sh "$file")
  skip=""; case "$file" in codecs/av1*) ;; *) skip=AV1Payloader;; esac
  for p in $props; do ( RTPCHECK_SKIP=$skip ${RTPCHECK_BIN:-/verif/bin/rtpcheck} -prop $p -repo "$d" -verif "$sv" > "$sv/$p.out" 2>&1; echo $? > "$sv/$p.rc" ) & done; wait
  det=""
  for p in $props; do rc=$(cat "$sv/$p.rc"); [ "$rc" = 1 ] && det="$det $p:$(grep -m1 -E '^  violation:' "$sv/$p.out" | sed -E 's/^  violation: ([^|]+)\|.*/\1/')"; [ "$rc" = 2 ] && det="$det $p(fail)"; done
  echo -e "$i\t$site\t${det:- NONE}"
  cp "/repo/$file" "$d/$file"
done
