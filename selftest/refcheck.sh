#!/bin/bash
# usage: refcheck.sh <patch.diff>...  — behaviour-preserving refactorings must leave every check silent.
# Applies each patch to a scratch copy of /repo, confirms it builds and the suite passes, runs the checks that
# analyse the touched files (all twenty with FULL=1) and prints the checks that raise an alarm (exit != 0).
export GOFLAGS=-mod=mod GOPROXY=off GOSUMDB=off GOTOOLCHAIN=local; unset GOWORK
bin=${RTPCHECK_BIN:-/verif/bin/rtpcheck}
d=$(mktemp -d /tmp/refchk.XXXXXX); sv=$(mktemp -d /tmp/refchkv.XXXXXX)
trap 'rm -rf "$d" "$sv"' EXIT
cp /verif/known_findings.json /verif/properties.jsonl "$sv/"
for patch in "$@"; do
  rsync -a --delete --exclude .git /repo/ "$d/"
  (cd "$d" && patch -p1 -s < "$patch") || { echo "$patch: PATCH-FAILED"; continue; }
  (cd "$d" && go build ./... >/dev/null 2>&1) || { echo "$patch: NOBUILD"; continue; }
  if (cd "$d" && go test -vet=off -count=1 ./... 2>&1 | grep -qE '^(FAIL|--- FAIL|panic)'); then echo "$patch: SUITE-FAILS"; continue; fi
  props="C01 C02 C03 C04 C05 C06 C07 C08 C09 C10 C11 C12 C13 C14 C15 C16 C17 C18 C19 C20"
  if [ -z "$FULL" ]; then
    files=$(grep -E '^\+\+\+ b/' "$patch" | sed 's#^+++ b/##')
    props=$(/verif/tools/props_for_files.sh $files)
  fi
  [ -n "$PROPS" ] && props="$PROPS"   # PROPS="C10 C14": only these checks
  for p in $props; do ( $bin -prop $p -repo "$d" -verif "$sv" > "$sv/$p.out" 2>&1; echo $? > "$sv/$p.rc" ) & done; wait
  alarms=""
  for p in $props; do
    rc=$(cat "$sv/$p.rc")
    if [ "$rc" != 0 ]; then alarms="$alarms $p(rc=$rc)"; grep -E '^  violation:|CHECKER-FAILURE' "$sv/$p.out" | head -4 | cut -c1-260 | sed "s#$d/##g; s/^/      /"; fi
  done
  echo "$patch: ${alarms:- silent} [$props]"
done
