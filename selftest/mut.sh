#!/bin/sh
# usage: mut.sh <prop[,prop...]> <patch-file | -e 'sed-expr' file>   — run checks on a scratch copy of /repo with a change applied
props="$1"; shift
d=$(mktemp -d /tmp/scratch.XXXXXX)
rsync -a --exclude .git /repo/ "$d/"
if [ "$1" = "-e" ]; then
  sed -i -E "$2" "$d/$3" || exit 3
  if diff -q "$d/$3" "/repo/$3" >/dev/null; then echo "MUTATION DID NOT CHANGE $3"; rm -rf "$d"; exit 3; fi
else
  (cd "$d" && patch -p1 -s < "$1") || { echo "PATCH FAILED"; rm -rf "$d"; exit 3; }
fi
cp /verif/known_findings.json /tmp/scratch-verif/ 2>/dev/null
export GOFLAGS=-mod=mod GOPROXY=off GOSUMDB=off GOTOOLCHAIN=local; unset GOWORK
(cd "$d" && go build ./... 2>&1 | grep -v WARNING | head -5)
rc=0
for p in $(echo "$props" | tr , ' '); do
  /verif/bin/rtpcheck -prop "$p" -repo "$d" -verif /tmp/scratch-verif 2>&1 | grep -v WARNING | grep -E 'violation:|VIOLATION|CHECKER-FAILURE|^property=' | sed "s#$d/##g"
done
rm -rf "$d"
