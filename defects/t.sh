#!/bin/sh
# usage: t.sh [TestDxx]  — runs baseline (skipping defect demos) and optionally one demo
cd /repo; export GOFLAGS=-mod=mod GOPROXY=off GOSUMDB=off GOTOOLCHAIN=local
go test -vet=off -count=1 -skip '^TestD[0-9]' ./... 2>&1 | grep -v WARNING | grep -E '^(---|FAIL|panic|\s+\S+_test.go)' | head -20
n=$(go test -vet=off -count=1 -skip '^TestD[0-9]' -v ./... 2>&1 | grep -c '^--- PASS')
echo "baseline top-level passes: $n"
if [ -n "$1" ]; then go test -vet=off -count=1 -run "^$1\$" . ./codecs 2>&1 | grep -v WARNING | grep -E '^(---|ok|FAIL|\s+\S+_test.go)'; fi
